"""Self-test of the normal-form layer (normalise.py, inline.py) on the checker's OWN snippets.

Each snippet is a tiny module written for this test (nothing of gym_gridverse is involved);
the function `f` is rewritten by the normalisers and both versions are executed on a list of
inputs: results (or exception types) must agree.  Snippets marked `changed=False` exercise
side conditions: the rewrite must leave them alone.  This checks the machinery, not a
property; a failure means a rewrite is not semantics-preserving, and the thorough tier stops
with exit 2."""
from __future__ import annotations

import ast
import copy
import os
import shutil
import tempfile
from typing import Any, Dict, List, Tuple

from .normalise import nnf, normalise_function, simplify_locals

# (name, source, inputs, expect the function to change)
SNIPPETS: List[Tuple[str, str, List[tuple], Any]] = [
    ('filter-continue', '''
def f(xs, k):
    out = []
    for x in xs:
        if x == k:
            continue
        y = x * 2
        if y > 4:
            out.append(y)
    return out
''', [([1, 2, 3, 4], 3), ([], 0), ([5, 5], 5)], True),
    ('if-else-append', '''
def f(xs, k):
    out = []
    for x in xs:
        if x < k:
            out.append(-x)
        else:
            out.append(x)
    return out
''', [([1, 2, 3], 2), ([], 1)], True),
    ('partition', '''
def f(xs, k):
    lo = []
    hi = []
    for x in xs:
        if x < k:
            lo.append(x)
        else:
            hi.append(x + 1)
    return lo, hi
''', [([3, 1, 2, 5], 3), ([], 0)], True),
    ('nested-rows', '''
def f(h, w):
    rows = []
    for y in range(h):
        row = []
        for x in range(w):
            inside = 0 < y and x < 2
            row.append((y, x) if inside else None)
        rows.append(row)
    return rows
''', [(3, 3), (0, 2), (2, 0)], True),
    ('branch-loops', '''
def f(xs, flag):
    out = []
    if flag:
        for x in xs:
            out.append(0)
    else:
        for x in xs:
            out.append(x)
    return out
''', [([1, 2], True), ([1, 2], False)], True),
    ('dict-accumulate', '''
def f(pairs, keys):
    d = {}
    for k, v in pairs:
        if k not in keys:
            continue
        d[k] = v
    return d
''', [([(1, 'a'), (2, 'b'), (1, 'c')], [1]), ([], [])], True),
    ('set-accumulate', '''
def f(xs):
    s = set()
    for x in xs:
        s.add(x % 3)
    return sorted(s)
''', [([1, 2, 3, 4, 5],), ([],)], True),
    ('conditional-local', '''
def f(xs):
    d = {}
    for x in xs:
        if x > 1:
            t = float
        else:
            t = int
        d[x] = t(x)
    return d
''', [([0, 1, 2, 3],)], True),
    ('ssa-straightline', '''
def f(a):
    lo = a
    lo = [lo, lo]
    hi = len(lo)
    hi = hi + 1
    return lo, hi
''', [(1,), ('x',)], True),
    ('nested-accumulate-with-locals', '''
def f(rows, lo, k):
    out = []
    for y in range(lo, len(rows)):
        row = rows[y]
        if y == k:
            continue
        for x in range(len(row)):
            if row[x] > 0:
                out.append((y, x))
    return out
''', [([[1, 0], [0, 2], [3, 3]], 0, 1), ([[1]], 0, 5), ([], 0, 0)], True),
    ('parallel-locals', '''
def f(p, offs, h):
    out = []
    for dy, dx in offs:
        y, x = (p[0] + dy, p[1] + dx)
        if 0 <= y < h and 0 <= x < h:
            out.append((y, x))
    return out
''', [((0, 0), [(-1, 0), (0, 1), (1, 0), (0, -1)], 2), ((1, 1), [(0, 1)], 2)], True),
    ('rebound-in-later-loop', '''
def f(n, offs):
    cells = []
    for y in range(n):
        for x in range(n):
            cells.append((y, x))
    moved = []
    for c in cells:
        for d in offs:
            y, x = (c[0] + d, c[1] - d)
            moved.append((y, x))
    return cells, moved
''', [(2, [1, 2]), (0, [1])], True),
    # ---- side conditions: must not be rewritten
    ('break-in-loop', '''
def f(xs):
    out = []
    for x in xs:
        if x < 0:
            break
        out.append(x)
    return out
''', [([1, 2, -1, 3],), ([],)], False),
    ('nested-local-with-call-used-twice', '''
def f(rows, g):
    out = []
    for y in range(len(rows)):
        v = g(y)
        for x in range(len(rows[y])):
            out.append((v, x))
    return out
''', [([[1, 2], [3]], lambda y: [y])], None),
    ('loop-var-used-after', '''
def f(xs):
    out = []
    x = None
    for x in xs:
        out.append(x)
    return out, x
''', [([1, 2],), ([],)], False),
    ('accumulate-across-outer-loop', '''
def f(n):
    out = []
    for i in range(n):
        for j in range(i):
            out.append((i, j))
    return out
''', [(3,), (0,)], None),
    ('acc-read-in-body', '''
def f(xs):
    out = []
    for x in xs:
        out.append(x + len(out))
    return out
''', [([5, 5, 5],)], False),
    ('acc-in-iter', '''
def f(xs):
    out = []
    seen = [0]
    for x in xs:
        seen.append(x)
    for y in seen:
        out.append(y)
    return out
''', [([1, 2],)], None),
    ('call-value-used-twice', '''
def f(xs, g):
    out = []
    for x in xs:
        v = g(x)
        out.append((v, v))
    return out
''', [([1, 2], lambda x: [x])], False),
    ('else-clause', '''
def f(xs):
    out = []
    for x in xs:
        out.append(x)
    else:
        out.append(-1)
    return out
''', [([1],), ([],)], False),
    ('ssa-in-branch', '''
def f(a):
    x = a
    if a:
        x = 0
    return x
''', [(1,), (0,)], False),
    ('ssa-closure', '''
def f(a):
    x = a
    g = lambda: x
    x = a + 1
    return g()
''', [(1,)], False),
]

PARAM_SSA = [
    ('rebound-parameters', '''
def f(a, b, c=1):
    x = a
    a, b = (x + 1, b or -x)
    b = b * 2
    return (a, b, x) if c else (b, a)
''', [(1, 0), (2, 5), (3, 0, 0)], True),
    ('parameter-rebound-in-branch', '''
def f(a, b):
    if b:
        a = a + 1
    return a
''', [(1, 0), (1, 1)], False),
]

# (name, source, inputs, expect the loop to be rewritten) -- normalise.break_to_flag
BREAK_FLAG = [
    ('break-last', '''
def f(rays, opaque):
    seen = []
    for ray in rays:
        for p in ray:
            seen.append(p)
            if p in opaque:
                break
    return seen
''', [([[1, 2, 3], [4, 5]], {2}), ([[1, 2, 3]], set()), ([[]], {1}), ([[1, 1, 2]], {1})], True),
    ('break-middle', '''
def f(rays, opaque):
    seen = []
    after = []
    for ray in rays:
        for p in ray:
            seen.append(p)
            if p in opaque:
                break
            after.append(p)
    return seen, after
''', [([[1, 2, 3], [4, 5]], {2, 4}), ([[1, 2, 3]], set())], True),
    ('break-with-else', '''
def f(rays, opaque):
    seen = []
    for ray in rays:
        for p in ray:
            if p in opaque:
                break
            seen.append(p)
        else:
            seen.append(-1)
    return seen
''', [([[1, 2, 3], [4, 5]], {2})], False),
    ('two-breaks', '''
def f(rays, opaque):
    seen = []
    for ray in rays:
        for p in ray:
            if p in opaque:
                break
            seen.append(p)
            if p > 3:
                break
    return seen
''', [([[1, 2, 3], [4, 5]], {2})], False),
]

SIMPLIFY = [
    ('aliases-and-constants', '''
class S:
    def __init__(self):
        self.grid = {}
        self.agent = [0]

def f(k):
    state = S()
    colour = 'red'
    grid, agent = state.grid, state.agent
    first, last = 1, k - 2
    grid[first] = colour
    agent[0] = last
    return state.grid, state.agent
''', [(5,), (2,)]),
    ('one-use-constructor', '''
def f(k):
    names = list('abc')
    item = dict(a=k)
    out = [item]
    return out, names[k]
''', [(0,), (2,)]),
    ('alias-not-stable', '''
class S:
    def __init__(self, g):
        self.grid = g

def f(k):
    state = S([k])
    grid = state.grid
    state.grid = [0]
    return grid
''', [(3,)]),
]


def _run(src: str, fn_src: str, inputs) -> List[Any]:
    ns: Dict[str, Any] = {}
    exec(compile(src, '<snippet>', 'exec'), ns)
    if fn_src:
        exec(compile(fn_src, '<normalised>', 'exec'), ns)
    out = []
    for args in inputs:
        try:
            out.append(repr(ns['f'](*copy.deepcopy(args))))
        except Exception as e:            # noqa: BLE001 - exception types are compared
            out.append(f'raise {type(e).__name__}')
    return out


def _fn(tree: ast.Module) -> ast.FunctionDef:
    return [n for n in tree.body if isinstance(n, ast.FunctionDef) and n.name == 'f'][0]


INLINE_PKG = {
    'gym_gridverse/__init__.py': '',
    'gym_gridverse/m.py': '''
from typing import Optional, Tuple


class P:
    def __init__(self, y):
        self.y = y


def front(s) -> P:
    return P(s + 1)


def _faced(s, limit) -> Optional[Tuple[int, int]]:
    p = front(s)
    if p.y > limit:
        return None
    return p.y, p.y * 2


def _pick(a, b, lo, hi):
    if b < a:
        return lo
    if b > a:
        return hi
    return 0.0


def _twice(x):
    return x * 2


def _kind(x, lo):
    if x is None:
        return 'none'
    if x < lo:
        k = 'low'
        d = lo - x
    else:
        k = 'high'
        d = x - lo
    tag = k + str(d)
    return tag, d


def g(x, lo):
    return [_kind(x, lo), _kind(None, lo)]


def f(s, limit):
    if s < 0:
        return 'neg'
    faced = _faced(s, limit=limit)
    if faced is None:
        return 'none'
    pos, val = faced
    return _pick(pos, val, lo=_twice(1), hi='hi'), pos


class C:
    def __init__(self):
        self.v = None
        self.memo = 7

    def _install(self, v):
        self.v = v
        self.memo = None

    def f(self, x):
        nv = x + 1
        self._install(nv)
        return self.v, self.memo
''',
}


def _inline_check() -> List[str]:
    """helper inlining, Optional path splitting, copy propagation, keyword canonicalisation
    and pure-expression inlining on a synthetic package"""
    from .index import RepoIndex
    from .view import view
    errs: List[str] = []
    d = tempfile.mkdtemp(prefix='gvnormtest-')
    try:
        for rel, text in INLINE_PKG.items():
            p = os.path.join(d, rel)
            os.makedirs(os.path.dirname(p), exist_ok=True)
            open(p, 'w').write(text)
        open(os.path.join(d, 'setup.py'), 'w').write('')
        ix = RepoIndex(d)
        src_mod = INLINE_PKG['gym_gridverse/m.py']
        # module function
        fn = ix.func('gym_gridverse/m.py', 'f')
        node, _, inl = view(ix, fn)
        new_src = ast.unparse(node)
        if '_faced' not in inl or '_pick(' in new_src or '_twice(' in new_src:
            errs.append(f'inline: helpers not inlined ({inl})')
        inputs = [(-1, 5), (0, 5), (4, 5), (5, 5), (9, 5), (1, 1)]
        a = _run(src_mod, '', inputs)
        b = _run(src_mod, new_src, inputs)
        if a != b:
            errs.append(f'inline: f differs {a} vs {b}')
        # conditional locals of a helper used at expression level
        from .inline import inline_pure_exprs
        gfn = ix.func('gym_gridverse/m.py', 'g')
        gex = inline_pure_exprs(ix, gfn.module, None, gfn.node)
        gsrc = ast.unparse(gex)
        if '_kind(' in gsrc:
            errs.append('inline: conditional-local helper not inlined at expression level')
        ginputs = [(1, 3), (5, 3), (3, 3)]
        ns_a: Dict[str, Any] = {}
        exec(compile(src_mod, '<snippet>', 'exec'), ns_a)
        ns_b: Dict[str, Any] = {}
        exec(compile(src_mod, '<snippet>', 'exec'), ns_b)
        exec(compile(gsrc, '<normalised>', 'exec'), ns_b)
        ga = [repr(ns_a['g'](*a_)) for a_ in ginputs]
        gb = [repr(ns_b['g'](*a_)) for a_ in ginputs]
        if ga != gb:
            errs.append(f'inline: g differs {ga} vs {gb}')
        # method with a private helper
        m = ix.func('gym_gridverse/m.py', 'C.f')
        node, _, inl = view(ix, m)
        if '_install' not in inl:
            errs.append(f'inline: private method not inlined ({inl})')
        ns: Dict[str, Any] = {}
        exec(compile(src_mod, '<snippet>', 'exec'), ns)
        want = [ns['C']().f(k) for k in (0, 3)]
        ns2: Dict[str, Any] = {}
        exec(compile(src_mod, '<snippet>', 'exec'), ns2)
        fdef = ast.unparse(node)
        exec(compile(fdef, '<normalised>', 'exec'), ns2)
        ns2['C'].f = ns2['f']
        got = [ns2['C']().f(k) for k in (0, 3)]
        if want != got:
            errs.append(f'inline: C.f differs {want} vs {got}')
    finally:
        shutil.rmtree(d, ignore_errors=True)
    return errs


def run() -> Dict[str, Any]:
    errs: List[str] = []
    n = 0
    for name, src, inputs, expect in SNIPPETS:
        n += 1
        tree = ast.parse(src)
        old = _fn(tree)
        new = normalise_function(old)
        changed = new is not old and ast.dump(new) != ast.dump(old)
        if expect is not None and changed != expect:
            errs.append(f'{name}: rewritten={changed}, expected {expect}')
        a = _run(src, '', inputs)
        b = _run(src, ast.unparse(new), inputs)
        if a != b:
            errs.append(f'{name}: results differ: {a} vs {b}')
    from .normalise import ssa_params
    for name, src, inputs, expect in PARAM_SSA:
        n += 1
        tree = ast.parse(src)
        old = _fn(tree)
        new = ssa_params(old)
        changed = ast.dump(new) != ast.dump(old)
        if changed != expect:
            errs.append(f'{name}: rewritten={changed}, expected {expect}')
        a = _run(src, '', inputs)
        b = _run(src, ast.unparse(new), inputs)
        if a != b:
            errs.append(f'{name}: results differ: {a} vs {b}')
    from .normalise import break_to_flag
    for name, src, inputs, expect in BREAK_FLAG:
        n += 1
        tree = ast.parse(src)
        fn = _fn(tree)
        outer = [x for x in fn.body if isinstance(x, ast.For)][0]
        inner = [x for x in outer.body if isinstance(x, ast.For)][0]
        new = break_to_flag(inner, '__lit')
        if (new is not None) != expect:
            errs.append(f'{name}: rewritten={new is not None}, expected {expect}')
        if new is not None:
            i = outer.body.index(inner)
            outer.body[i:i + 1] = new
            ast.fix_missing_locations(fn)
        a = _run(src, '', inputs)
        b = _run(src, ast.unparse(fn), inputs)
        if a != b:
            errs.append(f'{name}: results differ: {a} vs {b}')
    for name, src, inputs in SIMPLIFY:
        n += 1
        tree = ast.parse(src)
        new = simplify_locals(_fn(tree))
        a = _run(src, '', inputs)
        b = _run(src, ast.unparse(new), inputs)
        if a != b:
            errs.append(f'{name}: results differ: {a} vs {b}')
    # nnf on all valuations of a few formulas
    import itertools
    for text in ('not (a and not b)', 'not (a or (b and not c))', 'not (not a)',
                 'not (x < y) or not (x == y and a)'):
        n += 1
        e = ast.parse(text, mode='eval').body
        g = nnf(e)
        for a_, b_, c_, x_, y_ in itertools.product((False, True), (False, True),
                                                    (False, True), (0, 1), (0, 1)):
            env = {'a': a_, 'b': b_, 'c': c_, 'x': x_, 'y': y_}
            v1 = eval(compile(ast.Expression(e), '<e>', 'eval'), {}, env)
            v2 = eval(compile(ast.fix_missing_locations(ast.Expression(copy.deepcopy(g))),
                              '<g>', 'eval'), {}, env)
            if bool(v1) != bool(v2):
                errs.append(f'nnf({text}) differs at {env}')
                break
    errs += _inline_check()
    n += 3
    return {'snippets': n, 'failures': errs}


if __name__ == '__main__':
    r = run()
    print(f'normal-form self-test: {r["snippets"]} snippets, {len(r["failures"])} failures')
    for e in r['failures']:
        print('  ' + e)
    raise SystemExit(1 if r['failures'] else 0)
