"""Self-test corpus: seeded faults and behaviour-preserving controls as textual edits of the
current tree (old text must occur exactly once, otherwise the variant is skipped)."""
from __future__ import annotations

from typing import Any, Dict, List

T = 'gym_gridverse/envs/transition_functions.py'
R = 'gym_gridverse/envs/reward_functions.py'
TM = 'gym_gridverse/envs/terminating_functions.py'
V = 'gym_gridverse/envs/visibility_functions.py'
O = 'gym_gridverse/envs/observation_functions.py'
RS = 'gym_gridverse/envs/reset_functions.py'
GW = 'gym_gridverse/envs/gridworld.py'
IE = 'gym_gridverse/envs/inner_env.py'
GEO = 'gym_gridverse/geometry.py'
GRID = 'gym_gridverse/grid.py'
GO = 'gym_gridverse/grid_object.py'
SP = 'gym_gridverse/spaces.py'
GYM = 'gym_gridverse/gym.py'
OE = 'gym_gridverse/outer_env.py'
RP = 'gym_gridverse/representations/representation.py'
SR = 'gym_gridverse/representations/state_representations.py'
OR_ = 'gym_gridverse/representations/observation_representations.py'
FA = 'gym_gridverse/envs/yaml/factory.py'
RT = 'gym_gridverse/utils/raytracing.py'
FC = 'gym_gridverse/utils/fast_copy.py'
UT = 'gym_gridverse/envs/utils.py'

CORPUS: List[Dict[str, Any]] = []


def F(name, props, rules, *edits):
    CORPUS.append({'name': name, 'kind': 'fault', 'props': props, 'rules': rules,
                   'edits': [tuple(edits[i:i + 3]) for i in range(0, len(edits), 3)]})


def C(name, props, *edits):
    CORPUS.append({'name': name, 'kind': 'control', 'props': props,
                   'edits': [tuple(edits[i:i + 3]) for i in range(0, len(edits), 3)]})


# ------------------------------------------------------------------ C01
F('actuate_box uses Grid.get instead of contains', ['C01'], ['C01.R1'], T,
  '    if not state.grid.area.contains(position):\n        return\n\n    box = state.grid[position]',
  '    box = state.grid.get(position, factory=Floor)')
F('terminating bump_into_wall drops contains', ['C01', 'C12'], ['C01.R1', 'C12.R1', 'C12.R3'], TM,
  '    return state.grid.area.contains(next_position) and isinstance(\n        state.grid[next_position], Wall\n    )',
  '    return isinstance(state.grid[next_position], Wall)')
F('move_agent back to the IndexError idiom', ['C01', 'C08'], ['C01.R1', 'C08.R3'], T,
  '    if not state.grid.area.contains(next_position):\n        return\n\n    obj = state.grid[next_position]\n    if not obj.blocks_movement:',
  '    try:\n        obj = state.grid[next_position]\n    except IndexError:\n        return\n    if not obj.blocks_movement:')
F('action check only in debug mode', ['C01'], ['C01.R2'], GW,
  '        if not self.action_space.contains(action):',
  '        if gv_debug() and not self.action_space.contains(action):')
F('observation y bound inclusive', ['C01'], ['C01.R3'], SP,
  '        y_in_grid = 0 <= observation.agent.position.y < self.area.height',
  '        y_in_grid = 0 <= observation.agent.position.y <= self.area.height')
F('StateSpace.contains drops held type', ['C01'], ['C01.R3'], SP,
  '            and type(state.agent.grid_object) in self._agent_object_types\n', '')
F('StateSpace.contains drops colours again', ['C01', 'C15'], ['C01.R3', 'C15.R7'], SP,
  '            and state.agent.grid_object.color in self.colors\n', '')
F('reward returns int 0', ['C01'], ['C01.R4'], R,
  '        else 0.0\n    )\n\n\n@reward_function_registry.register\ndef actuate_door',
  '        else 0\n    )\n\n\n@reward_function_registry.register\ndef actuate_door')
F('teleport unguarded draw', ['C01', 'C11'], ['C01.R5', 'C11.R3'], T,
  '        try:\n            i = rng.choice(len(positions))\n        except ValueError:\n            pass\n        else:\n            state.agent.position = positions[i]',
  '        i = rng.choice(len(positions))\n        state.agent.position = positions[i]')
F('keydoor places a BLUE key (undeclared colour)', ['C01', 'C13', 'C17'],
  ['C01.R6', 'C13.R3', 'C17.R7'], RS,
  'state.grid[y_key, x_key] = Key(Color.YELLOW)', 'state.grid[y_key, x_key] = Key(Color.BLUE)')
C('actuate_box: nested if instead of early return', ['C01', 'C09', 'C10'], T,
  '    if not state.grid.area.contains(position):\n        return\n\n    box = state.grid[position]\n\n    if isinstance(box, Box):\n        state.grid[position] = box.content',
  '    if state.grid.area.contains(position):\n        box = state.grid[position]\n        if isinstance(box, Box):\n            state.grid[position] = box.content')
C('teleport: `if positions:` instead of try/except', ['C01', 'C11'], T,
  '        try:\n            i = rng.choice(len(positions))\n        except ValueError:\n            pass\n        else:\n            state.agent.position = positions[i]',
  '        if len(positions) > 0:\n            i = rng.choice(len(positions))\n            state.agent.position = positions[i]')
C('StateSpace.contains conjuncts reordered', ['C01', 'C15'], SP,
  '            and state.grid.area.contains(state.agent.position)\n            and isinstance(state.agent.orientation, Orientation)\n',
  '            and isinstance(state.agent.orientation, Orientation)\n            and state.grid.area.contains(state.agent.position)\n')

# ------------------------------------------------------------------ C02
F('memory samples list(colors) again', ['C02'], ['C02.R5'], RS,
  '    sorted_colors = sorted(colors, key=lambda color: color.value)\n    color_good, color_bad = choices(rng, sorted_colors, size=2, replace=False)',
  '    color_good, color_bad = choices(rng, list(colors), size=2, replace=False)')
F('dynamic_obstacles does not forward rng', ['C02'], ['C02.R3'], RS,
  '    state = empty(shape, random_agent, rng=rng)', '    state = empty(shape, random_agent)')
F('keydoor calls empty with random_agent=True and no rng', ['C02'], ['C02.R3'], RS,
  '    state = empty(shape)\n    assert isinstance(state.grid[shape.height - 2, shape.width - 2], Exit)\n\n    # Generate vertical',
  '    state = empty(shape, True)\n    assert isinstance(state.grid[shape.height - 2, shape.width - 2], Exit)\n\n    # Generate vertical')
F('chain drops rng', ['C02'], ['C02.R3'], T,
  '        transition_function(state, action, rng=rng)', '        transition_function(state, action)')
F('move_obstacles uses numpy global choice', ['C02'], ['C02.R1', 'C02.R2'], T,
  '            i = rng.choice(len(next_positions))', '            i = rnd.choice(len(next_positions))')
F('functional_observation drops rng', ['C02'], ['C02.R3', 'C02.R4'], GW,
  'observation = self._observation_function(state, rng=self._rng)',
  'observation = self._observation_function(state)')
F('set_seed ignores the seed', ['C02'], ['C02.R4'], GW,
  '        self._rng = make_rng(seed)', '        self._rng = make_rng()')
F('debug gate recomputes the observation', ['C02'], ['C02.R6', 'C02.R4'], GW,
  "        if gv_debug() and not self.observation_space.contains(observation):\n            raise ValueError('observation does not satisfy observation_space')",
  "        if gv_debug() and not self.observation_space.contains(observation):\n            observation = self._observation_function(state, rng=self._rng)")
F('stochastic_raytracing ignores the supplied generator', ['C02', 'C06'], ['C02.R2', 'C06.R5'], V,
  '    rng = get_gv_rng_if_none(rng)\n\n    rays = cached_compute_rays_fancy(position, grid.area)\n    counts_num = np.zeros((grid.shape.height, grid.shape.width), dtype=int)\n    counts_den = np.zeros((grid.shape.height, grid.shape.width), dtype=int)\n\n    for ray in rays:\n        light = True\n        for pos in ray:\n            counts_num[pos.y, pos.x] += int(light)\n            counts_den[pos.y, pos.x] += 1\n            light = light and not grid[pos].blocks_vision\n\n    probs',
  '    rng = get_gv_rng()\n\n    rays = cached_compute_rays_fancy(position, grid.area)\n    counts_num = np.zeros((grid.shape.height, grid.shape.width), dtype=int)\n    counts_den = np.zeros((grid.shape.height, grid.shape.width), dtype=int)\n\n    for ray in rays:\n        light = True\n        for pos in ray:\n            counts_num[pos.y, pos.x] += int(light)\n            counts_den[pos.y, pos.x] += 1\n            light = light and not grid[pos].blocks_vision\n\n    probs',
  V, 'from gym_gridverse.rng import get_gv_rng_if_none',
  'from gym_gridverse.rng import get_gv_rng, get_gv_rng_if_none')
C('memory sorts colours by name', ['C02', 'C13'], RS,
  '    sorted_colors = sorted(colors, key=lambda color: color.value)\n    color_good, color_bad',
  '    sorted_colors = sorted(colors, key=lambda color: color.name)\n    color_good, color_bad')

# ------------------------------------------------------------------ C03
F('transition_with_copy makes a shallow copy', ['C03'], ['C03.R1'], T,
  '    next_state = fast_copy(state)', '    next_state = copy.copy(state)',
  T, 'import inspect\nimport warnings', 'import copy\nimport inspect\nimport warnings')
F('fast_copy returns its argument', ['C03'], ['C03.R1'], FC,
  '    return pickle.loads(pickle.dumps(x))', '    return x')
F('subgrid returns self for the full area', ['C03'], ['C03.R3'], GRID,
  '        return Grid(\n            [\n                [\n                    self.objects[y][x]',
  '        if area == self.area:\n            return self\n        return Grid(\n            [\n                [\n                    self.objects[y][x]')
F('reward pickndrop writes the state', ['C03'], ['C03.R2'], R,
  '    has_key = isinstance(state.agent.grid_object, object_type)',
  '    has_key = isinstance(state.agent.grid_object, object_type)\n    state.agent.grid_object = next_state.agent.grid_object')
F('caller writes into the dijkstra result', ['C03'], ['C03.R4'], R,
  '        return distance_array[state.agent.position.y, state.agent.position.x]',
  '        distance_array[object_position.y, object_position.x] = 0.0\n        return distance_array[state.agent.position.y, state.agent.position.x]')
F('Grid.__hash__ uses id(self)', ['C03'], ['C03.R5'], GRID,
  '        return hash(tuple(map(tuple, self.objects)))',
  '        return hash((id(self), tuple(map(tuple, self.objects))))')
F('terminating overlap opens doors', ['C03'], ['C03.R2'], TM,
  '    return isinstance(next_state.grid[next_state.agent.position], object_type)',
  '    cell = next_state.grid[next_state.agent.position]\n    if isinstance(cell, Door):\n        cell.state = Door.Status.OPEN\n    return isinstance(cell, object_type)',
  TM, 'from gym_gridverse.grid_object import Exit, GridObject, MovingObstacle, Wall',
  'from gym_gridverse.grid_object import Door, Exit, GridObject, MovingObstacle, Wall')
C('fast_copy by copy.deepcopy', ['C03'], FC,
  'import pickle\n', 'import copy\n', FC,
  '    return pickle.loads(pickle.dumps(x))', '    return copy.deepcopy(x)')

# ------------------------------------------------------------------ C04
F('step forgets to invalidate the observation', ['C04'], ['C04.R1'], IE,
  '        self._state, reward, done = self.functional_step(self.state, action)\n        self._observation = None\n',
  '        self._state, reward, done = self.functional_step(self.state, action)\n')
F('reset forgets to invalidate the observation', ['C04'], ['C04.R1'], IE,
  '        self._state = self.functional_reset()\n        self._observation = None\n',
  '        self._state = self.functional_reset()\n')
F('observation recomputed on every read', ['C04'], ['C04.R2'], IE,
  '        if self._observation is None:\n            self._observation', '        if True:\n            self._observation')
F('invalidation only when done', ['C04'], ['C04.R1'], IE,
  '        self._state, reward, done = self.functional_step(self.state, action)\n        self._observation = None\n',
  '        self._state, reward, done = self.functional_step(self.state, action)\n        if done:\n            self._observation = None\n')
F('step returns (done, reward)', ['C04'], ['C04.R1'], IE,
  '        return reward, done', '        return done, reward')
F('state property without guard', ['C04'], ['C04.R3'], IE,
  "        if self._state is None:\n            raise RuntimeError(\n                'The state was not set properly;  was the environment reset?'\n            )\n\n        return self._state",
  '        return self._state')
F('step calls functional_step twice', ['C04'], ['C04.R1'], IE,
  '        self._state, reward, done = self.functional_step(self.state, action)\n',
  '        self.functional_step(self.state, action)\n        self._state, reward, done = self.functional_step(self.state, action)\n')
C('step binds the result to one tuple then unpacks', ['C04'], IE,
  '        self._state, reward, done = self.functional_step(self.state, action)\n        self._observation = None\n        return reward, done',
  '        next_state, reward, done = self.functional_step(self.state, action)\n        self._state = next_state\n        self._observation = None\n        return reward, done')

# ------------------------------------------------------------------ C05 / C07 / C18
F('grid rotation table swapped L/R', ['C05', 'C07'], ['C05.R1', 'C07.R1'], GRID,
  'Orientation.R: _rotate_matrix_left,\n    Orientation.B: _rotate_matrix_backward,\n    Orientation.L: _rotate_matrix_right,',
  'Orientation.R: _rotate_matrix_right,\n    Orientation.B: _rotate_matrix_backward,\n    Orientation.L: _rotate_matrix_left,')
F('subgrid upper y bound inclusive', ['C05', 'C07'], ['C05.R2', 'C07.R3'], GRID,
  'if 0 <= y < self.area.height and 0 <= x < self.area.width',
  'if 0 <= y <= self.area.height and 0 <= x < self.area.width')
F('subgrid one-sided x test', ['C05', 'C07'], ['C05.R2', 'C07.R3'], GRID,
  'if 0 <= y < self.area.height and 0 <= x < self.area.width',
  'if 0 <= y < self.area.height and x < self.area.width')
F('masking index order swapped', ['C05', 'C06'], ['C05.R3', 'C06.R6'], O,
  'if not visibility[pos.y, pos.x]:', 'if not visibility[pos.x, pos.y]:')
F('masking stores Floor', ['C05', 'C06'], ['C05.R3', 'C06.R6'], O,
  '            observation_grid[pos] = Hidden()', '            observation_grid[pos] = Floor()',
  O, 'from gym_gridverse.grid_object import Hidden', 'from gym_gridverse.grid_object import Floor, Hidden')
F('agent view position uses xmax', ['C05'], ['C05.R4'], O,
  'pov_agent_position = Position(-area.ymin, -area.xmin)',
  'pov_agent_position = Position(-area.ymin, area.xmax)')
F('rotation by the inverse orientation', ['C05', 'C07'], ['C05.R1', 'C07.R1'], O,
  'state.grid.subgrid(pov_area) * state.agent.orientation',
  'state.grid.subgrid(pov_area) * -state.agent.orientation')
F('wrapper uses another visibility function', ['C05'], ['C05.R5'], O,
  "        visibility_function=visibility_function_registry['partially_occluded'],",
  "        visibility_function=visibility_function_registry['raytracing'],")
F('area branch min/max swapped', ['C05', 'C07', 'C18'], ['C05.R1', 'C07.R1', 'C18.R3'], GEO,
  '(-other.xmax, -other.xmin),\n                    (other.ymin, other.ymax),',
  '(-other.xmin, -other.xmax),\n                    (other.ymin, other.ymax),')
F('visibility gets the world-frame position', ['C07', 'C05'], ['C07.R2', 'C05.R4'], O,
  '        observation_grid, pov_agent_position, rng=rng',
  '        observation_grid, state.agent.position, rng=rng')
F('rotation table entry wrong', ['C18'], ['C18.R1'], GEO,
  '(Orientation.R, Orientation.B): Orientation.L', '(Orientation.R, Orientation.B): Orientation.R')
F('position matrix transposed for RIGHT', ['C18', 'C05', 'C07'], ['C18.R2', 'C05.R1', 'C07.R1'], GEO,
  'return Position(other.x, -other.y)', 'return Position(-other.x, other.y)')
F('Transform.__neg__ wrong', ['C18'], ['C18.R5'], GEO,
  '            -(-self.orientation * self.position),', '            -(self.orientation * self.position),')
F('neg table L<->L', ['C18'], ['C18.R1'], GEO,
  '    Orientation.R: Orientation.L,\n    Orientation.B: Orientation.B,\n    Orientation.L: Orientation.R,\n}',
  '    Orientation.R: Orientation.R,\n    Orientation.B: Orientation.B,\n    Orientation.L: Orientation.L,\n}')
F('move table MOVE_LEFT -> R', ['C08'], ['C08.R1'], UT,
  '    Action.MOVE_LEFT: Orientation.L,\n    Action.MOVE_RIGHT: Orientation.R,',
  '    Action.MOVE_LEFT: Orientation.R,\n    Action.MOVE_RIGHT: Orientation.L,')
C('Orientation.__mul__ Position branches reordered', ['C18', 'C05', 'C07'], GEO,
  '            if self is Orientation.F:\n                return Position(other.y, other.x)\n\n            if self is Orientation.B:\n                return Position(-other.y, -other.x)\n',
  '            if self is Orientation.B:\n                return Position(-other.y, -other.x)\n\n            if self is Orientation.F:\n                return Position(other.y, other.x)\n')
C('from_visibility locals renamed', ['C05', 'C06', 'C07', 'C03'], O,
  '    pov_area = state.agent.transform * area\n', '    view_area = state.agent.transform * area\n',
  O, '    observation_grid = state.grid.subgrid(pov_area) * state.agent.orientation',
  '    observation_grid = state.grid.subgrid(view_area) * state.agent.orientation')

# ------------------------------------------------------------------ C06 / C19
F('stochastic threshold <=', ['C06'], ['C06.R5'], V,
  '    visibility = rng.random(probs.shape) < probs', '    visibility = rng.random(probs.shape) <= probs')
F('flood fill reads opacity before revealing', ['C06'], ['C06.R2', 'C06.R4'], V,
  '        visibility[position.y, position.x] = True\n        if not grid[position].blocks_vision:',
  '        if not grid[position].blocks_vision:\n            visibility[position.y, position.x] = True')
F('neighbour two cells away', ['C06'], ['C06.R3'], V,
  '        Position(position.y - 1, position.x - 1),', '        Position(position.y - 2, position.x - 1),')
F('raytracing default threshold 2', ['C06'], ['C06.R2'], V,
  '    threshold: Union[int, float] = 1,', '    threshold: Union[int, float] = 2,')
F('flood fill consults the object type', ['C06'], ['C06.R1', 'C06.R3'], V,
  '        if not grid[position].blocks_vision:\n            for next_position',
  '        if not grid[position].blocks_vision or grid[position].holdable:\n            for next_position')
C('flood fill loop variable renamed', ['C06'], V,
  '            for next_position in next_positions(position):\n                _partially_occluded_make_visible(\n                    visibility, grid, next_position, next_positions\n                )',
  '            for neighbour in next_positions(position):\n                _partially_occluded_make_visible(\n                    visibility, grid, neighbour, next_positions\n                )')
F('ray step 1.5', ['C19'], ['C19.R3'], RT,
  '        compute_ray(position, area, radians=rad, step_size=0.01)\n        for rad in radians\n    ]\n\n    return rays\n\n\n# the ray',
  '        compute_ray(position, area, radians=rad, step_size=1.5)\n        for rad in radians\n    ]\n\n    return rays\n\n\n# the ray')
F('samples start at index 1', ['C19'], ['C19.R2'], RT,
  '    ys = (y0 + i * dy for i in itt.count())', '    ys = (y0 + i * dy for i in itt.count(1))')
F('takewhile replaced by islice', ['C19'], ['C19.R1'], RT,
  '    positions = itt.takewhile(area.contains, positions)', '    positions = itt.islice(positions, 1000)')
F('direction not a unit vector', ['C19'], ['C19.R2'], RT,
  '    dx = step_size * math.cos(radians)', '    dx = step_size * math.sin(radians)')
F('unique defaults to False', ['C19'], ['C19.R2'], RT,
  '    unique: bool = True,', '    unique: bool = False,')
C('ray sample streams renamed', ['C19'], RT,
  '    ys = (y0 + i * dy for i in itt.count())\n    xs = (x0 + i * dx for i in itt.count())',
  '    rows = (y0 + k * dy for k in itt.count())\n    cols = (x0 + k * dx for k in itt.count())\n    ys, xs = rows, cols')

# ------------------------------------------------------------------ C08 - C11
F('holding a key walks through anything', ['C08'], ['C08.R3'], T,
  '    if not obj.blocks_movement:\n        state.agent.position = next_position',
  '    if not obj.blocks_movement or isinstance(state.agent.grid_object, Key):\n        state.agent.position = next_position')
F('is_move gate deleted', ['C08'], ['C08.R3'], T,
  '    if not action.is_move():\n        return\n\n    next_position', '    next_position')
F('turn_agent also moves', ['C08'], ['C08.R5'], T,
  '        state.agent.orientation *= orientation',
  '        state.agent.orientation *= orientation\n        state.agent.position = state.agent.front()')
F('Door.blocks_movement = is_locked', ['C08', 'C10'], ['C08.R6', 'C10.R5'], GO,
  '    @property\n    def blocks_movement(self) -> bool:\n        return not self.is_open',
  '    @property\n    def blocks_movement(self) -> bool:\n        return self.is_locked')
F('closed unlocked doors can be walked through', ['C08'], ['C08.R3'], T,
  '    if not obj.blocks_movement:\n        state.agent.position = next_position',
  '    if not obj.blocks_movement:\n        state.agent.position = next_position\n    elif isinstance(obj, Door) and not obj.is_locked:\n        state.agent.position = next_position')
F('turn table swapped', ['C08'], ['C08.R1'], T,
  '    Action.TURN_LEFT: Orientation.L,\n    Action.TURN_RIGHT: Orientation.R,',
  '    Action.TURN_LEFT: Orientation.R,\n    Action.TURN_RIGHT: Orientation.L,')
C('move_agent gate written as one conjunction', ['C08', 'C01'], T,
  '    if not state.grid.area.contains(next_position):\n        return\n\n    obj = state.grid[next_position]\n    if not obj.blocks_movement:\n        state.agent.position = next_position',
  '    if (\n        state.grid.area.contains(next_position)\n        and not state.grid[next_position].blocks_movement\n    ):\n        state.agent.position = next_position')
C('move_agent uses != / == on enums', ['C08', 'C10'], T,
  '    if action is not Action.ACTUATE:\n        return\n\n    position = state.agent.front()\n\n    if not state.grid.area.contains(position):\n        return\n\n    door',
  '    if action != Action.ACTUATE:\n        return\n\n    position = state.agent.front()\n\n    if not state.grid.area.contains(position):\n        return\n\n    door')
F('pickndrop drops onto non-blocking cells', ['C09'], ['C09.R2'], T,
  '    can_be_dropped = isinstance(obj_front, Floor) or obj_front.holdable',
  '    can_be_dropped = not obj_front.blocks_movement or obj_front.holdable')
F('pickndrop duplicates the held object', ['C09'], ['C09.R2'], T,
  '        obj_front if obj_front.holdable else NoneGridObject()',
  '        obj_front if obj_front.holdable else state.agent.grid_object')
F('box content replaced by floor', ['C09', 'C10'], ['C09.R1', 'C10.R4'], T,
  '    if isinstance(box, Box):\n        state.grid[position] = box.content',
  '    if isinstance(box, Box):\n        state.grid[position] = Floor()')
F('exits are holdable', ['C09'], ['C09.R3'], GO,
  '    """The (second) most basic object in the grid: blocking cell"""\n\n    state_index = 0\n    color = Color.NONE\n    blocks_movement = False\n    blocks_vision = False\n    holdable = False',
  '    """The (second) most basic object in the grid: blocking cell"""\n\n    state_index = 0\n    color = Color.NONE\n    blocks_movement = False\n    blocks_vision = False\n    holdable = True')
F('Grid.swap sequential assignment', ['C09', 'C11'], ['C09.R4', 'C11.R1'], GRID,
  '        self[p], self[q] = self[q], self[p]', '        self[p] = self[q]\n        self[q] = self[p]')
F('door colour test inverted', ['C10'], ['C10.R2'], T,
  '            and state.agent.grid_object.color == door.color',
  '            and state.agent.grid_object.color != door.color')
F('any object of the right colour opens', ['C10'], ['C10.R2'], T,
  '            isinstance(state.agent.grid_object, Key)\n            and state.agent.grid_object.color == door.color',
  '            state.agent.grid_object.color == door.color')
F('opening consumes the key', ['C10'], ['C10.R3', 'C10.R1'], T,
  '            door.state = Door.Status.OPEN\n\n\n@transition_function_registry.register\ndef actuate_box',
  '            door.state = Door.Status.OPEN\n            state.agent.grid_object = NoneGridObject()\n\n\n@transition_function_registry.register\ndef actuate_box')
F('ACTUATE closes open doors', ['C10'], ['C10.R2'], T,
  '    if door.is_open:\n        pass\n', '    if door.is_open:\n        door.state = Door.Status.CLOSED\n')
F('PICK_N_DROP also actuates doors', ['C10'], ['C10.R2'], T,
  '    if action is not Action.ACTUATE:\n        return\n\n    position = state.agent.front()\n\n    if not state.grid.area.contains(position):\n        return\n\n    door',
  '    if action is not Action.ACTUATE and action is not Action.PICK_N_DROP:\n        return\n\n    position = state.agent.front()\n\n    if not state.grid.area.contains(position):\n        return\n\n    door')
F('obstacles move onto any non-blocking cell', ['C11', 'C09'], ['C11.R1', 'C09.R4'], T,
  '            if state.grid.area.contains(next_position)\n            and isinstance(state.grid[next_position], Floor)',
  '            if state.grid.area.contains(next_position)\n            and not state.grid[next_position].blocks_movement')
F('last candidate never chosen', ['C11'], ['C11.R1'], T,
  '            i = rng.choice(len(next_positions))\n        except ValueError:',
  '            i = rng.choice(len(next_positions) - 1)\n        except ValueError:')
F('obstacles collected while moving', ['C11'], ['C11.R1'], T,
  '    for position in positions:\n        next_positions = [',
  '    for position in state.grid.area.positions():\n        if not isinstance(state.grid[position], MovingObstacle):\n            continue\n        next_positions = [')
F('teleport ignores colour', ['C11'], ['C11.R3'], T,
  '            and isinstance(state.grid[position], Telepod)\n            and state.grid[position].color == telepod.color',
  '            and isinstance(state.grid[position], Telepod)')
F('teleport may stay on its own pod', ['C11'], ['C11.R3'], T,
  '            if position != state.agent.position\n            and isinstance(state.grid[position], Telepod)',
  '            if isinstance(state.grid[position], Telepod)')

# ------------------------------------------------------------------ C12
F('getting_closer rewards equal distance', ['C12'], ['C12.R1'], R,
  '        reward_closer\n        if distance_next < distance_prev\n        else reward_further\n        if distance_next > distance_prev\n        else 0.0\n    )\n\n\n@lru_cache',
  '        reward_closer\n        if distance_next <= distance_prev\n        else reward_further\n        if distance_next > distance_prev\n        else 0.0\n    )\n\n\n@lru_cache')
F('overlap reads the pre-state grid', ['C12'], ['C12.R1', 'C12.R2', 'C12.R3'], R,
  '        if isinstance(next_state.grid[next_state.agent.position], object_type)\n        else reward_off',
  '        if isinstance(state.grid[next_state.agent.position], object_type)\n        else reward_off')
F('pick and drop rewards swapped', ['C12'], ['C12.R1'], R,
  '        if not has_key and next_has_key\n        else reward_drop\n        if has_key and not next_has_key',
  '        if has_key and not next_has_key\n        else reward_drop\n        if not has_key and next_has_key')
F('reduce_all uses any', ['C12'], ['C12.R4'], TM, '        reduction=all,', '        reduction=any,')
F('terminating reach_exit looks at the pre-state', ['C12'], ['C12.R3'], TM,
  '    return overlap(state, action, next_state, object_type=Exit, rng=rng)',
  '    return overlap(state, action, state, object_type=Exit, rng=rng)')
F('functional_step swaps state and next_state for the reward', ['C12'], ['C12.R5'], GW,
  'reward = self._reward_function(state, action, next_state)',
  'reward = self._reward_function(next_state, action, state)')
F('memory reward inverted', ['C12'], ['C12.R1'], R,
  '        (reward_good if agent_grid_object.color is beacon_color else reward_bad)',
  '        (reward_good if agent_grid_object.color is not beacon_color else reward_bad)')
F('memory beacon searched in the pre-state', ['C12'], ['C12.R2'], R,
  '        next_state.grid[position]\n        for position in next_state.grid.area.positions()\n    )\n    beacon_color',
  '        state.grid[position]\n        for position in next_state.grid.area.positions()\n    )\n    beacon_color')
F('memory beacon colour taken from the first Exit', ['C12'], ['C12.R2'], R,
  '        if isinstance(grid_object, Beacon)\n    )',
  '        if isinstance(grid_object, Exit)\n    )')
C('memory beacon found through map', ['C12', 'C01'], R,
  '    grid_objects = (\n        next_state.grid[position]\n        for position in next_state.grid.area.positions()\n    )\n    beacon_color = next(\n        grid_object.color\n        for grid_object in grid_objects\n        if isinstance(grid_object, Beacon)\n    )',
  '    grid = next_state.grid\n    beacons = (\n        grid_object\n        for grid_object in map(grid.__getitem__, grid.area.positions())\n        if isinstance(grid_object, Beacon)\n    )\n    beacon_color = next(beacons).color')
F('dijkstra loses the lower row bound (numpy wraps)', ['C12'], ['C12.R6'], R,
  '                0 <= y_new < layout_array.shape[0]', '                y_new < layout_array.shape[0]')
F('dijkstra bounds the column by the number of rows', ['C12'], ['C12.R6'], R,
  '                and 0 <= x_new < layout_array.shape[1]', '                and 0 <= x_new < layout_array.shape[0]')
F('dijkstra steps diagonally', ['C12'], ['C12.R6'], R,
  'for dy, dx in [(-1, 0), (1, 0), (0, -1), (0, 1)]:', 'for dy, dx in [(-1, 0), (1, 0), (0, -1), (1, 1)]:')
F('dijkstra walks through blocked cells', ['C12'], ['C12.R6'], R,
  '                and layout_array[y_new, x_new]\n', '')
C('dijkstra with split bounds tests', ['C12', 'C01', 'C03'], R,
  '                0 <= y_new < layout_array.shape[0]\n                and 0 <= x_new < layout_array.shape[1]',
  '                y_new >= 0 and y_new < layout_array.shape[0]\n                and x_new >= 0 and x_new < len(layout_array[0])')
F('distance helper reads the enclosing state', ['C12'], ['C12.R1'], R,
  '    def _distance_agent_object(state):\n        object_position = mitt.one(\n            position\n            for position in state.grid.area.positions()\n            if isinstance(state.grid[position], object_type)\n        )\n        return distance_function(state.agent.position, object_position)',
  '    def _distance_agent_object(s):\n        object_position = mitt.one(\n            position\n            for position in state.grid.area.positions()\n            if isinstance(state.grid[position], object_type)\n        )\n        return distance_function(state.agent.position, object_position)')
C('reward overlap as if statements', ['C12', 'C01'], R,
  '    return (\n        reward_on\n        if isinstance(next_state.grid[next_state.agent.position], object_type)\n        else reward_off\n    )',
  '    if isinstance(next_state.grid[next_state.agent.position], object_type):\n        return reward_on\n    return reward_off')

# ------------------------------------------------------------------ C13
F('obstacles may land on the agent', ['C13'], ['C13.R4'], RS,
  '        and position != state.agent.position\n    ]\n\n    try:', '    ]\n\n    try:')
F('random exit may land on the fixed agent cell', ['C13'], ['C13.R4'], RS,
  '            if random_agent or position != Position(1, 1)', '            if True')
F('rooms samples with replacement', ['C13'], ['C13.R2', 'C13.R4'], RS,
  '    agent_position, exit_position = choices(\n        rng,\n        positions,\n        size=2,\n        replace=False,\n    )',
  '    agent_position, exit_position = choices(\n        rng,\n        positions,\n        size=2,\n    )')
F('keydoor agent range reaches the wall', ['C13'], ['C13.R4', 'C13.R3'], RS,
  '    x_agent = rng.integers(1, x_wall - 1, endpoint=True)', '    x_agent = rng.integers(1, x_wall, endpoint=True)')
F('keydoor key beyond the wall', ['C13'], ['C13.R3'], RS,
  '    x_key = rng.integers(1, x_wall - 1, endpoint=True)', '    x_key = rng.integers(1, shape.width - 2, endpoint=True)')
F('crossing raises RuntimeError', ['C13'], ['C13.R1'], RS,
  "        raise ValueError(f'number of rivers ({num_rivers}) must be positive')",
  "        raise RuntimeError(f'number of rivers ({num_rivers}) must be positive')")
F('room passages may fall on a wall junction or the outer wall', ['C13'], ['C13.R5'], RS,
  '            x = rng.integers(x_from + 1, x_to)', '            x = rng.integers(x_from, x_to)')
F('room passages in the vertical walls may reach the last row', ['C13'], ['C13.R5'], RS,
  '            y = rng.integers(y_from + 1, y_to)', '            y = rng.integers(y_from + 1, y_to + 1)')
C('crossing rivers up to height - 1 exclusive (same rows: the height is odd)', ['C13', 'C02'], RS,
  '((h, i) for i in range(2, shape.height - 2, 2))', '((h, i) for i in range(2, shape.height - 1, 2))')
F('crossing rivers may start on the agent row', ['C13'], ['C13.R4'], RS,
  '((h, i) for i in range(2, shape.height - 2, 2))', '((h, i) for i in range(1, shape.height - 2))')
F('memory beacon of the wrong colour', ['C13'], ['C13.R3'], RS,
  '    grid[shape.height - 2, 1] = Beacon(color_good)', '    grid[shape.height - 2, 1] = Beacon(color_bad)')
F('memory_rooms agent is element 1', ['C13'], ['C13.R3'], RS,
  '    agent_position = positions[0]', '    agent_position = positions[1]')
F('memory agent inside the wall', ['C13'], ['C13.R4'], RS,
  '    agent_position = Position(shape.height // 2, shape.width // 2)',
  '    agent_position = Position(shape.height // 2, shape.width // 2 - 1)')
F('teleport pods may land on the agent', ['C13'], ['C13.R4'], RS,
  '            if isinstance(state.grid[position], Floor)\n            and position != state.agent.position\n        ],\n        size=num_telepods,',
  '            if isinstance(state.grid[position], Floor)\n        ],\n        size=num_telepods,')
F('empty validates by assert', ['C13'], ['C13.R1'], RS,
  "    if shape.height < 4 or shape.width < 4:\n        raise ValueError('height and width need to be at least 4')",
  '    assert shape.height >= 4 and shape.width >= 4')
C('keydoor locals renamed', ['C13'], RS,
  '    y_agent = rng.integers(1, shape.height - 2, endpoint=True)\n    x_agent = rng.integers(1, x_wall - 1, endpoint=True)\n    state.agent.position = Position(y_agent, x_agent)',
  '    row = rng.integers(1, shape.height - 2, endpoint=True)\n    col = rng.integers(1, x_wall - 1, endpoint=True)\n    state.agent.position = Position(row, col)')

# ------------------------------------------------------------------ C15 / C16
F('no-overlap space bound one too small', ['C15'], ['C15.R1'], RP,
  '                max_agent_object_type_index\n                + max_agent_object_state_index\n                + max_agent_object_color_index\n                + 2,',
  '                max_agent_object_type_index\n                + max_agent_object_state_index\n                + max_agent_object_color_index\n                + 1,')
F('observation type set without Hidden', ['C15'], ['C15.R2'], OR_,
  '        self._grid_object_types = set(self.observation_space.object_types) | {\n            Hidden,\n            NoneGridObject,\n        }\n        self._grid_object_colors = set(self.observation_space.colors)\n\n    @property\n    def space(self) -> Space:\n        return default',
  '        self._grid_object_types = set(self.observation_space.object_types) | {\n            NoneGridObject,\n        }\n        self._grid_object_colors = set(self.observation_space.colors)\n\n    @property\n    def space(self) -> Space:\n        return default')
F('grid space tiled (width, height, 1)', ['C15'], ['C15.R3'], SR,
  '        lower_bound = np.tile(lower_bound, (height, width, 1))', '        lower_bound = np.tile(lower_bound, (width, height, 1))')
F('agent y normalised by height - 2', ['C15'], ['C15.R5'], SR,
  '        y = (2 * state.agent.position.y - state.grid.shape.height + 1) / (\n            state.grid.shape.height - 1',
  '        y = (2 * state.agent.position.y - state.grid.shape.height + 1) / (\n            state.grid.shape.height - 2')
F('Door.num_states = 2', ['C15'], ['C15.R1'], GO,
  '    def num_states(cls) -> int:\n        return len(Door.Status)', '    def num_states(cls) -> int:\n        return 2')
F('no-overlap status channel starts at T', ['C16'], ['C16.R5'], RP,
  '            max_agent_object_type_index + grid_object.state_index + 1,',
  '            max_agent_object_type_index + grid_object.state_index,')
F('compact status counter incremented per type', ['C16'], ['C16.R6'], SR,
  '                self._grid_object_status_map[i, j] = compact_index\n                compact_index += 1',
  '                self._grid_object_status_map[i, j] = compact_index\n            compact_index += 1')
F('grid conversion transposed', ['C16', 'C15'], ['C16.R3', 'C15.R3'], SR,
  '                    self.grid_object_representation.convert(state.grid[y, x])',
  '                    self.grid_object_representation.convert(state.grid[x, y])')
F('default encoding repeats the status', ['C16'], ['C16.R1'], RP,
  '            grid_object.type_index(),\n            grid_object.state_index,\n            grid_object.color.value,',
  '            grid_object.type_index(),\n            grid_object.state_index,\n            grid_object.state_index,')

# ------------------------------------------------------------------ C17 / C20
F('factory_reset_function mutates its input', ['C17'], ['C17.R5'], FA,
  "    data = schemas['reset_function'].validate(data)\n\n    name = data.pop('name')", "    name = data.pop('name')")
F('reward factory skips the required-key check', ['C17'], ['C17.R4'], R,
  '    checkraise_kwargs(kwargs, required_keys)\n', '')
F('GridWorld receives reward/termination swapped', ['C17'], ['C17.R6'], FA,
  '        reset_function,\n        transition_function,\n        observation_function,\n        reward_function,\n        terminating_function,',
  '        reset_function,\n        transition_function,\n        observation_function,\n        terminating_function,\n        reward_function,')
F('gym id points to another file', ['C17'], ['C17.R1'], GYM,
  '"GV-Keydoor-7x7-v0": "gv_keydoor.7x7.yaml"', '"GV-Keydoor-7x7-v0": "gv_keydoor.5x5.yaml"')
F('a component name misspelt in both copies', ['C17'], ['C17.R3'],
  'yaml/gv_empty.4x4.yaml', '  - name: move_agent', '  - name: move_agnt',
  'gym_gridverse/registered_envs/gv_empty.4x4.yaml', '  - name: move_agent', '  - name: move_agnt')
F('a required parameter renamed in both copies', ['C17'], ['C17.R3'],
  'yaml/gv_crossing.5x5.yaml', '  num_rivers: 1', '  n_rivers: 1',
  'gym_gridverse/registered_envs/gv_crossing.5x5.yaml', '  num_rivers: 1', '  n_rivers: 1')
F('packaged copy edited', ['C17'], ['C17.R1'],
  'gym_gridverse/registered_envs/gv_keydoor.5x5.yaml', '    reward_on: 5.0', '    reward_on: 4.0')
C('an ignored extra key in both copies', ['C17', 'C01'],
  'yaml/gv_empty.4x4.yaml', '  - name: turn_agent', '  - name: turn_agent\n    comment: 7',
  'gym_gridverse/registered_envs/gv_empty.4x4.yaml', '  - name: turn_agent', '  - name: turn_agent\n    comment: 7')
F('gym step reads the observation before stepping', ['C20'], ['C20.R1'], GYM,
  '        reward, done = self.outer_env.step(action_)\n        return self.observation, reward, done, {}',
  '        observation = self.observation\n        reward, done = self.outer_env.step(action_)\n        return observation, reward, done, {}')
F('set_state_representation forgets the gym space', ['C20'], ['C20.R3'], GYM,
  '        self.state_space = outer_space_to_gym_space(\n            self.outer_env.state_representation.space\n        )\n\n    def set_observation',
  '\n    def set_observation')
F('state wrapper returns the observation', ['C20'], ['C20.R2'], GYM,
  '        return self.observation, reward, done, info', '        return observation, reward, done, info')
F('int_to_action off by one', ['C20'], ['C20.R1'], SP,
  '        return self.actions[action]', '        return self.actions[action - 1]')
F('gym Box dtype always int', ['C20', 'C15'], ['C20.R5', 'C15.R6'], GYM,
  '                dtype=float if v.space_type is SpaceType.CONTINUOUS else int,', '                dtype=int,')
C('gym step binds the result tuple first', ['C20'], GYM,
  '        reward, done = self.outer_env.step(action_)\n        return self.observation, reward, done, {}',
  '        result = self.outer_env.step(action_)\n        reward, done = result\n        return self.observation, reward, done, {}')
