"""gvstatic: repository-specific static checkers for gym-gridverse (stdlib ast only)."""
