"""E1 repository index: modules, imports, functions, classes, registries, enums, tables."""
from __future__ import annotations

import ast
import glob
import os
from dataclasses import dataclass, field
from typing import Dict, Iterable, List, Optional, Tuple

from .core import AnalysisError, src
from .normalise import normalise_function

PKG = 'gym_gridverse'
EXCLUDED = {'gym_gridverse/rendering.py', 'gym_gridverse/rendering_gym.py',
            'gym_gridverse/recording.py'}


@dataclass
class Module:
    name: str
    relpath: str
    tree: ast.Module
    text: str
    # local name -> ('module', dotted) | ('attr', dotted_module, attr)
    imports: Dict[str, Tuple] = field(default_factory=dict)
    functions: Dict[str, 'Func'] = field(default_factory=dict)
    classes: Dict[str, 'Cls'] = field(default_factory=dict)
    assigns: Dict[str, List[ast.AST]] = field(default_factory=dict)  # module-level name -> value nodes


@dataclass
class Func:
    name: str
    module: Module
    node: ast.FunctionDef
    cls: Optional['Cls'] = None

    @property
    def qualname(self) -> str:
        return (f'{self.module.name}:{self.cls.name}.{self.name}' if self.cls
                else f'{self.module.name}:{self.name}')

    @property
    def relpath(self) -> str:
        return self.module.relpath

    @property
    def short(self) -> str:
        return f'{self.cls.name}.{self.name}' if self.cls else self.name

    def params(self) -> List[ast.arg]:
        a = self.node.args
        return list(a.posonlyargs) + list(a.args) + list(a.kwonlyargs)

    def positional(self) -> List[ast.arg]:
        a = self.node.args
        ps = list(a.posonlyargs) + list(a.args)
        if self.cls is not None and ps and not self.is_static():
            ps = ps[1:]
        return ps

    def is_static(self) -> bool:
        return any(src(d) == 'staticmethod' for d in self.node.decorator_list)

    def is_property(self) -> bool:
        return any(src(d) == 'property' for d in self.node.decorator_list)

    def param_defaults(self) -> Dict[str, Optional[ast.AST]]:
        a = self.node.args
        pos = list(a.posonlyargs) + list(a.args)
        out: Dict[str, Optional[ast.AST]] = {}
        nd = len(a.defaults)
        for i, p in enumerate(pos):
            j = i - (len(pos) - nd)
            out[p.arg] = a.defaults[j] if j >= 0 else None
        for p, d in zip(a.kwonlyargs, a.kw_defaults):
            out[p.arg] = d
        return out

    def body(self) -> List[ast.stmt]:
        """body without the docstring"""
        b = self.node.body
        if b and isinstance(b[0], ast.Expr) and isinstance(b[0].value, ast.Constant) \
                and isinstance(b[0].value.value, str):
            return b[1:]
        return b


@dataclass
class Cls:
    name: str
    module: Module
    node: ast.ClassDef
    bases: List[str] = field(default_factory=list)
    attrs: Dict[str, ast.AST] = field(default_factory=dict)
    methods: Dict[str, Func] = field(default_factory=dict)
    inner: Dict[str, 'Cls'] = field(default_factory=dict)

    @property
    def relpath(self) -> str:
        return self.module.relpath


class RepoIndex:
    def __init__(self, repo: str, report=None):
        self.repo = repo
        self.modules: Dict[str, Module] = {}
        self.by_path: Dict[str, Module] = {}
        self.report = report
        self._load()
        self.enums = self._enums()
        self.registries = self._registries()

    # ---------------------------------------------------------------- load
    def _load(self) -> None:
        pats = [f'{PKG}/**/*.py', 'scripts/*.py', 'examples/*.py', 'setup.py']
        files: List[str] = []
        for p in pats:
            files += glob.glob(os.path.join(self.repo, p), recursive=True)
        if not any(f.endswith(f'{PKG}/__init__.py') for f in files):
            raise AnalysisError(f'{self.repo}/{PKG} is not a package: nothing to analyse')
        for path in sorted(set(files)):
            rel = os.path.relpath(path, self.repo)
            if rel in EXCLUDED:
                continue
            try:
                text = open(path, encoding='utf-8').read()
                tree = ast.parse(text, filename=rel)
            except SyntaxError as e:
                raise AnalysisError(f'{rel} does not parse: {e}')
            name = rel[:-3].replace(os.sep, '.')
            if name.endswith('.__init__'):
                name = name[: -len('.__init__')]
            m = Module(name, rel, tree, text)
            self.modules[name] = m
            self.by_path[rel] = m
            if self.report is not None:
                self.report.consulted(rel, text)
        for m in self.modules.values():
            self._index_module(m)
        self._specialise_new_options()

    def _specialise_new_options(self) -> None:
        """An *optional* parameter that a function of the pinned tree did not have was added
        later as an option (`pickndrop(.., object_type=None)`, `raytracing(.., ray_method=
        'fancy')`).  When nothing in the repository passes it -- no call site, no shipped
        configuration -- every execution the properties speak about runs with its default, so
        the function is read with the parameter replaced by its constant default.  A faulty
        default path stays visible; the behaviour under the new option is the option's own
        specification, not the property's."""
        from .pinned_names import PARAMS
        self.specialised: Dict[str, Dict[str, str]] = {}
        cand = []
        for m in self.modules.values():
            if not m.relpath.startswith(PKG + '/'):
                continue
            fs = [(f.name, f) for f in m.functions.values()]
            for c in m.classes.values():
                fs += [(f'{c.name}.{n}', f) for n, f in c.methods.items()]
            for short, f in fs:
                old = PARAMS.get(f'{m.relpath}:{short}')
                if old is None:
                    # a function the pinned tree did not have: all its optional parameters are
                    # new options
                    old = []
                dflt = f.param_defaults()
                for p_, d in dflt.items():
                    if isinstance(d, ast.Name) and len(m.assigns.get(d.id, [])) == 1 and \
                            isinstance(m.assigns[d.id][0], ast.Constant) and \
                            not any(isinstance(n, ast.Name) and n.id == d.id and
                                    isinstance(n.ctx, ast.Store) for fn_ in m.functions.values()
                                    for n in ast.walk(fn_.node)):
                        d = m.assigns[d.id][0]       # a module-level constant
                    if p_ not in old and isinstance(d, ast.Constant) and \
                            not isinstance(d.value, (bytes, type(Ellipsis))):
                        cand.append((f, p_, d))
        if not cand:
            return
        passed = set()            # (callee, keyword): callee a Func id or a bare method name
        for m in self.modules.values():
            for n in ast.walk(m.tree):
                if not isinstance(n, ast.Call):
                    continue
                tgt = [n.func]
                if src(n.func).split('.')[-1] == 'partial' and n.args:
                    tgt.append(n.args[0])
                for t_ in tgt:
                    r = self.resolve_callee(m, t_) if isinstance(t_, (ast.Name, ast.Attribute)) \
                        else None
                    if isinstance(r, Func):
                        keys = [id(r)]
                    elif isinstance(t_, ast.Attribute):
                        keys = ['.' + t_.attr]
                    elif isinstance(t_, ast.Name) and r is None:
                        keys = ['.' + t_.id]      # a local / parameter holding a callable
                    else:
                        keys = []
                    for key in keys:
                        passed.update((key, k.arg) for k in n.keywords if k.arg)
                        if any(k.arg is None for k in n.keywords):
                            passed.add((key, '**'))
        yaml_keys = set()         # (section word, component name, key) of shipped configurations
        from . import yamlmini

        def visit(v, section):
            if isinstance(v, dict):
                if isinstance(v.get('name'), str):
                    yaml_keys.update((section, v['name'], k) for k in v)
                for k, x in v.items():
                    visit(x, k if isinstance(x, (dict, list)) else section)
            elif isinstance(v, list):
                for x in v:
                    visit(x, section)
        for pat in ('yaml/*.yaml', f'{PKG}/registered_envs/*.yaml', 'examples/*.yaml'):
            for path in glob.glob(os.path.join(self.repo, pat)):
                try:
                    visit(yamlmini.parse(open(path, encoding='utf-8').read(), path), '')
                except Exception:       # noqa: BLE001 - unreadable file: be conservative
                    yaml_keys.add(('*', '*', '*'))
        for f, p_, d in cand:
            role = os.path.basename(f.module.relpath).split('_')[0]
            by_name = '.' + f.name
            if (id(f), p_) in passed or (id(f), '**') in passed or \
                    (f.cls is not None and ((by_name, p_) in passed or (by_name, '**') in passed)) \
                    or ('*', '*', '*') in yaml_keys or \
                    any(sec_ and role in sec_ and nm == f.name and k == p_
                        for sec_, nm, k in yaml_keys):
                continue
            stored = any(isinstance(n, ast.Name) and n.id == p_ and
                         isinstance(n.ctx, (ast.Store, ast.Del)) for n in ast.walk(f.node))
            pos = [a.arg for a in f.node.args.posonlyargs + f.node.args.args]
            if stored or (p_ in pos and pos.index(p_) < len(pos) - 1 and False):
                continue
            if p_ in pos:
                # a positional option could be passed positionally: only the last positional
                # parameter of a function nobody calls with that many arguments
                n_before = pos.index(p_) - (1 if f.cls is not None else 0)
                name = f.name
                if any(isinstance(n, ast.Call) and len(n.args) > n_before and
                       ((isinstance(n.func, ast.Name) and n.func.id == name) or
                        (isinstance(n.func, ast.Attribute) and n.func.attr == name))
                       for m in self.modules.values() for n in ast.walk(m.tree)):
                    continue

            class T(ast.NodeTransformer):
                def visit_Name(self, n: ast.Name):
                    if n.id == p_ and isinstance(n.ctx, ast.Load):
                        return ast.copy_location(ast.Constant(d.value), n)
                    return n

                def visit_Lambda(self, n: ast.Lambda):
                    if p_ in {a.arg for a in n.args.args + n.args.kwonlyargs}:
                        return n
                    return self.generic_visit(n)
            f.node.body = [T().visit(st) for st in f.node.body]
            ast.fix_missing_locations(f.node)
            self.specialised.setdefault(f.qualname, {})[p_] = repr(d.value)

    def _index_module(self, m: Module) -> None:
        pkg_parts = m.name.split('.')
        is_pkg = m.relpath.endswith('__init__.py')
        for st in ast.walk(m.tree):
            if isinstance(st, ast.Import):
                for a in st.names:
                    local = a.asname or a.name.split('.')[0]
                    m.imports[local] = ('module', a.name if a.asname else a.name.split('.')[0])
            elif isinstance(st, ast.ImportFrom):
                if st.level:
                    base = pkg_parts if is_pkg else pkg_parts[:-1]
                    base = base[: len(base) - (st.level - 1)] if st.level > 1 else base
                    modname = '.'.join(base + ([st.module] if st.module else []))
                else:
                    modname = st.module or ''
                for a in st.names:
                    local = a.asname or a.name
                    sub = f'{modname}.{a.name}'
                    if sub in self.modules or os.path.exists(
                            os.path.join(self.repo, sub.replace('.', os.sep) + '.py')) \
                            or os.path.isdir(os.path.join(self.repo, sub.replace('.', os.sep))):
                        m.imports[local] = ('module', sub)
                    else:
                        m.imports[local] = ('attr', modname, a.name)
        for st in m.tree.body:
            if isinstance(st, ast.FunctionDef):
                m.functions[st.name] = Func(st.name, m, normalise_function(st))
            elif isinstance(st, ast.ClassDef):
                m.classes[st.name] = self._index_class(m, st)
            elif isinstance(st, ast.Assign):
                for t in st.targets:
                    if isinstance(t, ast.Name):
                        m.assigns.setdefault(t.id, []).append(st.value)
                    elif isinstance(t, (ast.Tuple, ast.List)) and \
                            isinstance(st.value, (ast.Tuple, ast.List)) and \
                            len(t.elts) == len(st.value.elts) and \
                            all(isinstance(x, ast.Name) for x in t.elts) and \
                            not any(isinstance(x, ast.Starred) for x in st.value.elts):
                        # `_N, _E, _S, _W = Position(-1, 0), ...`: one table entry per name
                        for x, v in zip(t.elts, st.value.elts):
                            m.assigns.setdefault(x.id, []).append(v)
            elif isinstance(st, ast.AnnAssign) and isinstance(st.target, ast.Name) \
                    and st.value is not None:
                m.assigns.setdefault(st.target.id, []).append(st.value)

    def _index_class(self, m: Module, node: ast.ClassDef) -> Cls:
        c = Cls(node.name, m, node, [src(b) for b in node.bases])
        for st in node.body:
            if isinstance(st, ast.FunctionDef):
                # keep the implementation, not @overload stubs
                if any(src(d).endswith('overload') for d in st.decorator_list):
                    continue
                if any(src(d).endswith('.setter') for d in st.decorator_list):
                    c.methods[st.name + '.setter'] = Func(st.name, m, normalise_function(st), c)
                    continue
                c.methods[st.name] = Func(st.name, m, normalise_function(st), c)
            elif isinstance(st, ast.Assign):
                for t in st.targets:
                    if isinstance(t, ast.Name):
                        c.attrs[t.id] = st.value
            elif isinstance(st, ast.AnnAssign) and isinstance(st.target, ast.Name) \
                    and st.value is not None:
                c.attrs[st.target.id] = st.value
            elif isinstance(st, ast.ClassDef):
                c.inner[st.name] = self._index_class(m, st)
        return c

    # ------------------------------------------------------------- lookup
    def module(self, relpath: str) -> Module:
        m = self.by_path.get(relpath)
        if m is None:
            raise AnalysisError(f'anchor vanished: file {relpath}')
        return m

    def func(self, relpath: str, name: str) -> Func:
        m = self.module(relpath)
        if '.' in name:
            cn, fn = name.split('.', 1)
            c = m.classes.get(cn)
            if c is None or fn not in c.methods:
                raise AnalysisError(f'anchor vanished: {relpath}:{name}')
            return c.methods[fn]
        f = m.functions.get(name)
        if f is None:
            raise AnalysisError(f'anchor vanished: function {relpath}:{name}')
        return f

    def cls(self, relpath: str, name: str) -> Cls:
        m = self.module(relpath)
        c = m.classes.get(name)
        if c is None:
            raise AnalysisError(f'anchor vanished: class {relpath}:{name}')
        return c

    def find_class(self, name: str) -> Optional[Cls]:
        for m in self.modules.values():
            if name in m.classes:
                return m.classes[name]
        return None

    def table(self, relpath: str, name: str) -> ast.AST:
        m = self.module(relpath)
        vals = m.assigns.get(name)
        if not vals:
            raise AnalysisError(f'anchor vanished: table {relpath}:{name}')
        if len(vals) != 1:
            raise AnalysisError(f'table {relpath}:{name} is assigned {len(vals)} times')
        return vals[0]

    def all_functions(self, prefix: str = PKG) -> Iterable[Func]:
        for m in self.modules.values():
            if not m.relpath.startswith(prefix):
                continue
            yield from m.functions.values()
            for c in m.classes.values():
                yield from c.methods.values()
                for ic in c.inner.values():
                    yield from ic.methods.values()

    def resolve_name(self, m: Module, name: str):
        """resolve a bare name used in module m to a Func / Cls / Module / None"""
        if name in m.functions:
            return m.functions[name]
        if name in m.classes:
            return m.classes[name]
        imp = m.imports.get(name)
        if imp is None:
            return None
        if imp[0] == 'module':
            return self.modules.get(imp[1], ('extmodule', imp[1]))
        _, modname, attr = imp
        tm = self.modules.get(modname)
        if tm is None:
            return ('ext', modname, attr)
        # re-export through package __init__
        seen = set()
        while tm is not None and (tm.name, attr) not in seen:
            seen.add((tm.name, attr))
            if attr in tm.functions:
                return tm.functions[attr]
            if attr in tm.classes:
                return tm.classes[attr]
            if attr in tm.assigns:
                return ('var', tm, attr)
            imp2 = tm.imports.get(attr)
            if imp2 is None:
                return None
            if imp2[0] == 'module':
                return self.modules.get(imp2[1], ('extmodule', imp2[1]))
            tm = self.modules.get(imp2[1])
            attr = imp2[2]
            if tm is None:
                return ('ext', imp2[1], imp2[2])
        return None

    def resolve_callee(self, m: Module, func_expr: ast.AST, cls: Optional[Cls] = None):
        """resolve the callee expression of a Call to a Func/Cls, ('ext', mod, attr), or None"""
        if isinstance(func_expr, ast.Name):
            return self.resolve_name(m, func_expr.id)
        if isinstance(func_expr, ast.Attribute):
            v = func_expr.value
            if isinstance(v, ast.Name):
                if v.id == 'self' and cls is not None:
                    return self.method(cls, func_expr.attr)
                r = self.resolve_name(m, v.id)
                if isinstance(r, Module):
                    if func_expr.attr in r.functions:
                        return r.functions[func_expr.attr]
                    if func_expr.attr in r.classes:
                        return r.classes[func_expr.attr]
                    return self.resolve_name(r, func_expr.attr)
                if isinstance(r, Cls):
                    return self.method(r, func_expr.attr)
                if isinstance(r, tuple) and r and r[0] == 'extmodule':
                    return ('ext', r[1], func_expr.attr)
            elif isinstance(v, ast.Attribute):
                # e.g. np.random.seed, mod.sub.func
                base = self.resolve_callee(m, v, cls)
                if isinstance(base, tuple) and base and base[0] == 'ext':
                    return ('ext', f'{base[1]}.{base[2]}', func_expr.attr)
                if isinstance(base, Cls):
                    return self.method(base, func_expr.attr)
        return None

    def method(self, c: Cls, name: str) -> Optional[Func]:
        seen = set()
        stack = [c]
        while stack:
            k = stack.pop(0)
            if k.name in seen:
                continue
            seen.add(k.name)
            if name in k.methods:
                return k.methods[name]
            for b in k.bases:
                bn = b.split('[')[0].split('.')[-1]
                r = self.resolve_name(k.module, bn)
                if isinstance(r, Cls):
                    stack.append(r)
        return None

    def subclasses(self, base: str) -> List[Cls]:
        out = []
        for m in self.modules.values():
            for c in m.classes.values():
                if self.is_subclass(c, base) and c.name != base:
                    out.append(c)
        return out

    def is_subclass(self, c: Cls, base: str) -> bool:
        seen = set()
        stack = [c]
        while stack:
            k = stack.pop()
            if k.name == base:
                return True
            if k.name in seen:
                continue
            seen.add(k.name)
            for b in k.bases:
                bn = b.split('[')[0].split('.')[-1]
                if bn == base:
                    return True
                r = self.resolve_name(k.module, bn)
                if isinstance(r, Cls):
                    stack.append(r)
        return False

    # -------------------------------------------------------------- enums
    def _enums(self) -> Dict[str, 'EnumInfo']:
        out: Dict[str, EnumInfo] = {}

        def visit(c: Cls, prefix: str):
            if any(b.endswith('Enum') for b in c.bases):
                out[prefix + c.name] = EnumInfo.from_class(prefix + c.name, c)
            for ic in c.inner.values():
                visit(ic, prefix + c.name + '.')

        for m in self.modules.values():
            if not m.relpath.startswith(PKG):
                continue
            for c in m.classes.values():
                visit(c, '')
        return out

    def enum(self, name: str) -> 'EnumInfo':
        e = self.enums.get(name)
        if e is None:
            raise AnalysisError(f'anchor vanished: enum {name}')
        return e

    def enum_member(self, node: ast.AST) -> Optional[Tuple[str, str]]:
        """`Color.RED` / `Door.Status.OPEN` / `Orientation.F` -> (enum, canonical member)"""
        if isinstance(node, ast.Attribute):
            base = src(node.value)
            e = self.enums.get(base)
            if e is not None and node.attr in e.canon:
                return base, e.canon[node.attr]
        return None

    # --------------------------------------------------------- registries
    def _registries(self) -> Dict[str, Dict[str, Func]]:
        regs: Dict[str, Dict[str, Func]] = {}
        for m in self.modules.values():
            if not m.relpath.startswith(PKG):
                continue
            for f in m.functions.values():
                for d in f.node.decorator_list:
                    target = d.func if isinstance(d, ast.Call) else d
                    s = src(target)
                    if s.endswith('_registry.register'):
                        regvar = s[: -len('.register')]
                        role = regvar.replace('_function_registry', '')
                        name = f.name
                        if isinstance(d, ast.Call):
                            for kw in d.keywords:
                                if kw.arg == 'name' and isinstance(kw.value, ast.Constant):
                                    name = kw.value.value
                        regs.setdefault(role, {})[name] = f
        return regs

    def registry(self, role: str, floor: int) -> Dict[str, Func]:
        r = self.registries.get(role, {})
        if len(r) < floor:
            raise AnalysisError(
                f'registry `{role}` has {len(r)} registered functions, floor is {floor}')
        return r


@dataclass
class EnumInfo:
    name: str
    members: Dict[str, int]   # canonical member -> value
    canon: Dict[str, str]     # any spelling (aliases included) -> canonical member
    order: List[str]

    @staticmethod
    def from_class(name: str, c: Cls) -> 'EnumInfo':
        members: Dict[str, int] = {}
        canon: Dict[str, str] = {}
        order: List[str] = []
        last: Optional[int] = None
        for st in c.node.body:
            if not (isinstance(st, ast.Assign) and len(st.targets) == 1
                    and isinstance(st.targets[0], ast.Name)):
                continue
            nm = st.targets[0].id
            v = st.value
            if isinstance(v, ast.Constant) and isinstance(v.value, int):
                val = v.value
            elif isinstance(v, ast.Call) and src(v.func) in ('enum.auto', 'auto'):
                val = 1 if last is None else last + 1
            elif isinstance(v, ast.Name) and v.id in canon:
                canon[nm] = canon[v.id]
                continue
            else:
                continue
            # value aliasing: same value = alias of the first
            first = next((k for k, vv in members.items() if vv == val), None)
            if first is not None:
                canon[nm] = first
                continue
            members[nm] = val
            canon[nm] = nm
            order.append(nm)
            last = val
        return EnumInfo(name, members, canon, order)
