"""Fourth and fifth spelling of Grid.subgrid: rows assembled from *segments* (E18).

    [*pads(num_left), *self.objects[y][x_from:x_to], *pads(num_right)]      slice and pad
    [row[x] if 0 <= x < width else Hidden() for x in xs]                    per cell, per row

built by a local row function, an inline conditional or an accumulation loop, with a separate
all-padding row for the rows above and below the grid.  The structure is read statically:

    row(y) ::= segment*            segment ::= pad x len(I)             [P() for _ in I]
                                             | self.objects[Y][lo:hi]   a slice of one row
                                             | self.objects[Y][x] for x in I
                                             | (self.objects[Y][e] if T else P()) for x in I

and which row description applies is a test on y.  What remains are integer expressions (the
segment bounds, written with min / max / clamp helpers / len(range(..))): they are evaluated
by the integer evaluator (inteval: extracted expressions, never the code) at every area
position and grid size of a small box that contains every ordering of the area bounds
relative to 0 and the grid size, and the resulting row is compared, cell for cell, with the
documented slice: the very cell (y, x) inside the grid, padding outside.  Python's slice and
negative-index semantics are part of the reading (a negative start wraps).

`read(index, f)` returns None when Grid.subgrid is not of this shape, else
(pad expressions, mismatches, description)."""
from __future__ import annotations

import ast
import copy
import itertools
from typing import Any, Dict, List, Optional, Tuple

from .core import AnalysisError, src
from .index import Func, RepoIndex
from .inteval import CannotEval, ev as int_ev

GEOMF = 'gym_gridverse/geometry.py'


class _NotThisShape(Exception):
    pass


class _Subst(ast.NodeTransformer):
    def __init__(self, mp: Dict[str, ast.AST]):
        self.mp = mp

    def visit_Name(self, n: ast.Name):
        if isinstance(n.ctx, ast.Load) and n.id in self.mp:
            return copy.deepcopy(self.mp[n.id])
        return n


def _is_pad(e: ast.AST, bound: set) -> bool:
    """a call without arguments that builds one padding object: Hidden(), factory()"""
    return isinstance(e, ast.Call) and not e.args and not e.keywords and \
        isinstance(e.func, ast.Name) and not (
            {n.id for n in ast.walk(e) if isinstance(n, ast.Name)} & bound)


class Reader:
    def __init__(self, index: RepoIndex, f: Func):
        self.index = index
        self.f = f
        self.ap = f.node.args.args[1].arg
        self.local_funcs = {n.name: n for n in f.node.body if isinstance(n, ast.FunctionDef)}
        self.outer_defs: List[Tuple[ast.AST, ast.AST]] = []     # (target, value) in order
        self.pads: List[ast.AST] = []
        self.yvar = ''
        self.ys: Optional[ast.AST] = None
        self.row = None          # RowResult: list of segments | ('if', test, a, b)
        self.inner_defs: List[Tuple[ast.AST, ast.AST]] = []     # scalars of the row program
        self._parse()

    # ------------------------------------------------------------------ structure
    def _row_of(self, e: ast.AST, aliases: Dict[str, ast.AST]) -> Optional[ast.AST]:
        """Y when `e` denotes the row list self.objects[Y]"""
        if isinstance(e, ast.Name) and e.id in aliases:
            return aliases[e.id]
        if isinstance(e, ast.Subscript) and src(e.value) == 'self.objects' and \
                not isinstance(e.slice, (ast.Slice, ast.Tuple)):
            return e.slice
        return None

    def _cell_of(self, e: ast.AST, aliases) -> Optional[Tuple[ast.AST, ast.AST]]:
        """(Y, X) when `e` reads the cell self.objects[Y][X]"""
        if isinstance(e, ast.Subscript) and not isinstance(e.slice, ast.Slice):
            y = self._row_of(e.value, aliases)
            if y is not None and not isinstance(e.slice, ast.Tuple):
                return y, e.slice
            if src(e.value) == 'self' and isinstance(e.slice, ast.Tuple) and \
                    len(e.slice.elts) == 2:
                return e.slice.elts[0], e.slice.elts[1]
        return None

    def _segments(self, e: ast.AST, aliases, rows: Dict[str, list], depth: int = 4):
        if depth < 0:
            return None
        if isinstance(e, ast.Name) and e.id in rows:
            return list(rows[e.id])
        if isinstance(e, ast.List):
            out = []
            for x in e.elts:
                if not isinstance(x, ast.Starred):
                    return None
                s_ = self._segments(x.value, aliases, rows, depth - 1)
                if s_ is None:
                    return None
                out += s_
            return out
        if isinstance(e, ast.BinOp) and isinstance(e.op, ast.Add):
            a = self._segments(e.left, aliases, rows, depth - 1)
            b = self._segments(e.right, aliases, rows, depth - 1)
            return None if a is None or b is None else a + b
        if isinstance(e, ast.Call) and src(e.func) in ('list', 'tuple') and len(e.args) == 1 \
                and not e.keywords:
            return self._segments(e.args[0], aliases, rows, depth - 1)
        if isinstance(e, ast.Call) and isinstance(e.func, ast.Name) and \
                e.func.id in self.local_funcs and not e.keywords:
            h = self.local_funcs[e.func.id]
            body = [s_ for s_ in h.body if not (isinstance(s_, ast.Expr)
                                                and isinstance(s_.value, ast.Constant))]
            ps = [a.arg for a in h.args.args]
            if len(body) == 1 and isinstance(body[0], ast.Return) and \
                    body[0].value is not None and len(ps) == len(e.args):
                v = _Subst(dict(zip(ps, e.args))).visit(copy.deepcopy(body[0].value))
                return self._segments(v, aliases, rows, depth - 1)
            return None
        if isinstance(e, ast.Subscript) and isinstance(e.slice, ast.Slice) and \
                e.slice.step is None:
            y = self._row_of(e.value, aliases)
            if y is not None:
                return [('slice', y, e.slice.lower, e.slice.upper)]
            return None
        if isinstance(e, (ast.ListComp, ast.GeneratorExp)) and len(e.generators) == 1 and \
                not e.generators[0].ifs and isinstance(e.generators[0].target, ast.Name):
            g = e.generators[0]
            v = g.target.id
            if _is_pad(e.elt, {v}):
                self.pads.append(e.elt)
                return [('pad', g.iter, e.elt)]
            c = self._cell_of(e.elt, aliases)
            if c is not None:
                return [('cells', c[0], g.iter, v, c[1])]
            if isinstance(e.elt, ast.IfExp):
                t, a, b = e.elt.test, e.elt.body, e.elt.orelse
                if _is_pad(a, {v}) and self._cell_of(b, aliases) is not None:
                    t, a, b = ast.UnaryOp(ast.Not(), t), b, a
                c = self._cell_of(a, aliases)
                if c is not None and _is_pad(b, {v}):
                    self.pads.append(b)
                    return [('percell', c[0], g.iter, v, t, c[1], b)]
        return None

    def _program(self, stmts: List[ast.stmt], sink: Optional[str], aliases=None, rows=None):
        """row description of a statement list that ends by returning a row (sink None) or by
        appending it to the list `sink`; `aliases` / `rows` are the bindings made before it"""
        aliases = dict(aliases or {})
        rows = {k: list(v) for k, v in (rows or {}).items()}
        stmts = [s_ for s_ in stmts if not (isinstance(s_, ast.Expr)
                                            and isinstance(s_.value, ast.Constant))]
        for i, s_ in enumerate(stmts):
            rest = stmts[i + 1:]
            if isinstance(s_, (ast.Assign, ast.AnnAssign)) and \
                    (isinstance(s_, ast.AnnAssign) or len(s_.targets) == 1):
                t = s_.target if isinstance(s_, ast.AnnAssign) else s_.targets[0]
                v = s_.value
                if v is None:
                    continue
                if isinstance(t, ast.Name):
                    y = self._row_of(v, aliases)
                    if y is not None:
                        aliases[t.id] = y
                        continue
                    sg = self._segments(v, aliases, rows)
                    if sg is not None:
                        rows[t.id] = sg
                        continue
                self.inner_defs.append((t, v))
                continue
            if isinstance(s_, ast.Expr) and isinstance(s_.value, ast.Call) and \
                    isinstance(s_.value.func, ast.Attribute) and \
                    isinstance(s_.value.func.value, ast.Name) and len(s_.value.args) == 1:
                recv, meth, arg = s_.value.func.value.id, s_.value.func.attr, s_.value.args[0]
                if recv in rows and meth == 'extend':
                    sg = self._segments(arg, aliases, rows)
                    if sg is None:
                        raise _NotThisShape(src(s_))
                    rows[recv] = rows[recv] + sg
                    continue
                if sink is not None and recv == sink and meth == 'append':
                    sg = self._segments(arg, aliases, rows)
                    if sg is None or rest:
                        raise _NotThisShape(src(s_))
                    return sg
                raise _NotThisShape(src(s_))
            if isinstance(s_, ast.AugAssign) and isinstance(s_.op, ast.Add) and \
                    isinstance(s_.target, ast.Name) and s_.target.id in rows:
                sg = self._segments(s_.value, aliases, rows)
                if sg is None:
                    raise _NotThisShape(src(s_))
                rows[s_.target.id] = rows[s_.target.id] + sg
                continue
            if isinstance(s_, ast.Return) and sink is None and s_.value is not None:
                sg = self._segments(s_.value, aliases, rows)
                if sg is None:
                    raise _NotThisShape(src(s_))
                return sg
            if isinstance(s_, ast.If):
                def ends(b):
                    return bool(b) and (isinstance(b[-1], ast.Return) if sink is None else (
                        isinstance(b[-1], ast.Expr) and isinstance(b[-1].value, ast.Call)
                        and src(b[-1].value.func) == f'{sink}.append'))
                if s_.orelse and ends(s_.body) and ends(s_.orelse) and not rest:
                    return ('if', s_.test, self._sub(s_.body, sink, aliases, rows),
                            self._sub(s_.orelse, sink, aliases, rows))
                if not s_.orelse and ends(s_.body):
                    return ('if', s_.test, self._sub(s_.body, sink, aliases, rows),
                            self._sub(rest, sink, aliases, rows))
                if s_.orelse and not ends(s_.body) and not ends(s_.orelse) and rest:
                    # both branches bind the row, the tail hands it on
                    return ('if', s_.test, self._sub(s_.body + rest, sink, aliases, rows),
                            self._sub(s_.orelse + rest, sink, aliases, rows))
            raise _NotThisShape(src(s_)[:80])
        raise _NotThisShape('row program does not end with its row')

    def _sub(self, stmts, sink, aliases, rows):
        return self._program(stmts, sink, aliases, rows)

    def _parse(self) -> None:
        f = self.f
        body = [s_ for s_ in f.node.body if not (isinstance(s_, ast.Expr)
                                                 and isinstance(s_.value, ast.Constant))]
        # scalar locals of the function, in order
        tail = None
        for i, s_ in enumerate(body):
            if isinstance(s_, ast.FunctionDef):
                continue
            if isinstance(s_, (ast.Assign, ast.AnnAssign)):
                t = s_.target if isinstance(s_, ast.AnnAssign) else (
                    s_.targets[0] if len(s_.targets) == 1 else None)
                if t is None or s_.value is None:
                    raise _NotThisShape(src(s_))
                self.outer_defs.append((t, s_.value))
                continue
            tail = body[i:]
            break
        if not tail:
            raise _NotThisShape('no row construction')
        ret = tail[-1]
        if not (isinstance(ret, ast.Return) and isinstance(ret.value, ast.Call) and
                src(ret.value.func) == 'Grid' and len(ret.value.args) == 1 and
                not ret.value.keywords):
            raise _NotThisShape('does not return Grid(rows)')
        rows_e = ret.value.args[0]
        if len(tail) == 1 and isinstance(rows_e, ast.ListComp) and \
                len(rows_e.generators) == 1 and not rows_e.generators[0].ifs and \
                isinstance(rows_e.generators[0].target, ast.Name):
            g = rows_e.generators[0]
            self.yvar, self.ys = g.target.id, g.iter
            e = rows_e.elt
            if isinstance(e, ast.Call) and isinstance(e.func, ast.Name) and \
                    e.func.id in self.local_funcs and len(e.args) == 1 and not e.keywords and \
                    src(e.args[0]) == self.yvar:
                h = self.local_funcs[e.func.id]
                ps = [a.arg for a in h.args.args]
                if len(ps) != 1:
                    raise _NotThisShape('row function takes more than the row index')
                self.yvar = ps[0]
                self.row = self._program(h.body, None)
            elif isinstance(e, ast.IfExp):
                a = self._segments(e.body, {}, {})
                b = self._segments(e.orelse, {}, {})
                if a is None or b is None:
                    raise _NotThisShape(src(e)[:80])
                self.row = ('if', e.test, a, b)
            else:
                sg = self._segments(e, {}, {})
                if sg is None:
                    raise _NotThisShape(src(e)[:80])
                self.row = sg
            return
        # accumulation loop: the last outer definition is `rows = []`
        if len(tail) == 2 and isinstance(tail[0], ast.For) and isinstance(rows_e, ast.Name) and \
                isinstance(tail[0].target, ast.Name) and not tail[0].orelse:
            sink = rows_e.id
            init = [v for t, v in self.outer_defs if isinstance(t, ast.Name) and t.id == sink]
            if len(init) != 1 or not (isinstance(init[0], ast.List) and not init[0].elts):
                raise _NotThisShape('rows are not accumulated from an empty list')
            self.outer_defs = [(t, v) for t, v in self.outer_defs
                               if not (isinstance(t, ast.Name) and t.id == sink)]
            self.yvar, self.ys = tail[0].target.id, tail[0].iter
            self.row = self._program(tail[0].body, sink)
            return
        raise _NotThisShape('rows are neither a comprehension nor an accumulation loop')


# ---------------------------------------------------------------------- arithmetic
class _Eval:
    """integer evaluation of the extracted bound expressions at one point"""

    def __init__(self, rd: Reader, H: int, W: int, ys: Tuple[int, int], xs: Tuple[int, int]):
        self.rd = rd
        ap = rd.ap
        self.H, self.W = H, W
        self.env: Dict[str, Any] = {
            f'{ap}.ymin': ys[0], f'{ap}.ymax': ys[1], f'{ap}.xmin': xs[0], f'{ap}.xmax': xs[1],
            f'{ap}.height': ys[1] - ys[0] + 1, f'{ap}.width': xs[1] - xs[0] + 1,
            f'{ap}.ys': ys, f'{ap}.xs': xs,
            f'{ap}.shape.height': ys[1] - ys[0] + 1, f'{ap}.shape.width': xs[1] - xs[0] + 1,
            f'{ap}.shape.as_tuple': (ys[1] - ys[0] + 1, xs[1] - xs[0] + 1),
            'self.shape.height': H, 'self.shape.width': W, 'self.shape.as_tuple': (H, W),
            'self.area.height': H, 'self.area.width': W, 'self.area.ymin': 0,
            'self.area.xmin': 0, 'self.area.ymax': H - 1, 'self.area.xmax': W - 1,
            'len(self.objects)': H, 'len(self.objects[0])': W,
        }
        self.ys, self.xs = ys, xs
        self._bind_all(rd.outer_defs)

    def call(self, e: ast.Call, env):
        f = src(e.func)
        args = [self.val(a, env) for a in e.args] if not e.keywords else None
        if args is None:
            return NotImplemented
        if f == 'range' and 1 <= len(args) <= 3:
            return range(*args)
        if f == 'len' and len(args) == 1 and isinstance(args[0], (range, tuple, list)):
            return len(args[0])
        if f in ('tuple', 'list') and len(args) == 1 and isinstance(args[0], (range, tuple)):
            return tuple(args[0])
        if f in ('max', 'min') and len(args) >= 2:
            return max(args) if f == 'max' else min(args)
        if f == f'{self.rd.ap}.y_coordinates' and not args:
            return range(self.ys[0], self.ys[1] + 1)
        if f == f'{self.rd.ap}.x_coordinates' and not args:
            return range(self.xs[0], self.xs[1] + 1)
        if isinstance(e.func, ast.Name):
            cache = self.rd.__dict__.setdefault('_helpers', {})
            if e.func.id not in cache:
                cache[e.func.id] = None
                h = self.rd.index.resolve_name(self.rd.f.module, e.func.id)
                if isinstance(h, Func) and h.cls is None and not h.node.decorator_list:
                    from .inline import pure_body_expr
                    b = pure_body_expr(h.node)
                    if b is not None:
                        cache[e.func.id] = ([a.arg for a in h.node.args.args], b)
            hit = cache[e.func.id]
            if hit is not None and len(hit[0]) == len(args):
                return self.val(hit[1], {**{k: v for k, v in env.items() if '.' in k or '(' in k},
                                         **dict(zip(hit[0], args))})
        return NotImplemented

    def val(self, e: ast.AST, env=None):
        return int_ev(e, self.env if env is None else env, self.call)

    def _bind(self, t: ast.AST, v) -> None:
        if isinstance(t, ast.Name):
            self.env[t.id] = v
        elif isinstance(t, (ast.Tuple, ast.List)) and isinstance(v, (tuple, list)) and \
                len(t.elts) == len(v):
            for tt, vv in zip(t.elts, v):
                self._bind(tt, vv)
        else:
            raise CannotEval(src(t))

    def _bind_all(self, defs) -> None:
        for t, v in defs:
            try:
                self._bind(t, self.val(v))
            except (CannotEval, TypeError, ValueError):
                pass        # only an error if a bound later needs the name

    # the row as a list of ('cell', y, x) / 'pad' / 'error'
    def row(self, y: int) -> List[Any]:
        self.env[self.rd.yvar] = y
        self._bind_all(self.rd.inner_defs)
        r = self.rd.row
        while isinstance(r, tuple) and r and r[0] == 'if':
            r = r[2] if self.val(r[1]) else r[3]
        out: List[Any] = []
        H, W = self.H, self.W

        def cell(yy, xx):
            if not (-H <= yy < H) or not (-W <= xx < W):
                return 'error'
            return ('cell', yy % H, xx % W)
        for sg in r:
            k = sg[0]
            if k == 'pad':
                it = self.val(sg[1])
                out += ['pad'] * len(it)
            elif k == 'slice':
                yy = self.val(sg[1])
                lo = None if sg[2] is None else self.val(sg[2])
                hi = None if sg[3] is None else self.val(sg[3])
                if not -H <= yy < H:
                    out.append('error')
                    continue
                out += [('cell', yy % H, xx) for xx in range(W)[lo:hi]]
            elif k == 'cells':
                yy = self.val(sg[1])
                for xv in self.val(sg[2]):
                    out.append(cell(yy, self.val(sg[4], {**self.env, sg[3]: xv})))
            elif k == 'percell':
                for xv in self.val(sg[2]):
                    env2 = {**self.env, sg[3]: xv}
                    if self.val(sg[4], env2):
                        out.append(cell(self.val(sg[1], env2), self.val(sg[5], env2)))
                    else:
                        out.append('pad')
        return out


def read(index: RepoIndex, f: Func):
    """None | (pads, mismatches, description) -- see the module docstring"""
    try:
        rd = Reader(index, f)
    except _NotThisShape:
        return None
    if rd.row is None or rd.ys is None or not rd.pads:
        return None
    mism: List[str] = []
    spans = [(lo, hi) for lo in range(-3, 5) for hi in range(lo, 6)]
    sizes = [(1, 1), (2, 3), (3, 2)]
    n = 0
    try:
        for (H, W), ys, xs in itertools.product(sizes, spans, spans):
            if ys[1] - ys[0] > 4 and xs[1] - xs[0] > 4:
                continue
            evl = _Eval(rd, H, W, ys, xs)
            rows_y = list(evl.val(rd.ys))
            if rows_y != list(range(ys[0], ys[1] + 1)):
                mism.append(f'rows are built for y in {rows_y[:6]}, the area has '
                            f'{list(range(ys[0], ys[1] + 1))[:6]} (area ys={ys})')
                break
            for y in rows_y:
                got = evl.row(y)
                want = [('cell', y, x) if 0 <= y < H and 0 <= x < W else 'pad'
                        for x in range(xs[0], xs[1] + 1)]
                n += 1
                if got != want and len(mism) < 3:
                    k = next((i for i, (a, b) in enumerate(zip(got, want)) if a != b),
                             min(len(got), len(want)))
                    what = f'has {len(got)} cells instead of {len(want)}' \
                        if len(got) != len(want) else \
                        f'shows {got[k]} at column {k} where the slice has {want[k]}'
                    mism.append(f'grid {H}x{W}, area ys={ys} xs={xs}: row y={y} {what}')
            if len(mism) >= 3:
                break
    except (CannotEval, TypeError, ValueError, KeyError) as ex:
        raise AnalysisError(f'Grid.subgrid: segment bound outside the integer grammar: {ex}')

    def kinds(r):
        if isinstance(r, tuple) and r and r[0] == 'if':
            return f'({kinds(r[2])} if {src(r[1])[:40]} else {kinds(r[3])})'
        return ' + '.join(s_[0] for s_ in r)
    return rd.pads, mism, f'{kinds(rd.row)}; {n} rows compared'
