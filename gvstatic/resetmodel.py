"""Abstract interpretation of the built-in reset functions (C13): symbolic intervals for
drawn coordinates, abstract position lists (Floor-filtered, agent-excluding), without-
replacement samples, writes of grid objects with their regions, and the agent's cell.
Reset functions that call another reset function (`empty`) are inlined."""
from __future__ import annotations

import ast
import copy
import itertools
import math
from dataclasses import dataclass, field
from fractions import Fraction
from typing import Any, Dict, List, Optional, Tuple

from .affine import Aff, NonAffine, aff_of
from .core import AnalysisError, src
from .index import Func, RepoIndex

RESET = 'gym_gridverse/envs/reset_functions.py'
DESIGN = 'gym_gridverse/design.py'


@dataclass
class ListInfo:
    kind: str                    # floor | inside | all | line | unknown
    time: int
    excl_agent: Any = None       # agent value excluded by `!= X.agent.position`
    excl_cell: Any = None        # constant cell excluded
    region: Any = None           # for lines: ('box', ylo, yhi, xlo, xhi)
    text: str = ''


@dataclass
class Write:
    time: int
    region: Any                  # ('cell', y, x) | ('border',) | ('all',) | ('roomgrid',)
    #                              | ('box', ylo, yhi, xlo, xhi) | ('elem', ListInfo)
    #                              | ('selem', sid, i) | ('sslice', sid, lo, hi)
    #                              | ('sall', sid) | None (unknown)
    cls: str
    colour: Optional[str]
    text: str
    line: int
    func: str


class Ctx:
    def __init__(self):
        self.bounds: Dict[str, Tuple[Optional[Aff], Optional[Aff], bool]] = {}
        self.order: List[str] = []
        self.env: Dict[str, Any] = {}
        self.writes: List[Write] = []
        self.agent: Optional[Tuple[Any, int, str, int]] = None   # value, time, text, line
        self.agent_holds: Optional[str] = None
        self.t = 0
        self.flags: Dict[str, Optional[bool]] = {}
        self.samples: Dict[int, Tuple[ListInfo, str, bool]] = {}  # sid -> (list, size, replace_false)
        self.unknown: List[str] = []
        self.raises: List[Tuple[int, str, str]] = []
        self.returned = False
        self.path: List[str] = []

    def newsym(self, name: str, lo: Optional[Aff], hi: Optional[Aff], exact=True) -> Aff:
        n = f'{name}#{len(self.order)}'
        self.bounds[n] = (lo, hi, exact)
        self.order.append(n)
        return Aff.sym(n)

    def fact_ge(self, sym: str, c: int) -> None:
        lo, hi, ex = self.bounds.get(sym, (None, None, True))
        if lo is None or (lo.is_const() and lo.k < c):
            lo = Aff.const(c)
        self.bounds[sym] = (lo, hi, ex)
        if sym not in self.order:
            self.order.insert(0, sym)

    def minimize(self, f: Aff) -> Optional[Fraction]:
        """a lower bound of f over all symbol values (None if unbounded)"""
        f = Aff(dict(f.c), f.k)
        for sym in reversed(self.order):
            c = f.c.get(sym, 0)
            if not c:
                continue
            lo, hi, _ = self.bounds[sym]
            b = lo if c > 0 else hi
            if b is None:
                return None
            f = f.subst({sym: b})
        if f.c:
            return None
        return f.k

    def lt(self, a: Aff, b: Aff) -> bool:
        m = self.minimize(b - a)
        return m is not None and m > 0

    def le(self, a: Aff, b: Aff) -> bool:
        """a <= b for integer-valued forms: a real lower bound of b - a above -1 suffices"""
        d = b - a
        m = self.minimize(d)
        integral = all(v.denominator == 1 for v in d.c.values()) and d.k.denominator == 1
        return m is not None and (m > -1 if integral else m >= 0)


class ResetInterp:
    def __init__(self, index: RepoIndex):
        self.index = index
        self.funcs = index.registry('reset', 8)
        self._bodies: Dict[int, List[ast.stmt]] = {}

    # ------------------------------------------------------------ values
    def aff(self, e: ast.AST, cx: Ctx) -> Optional[Aff]:
        def leaf(x: ast.AST) -> Optional[Aff]:
            s = src(x)
            if s in ('shape.height', 'grid.shape.height', 'state.grid.shape.height'):
                return Aff.sym('h')
            if s in ('shape.width', 'grid.shape.width', 'state.grid.shape.width'):
                return Aff.sym('w')
            if isinstance(x, ast.Attribute) and x.attr in ('height', 'width') and \
                    isinstance(x.value, ast.Name) and cx.env.get(x.value.id) == ('shape',):
                return Aff.sym('h' if x.attr == 'height' else 'w')
            if isinstance(x, ast.Name):
                v = cx.env.get(x.id)
                if isinstance(v, tuple) and v[0] == 'aff':
                    return v[1]
                if isinstance(v, tuple) and v[0] == 'sscalar' and \
                        x.id in getattr(cx, 'scalar_affs', {}):
                    return cx.scalar_affs[x.id]
            if isinstance(x, ast.BinOp) and isinstance(x.op, ast.FloorDiv) and \
                    isinstance(x.right, ast.Constant) and x.right.value == 2:
                a = self.aff(x.left, cx)
                if a is not None:
                    key = f'half({a})'
                    memo = getattr(cx, 'halves', None)
                    if memo is None:
                        memo = cx.halves = {}
                    if key not in memo:
                        memo[key] = cx.newsym('half', (a - 1).scale(Fraction(1, 2)),
                                              a.scale(Fraction(1, 2)), exact=False)
                    return memo[key]
            return None
        try:
            return aff_of(e, leaf)
        except NonAffine:
            return None

    def position(self, e: ast.AST, cx: Ctx):
        """abstract value of a position-valued expression"""
        if isinstance(e, ast.Tuple) and len(e.elts) == 2:
            y, x = self.aff(e.elts[0], cx), self.aff(e.elts[1], cx)
            return ('cell', y, x) if y is not None and x is not None else None
        if isinstance(e, ast.Call) and src(e.func) == 'Position' and len(e.args) == 2:
            y, x = self.aff(e.args[0], cx), self.aff(e.args[1], cx)
            return ('cell', y, x) if y is not None and x is not None else None
        if isinstance(e, ast.Name):
            v = cx.env.get(e.id)
            if isinstance(v, tuple) and v[0] in ('cell', 'elem', 'selem'):
                return v
            return None
        if isinstance(e, ast.Subscript) and isinstance(e.value, ast.Name):
            v = cx.env.get(e.value.id)
            if isinstance(v, tuple) and v[0] == 'sample':
                if isinstance(e.slice, ast.Constant) and isinstance(e.slice.value, int):
                    return ('selem', v[1], e.slice.value)
        if src(e).endswith('.agent.position') and cx.agent is not None:
            return cx.agent[0]
        if isinstance(e, ast.Call) and src(e.func) == 'choice' and len(e.args) == 2:
            base = self.poslist(e.args[1], cx)
            if base is not None:
                return ('elem', base)
        if isinstance(e, ast.Call):
            v = self.helper_value(e, cx)
            if isinstance(v, tuple) and v[0] in ('cell', 'elem', 'selem'):
                return v
        return None

    def body_of(self, f: Func) -> List[ast.stmt]:
        """the function's statements in normal form: module helpers inlined, keyword
        spellings canonical, naming conveniences undone (normalise.simplify_locals)"""
        key = id(f.node)
        hit = self._bodies.get(key)
        if hit is None:
            from .normalise import simplify_locals
            from .view import view
            node = simplify_locals(view(self.index, f)[0])
            from .guards import walk_function
            self._walks = getattr(self, '_walks', {})
            self._walks[f.name] = (walk_function(node), f.module)
            b = node.body
            if b and isinstance(b[0], ast.Expr) and isinstance(b[0].value, ast.Constant) \
                    and isinstance(b[0].value.value, str):
                b = b[1:]
            hit = self._bodies[key] = b
        return hit

    def helper_value(self, call: ast.Call, cx: Ctx, depth: int = 2):
        """inline a call of a non-registered module-level helper of reset_functions.py and
        return the abstract value it returns (None if not understood)"""
        if depth <= 0 or not isinstance(call.func, ast.Name):
            return None
        mod = self.index.module(RESET)
        fn = mod.functions.get(call.func.id)
        if fn is None or call.func.id in self.funcs or call.func.id == 'factory':
            return None
        names = [a.arg for a in fn.node.args.posonlyargs + fn.node.args.args
                 + fn.node.args.kwonlyargs]
        bound: Dict[str, ast.AST] = dict(zip(names, call.args))
        for k in call.keywords:
            if k.arg:
                bound[k.arg] = k.value
        new_env: Dict[str, Any] = {}
        for pn, a in bound.items():
            if src(a) == 'shape' or cx.env.get(src(a)) == ('shape',):
                new_env[pn] = ('shape',)
                continue
            av = self.aff(a, cx)
            if av is not None:
                new_env[pn] = ('aff', av)
                continue
            pv = self.position(a, cx) if not isinstance(a, ast.Call) else None
            if pv is not None:
                new_env[pn] = pv
                continue
            lv = self.poslist(a, cx)
            if lv is not None:
                new_env[pn] = ('list', lv)
        saved = cx.env
        cx.env = new_env
        result = None
        try:
            for st in fn.body():
                cx.t += 1
                if isinstance(st, ast.Return) and st.value is not None:
                    result = self.position(st.value, cx)
                    if result is None:
                        a = self.aff(st.value, cx)
                        result = ('aff', a) if a is not None else None
                    break
                if isinstance(st, ast.AnnAssign) and st.value is not None:
                    st = ast.Assign([st.target], st.value, lineno=st.lineno)
                if isinstance(st, ast.Assign) and len(st.targets) == 1 and \
                        isinstance(st.targets[0], (ast.Name, ast.Tuple)):
                    self.assign(st.targets[0], st.value, st, cx, fn, [])
                elif isinstance(st, ast.Expr) and isinstance(st.value, ast.Constant):
                    continue
                elif isinstance(st, ast.If) and any(isinstance(b, ast.Raise) for b in st.body):
                    continue
                else:
                    result = None
                    break
        finally:
            cx.env = saved
        return result

    def poslist(self, e: ast.AST, cx: Ctx) -> Optional[ListInfo]:
        r = self._poslist(e, cx)
        if r is None and isinstance(e, (ast.ListComp, ast.GeneratorExp)):
            # second reading: any spelling of a scan of the grid (cellstream.py), rewritten to
            # the comprehension over area.positions() the first reading understands
            wk = getattr(self, '_walks', {}).get(getattr(self, '_fname', ''))
            if wk is None:
                return None
            from .cellstream import StreamReader
            import copy
            try:
                st = StreamReader(self.index, wk[1], wk[0]).read(e)
            except Exception:       # noqa: BLE001 - only a second opinion
                st = None
            if st is not None and st.kind == 'cells' and st.grid in ('grid', 'state.grid'):
                class Back(ast.NodeTransformer):
                    def visit_Name(self, n):
                        if n.id == 'O':
                            return ast.parse(f'{st.grid}[_p]', mode='eval').body
                        if n.id == 'P':
                            return ast.Name('_p', ast.Load())
                        return n
                conds = [Back().visit(copy.deepcopy(c)) for c in st.filters]
                comp = ast.ListComp(ast.Name('_p', ast.Load()), [ast.comprehension(
                    ast.Name('_p', ast.Store()),
                    ast.parse(f'{st.grid}.area.positions()', mode='eval').body, conds, 0)])
                return self._poslist(ast.fix_missing_locations(comp), cx)
        return r

    def _poslist(self, e: ast.AST, cx: Ctx) -> Optional[ListInfo]:
        if isinstance(e, ast.Name):
            v = cx.env.get(e.id)
            if isinstance(v, tuple) and v[0] == 'list':
                return v[1]
            return None
        if isinstance(e, ast.Call) and src(e.func) in ('list', 'tuple', 'sorted') and \
                len(e.args) == 1 and not e.keywords:
            it = src(e.args[0])
            if it.endswith(".area.positions()") or it.endswith(".area.positions('all')"):
                return ListInfo('all', cx.t, text=src(e)[:160])
            if it.endswith(".area.positions('inside')"):
                return ListInfo('inside', cx.t, text=src(e)[:160])
            return self.poslist(e.args[0], cx) if isinstance(e.args[0], ast.Name) else None
        if isinstance(e, ast.ListComp) and len(e.generators) == 1:
            g = e.generators[0]
            it = src(g.iter)
            if not (isinstance(g.target, ast.Name) and src(e.elt) == g.target.id):
                return None
            pv = g.target.id
            kind = None
            base = None
            if it.endswith(".area.positions()") or it.endswith(".area.positions('all')"):
                kind = 'all'
            elif it.endswith(".area.positions('inside')"):
                kind = 'inside'
            elif isinstance(g.iter, ast.Name):
                base = self.poslist(g.iter, cx)
                if base is not None and base.kind in ('all', 'inside', 'floor'):
                    kind = base.kind
            if kind is None:
                return None
            info = ListInfo(kind, cx.t if base is None or kind != 'floor' else base.time,
                            text=src(e)[:160])
            if base is not None:
                info.excl_agent, info.excl_cell = base.excl_agent, base.excl_cell
            conds: List[ast.AST] = []
            from .normalise import nnf
            for c in g.ifs:
                c = nnf(c)
                conds += c.values if isinstance(c, ast.BoolOp) and isinstance(c.op, ast.And) \
                    else [c]
            for c in conds:
                s = src(c)
                if isinstance(c, ast.Call) and src(c.func) == 'isinstance' and \
                        src(c.args[1]) == 'Floor' and src(c.args[0]).endswith(f'[{pv}]'):
                    info.kind = 'floor'
                    continue
                ex = self._exclusion(c, pv, cx)
                if ex is not None:
                    if ex[0] == 'agent':
                        info.excl_agent = ex[1]
                    elif ex[0] == 'cell':
                        info.excl_cell = ex[1]
                    continue
                # unknown filter conjunct: only narrows the list
            return info
        return None

    def _exclusion(self, c: ast.AST, pv: str, cx: Ctx):
        """`p != X.agent.position` / `p != Position(a, b)` / `flag or p != ...`"""
        if isinstance(c, ast.BoolOp) and isinstance(c.op, ast.Or):
            # `random_agent or position != Position(1, 1)`: exclusion applies when the flag is False
            flags = [v for v in c.values if isinstance(v, ast.Name) and v.id in cx.flags]
            rest = [v for v in c.values if v not in flags]
            if len(rest) == 1 and flags:
                if all(cx.flags.get(f.id) is False for f in flags):
                    return self._exclusion(rest[0], pv, cx)
                return ('none',)
            return None
        if isinstance(c, ast.Compare) and len(c.ops) == 1 and isinstance(c.ops[0], ast.NotIn) \
                and isinstance(c.comparators[0], ast.Call) and \
                isinstance(c.comparators[0].func, ast.Name) and \
                c.comparators[0].func.id in ('tuple', 'list', 'set', 'frozenset') and \
                len(c.comparators[0].args) == 1 and not c.comparators[0].keywords:
            # membership in a collection made of a collection is membership in that one
            return self._exclusion(ast.Compare(c.left, c.ops, [c.comparators[0].args[0]]),
                                   pv, cx)
        if isinstance(c, ast.Compare) and len(c.ops) == 1 and isinstance(c.ops[0], ast.NotIn) \
                and isinstance(c.comparators[0], ast.IfExp) and \
                isinstance(c.comparators[0].test, ast.Name) and \
                cx.flags.get(c.comparators[0].test.id) in (True, False):
            t_ = c.comparators[0]
            return self._exclusion(ast.Compare(
                c.left, c.ops, [t_.body if cx.flags[t_.test.id] else t_.orelse]), pv, cx)
        if isinstance(c, ast.Compare) and len(c.ops) == 1 and isinstance(c.ops[0], ast.NotIn) \
                and src(c.left) == pv and (
                    isinstance(c.comparators[0], (ast.List, ast.Tuple, ast.Set)) or
                    (isinstance(c.comparators[0], ast.Name) and
                     f'display:{c.comparators[0].id}' in cx.env)):
            # `p not in [a]` is `p != a`; `p not in ()` excludes nothing
            coll = c.comparators[0]
            if isinstance(coll, ast.Name):
                coll = cx.env[f'display:{coll.id}']
            elts = coll.elts
            if not elts:
                return ('none',)
            if len(elts) == 1 and not isinstance(elts[0], ast.Starred):
                return self._exclusion(ast.Compare(c.left, [ast.NotEq()], [elts[0]]), pv, cx)
            return None
        if isinstance(c, ast.Compare) and len(c.ops) == 1 and isinstance(c.ops[0], ast.NotEq):
            l, r = c.left, c.comparators[0]
            for a, b in ((l, r), (r, l)):
                if src(a) == pv:
                    if src(b).endswith('.agent.position') and cx.agent is not None:
                        return ('agent', (cx.agent[0], cx.agent[1]))
                    if src(b) == 'agent_position' and isinstance(cx.env.get('agent_position'), tuple):
                        return ('agent', (cx.env['agent_position'], cx.t))
                    p = self.position(b, cx)
                    if p is not None and p[0] == 'cell':
                        return ('cell', p)
        return None

    # -------------------------------------------------------------- run
    def run(self, f: Func, flags: Dict[str, Optional[bool]], cx: Optional[Ctx] = None) -> List[Ctx]:
        cx = cx or Ctx()
        if 'h' not in cx.bounds:
            cx.bounds['h'] = (Aff.const(1), None, True)
            cx.bounds['w'] = (Aff.const(1), None, True)
            cx.order = ['h', 'w']
        cx.flags = dict(flags)
        self._fname = f.name
        out = self.block(self.body_of(f), cx, f)
        return out

    def block(self, stmts: List[ast.stmt], cx: Ctx, f: Func) -> List[Ctx]:
        for i, s in enumerate(stmts):
            if cx.returned:
                return [cx]
            cx.t += 1
            r = self.stmt(s, cx, f, stmts[i + 1:])
            if r is not None:
                return r
        return [cx]

    def _fork(self, cx: Ctx) -> Ctx:
        return copy.deepcopy(cx)

    def stmt(self, s: ast.stmt, cx: Ctx, f: Func, rest: List[ast.stmt]):
        if isinstance(s, ast.Expr) and isinstance(s.value, ast.Constant):
            return None
        if isinstance(s, ast.If):
            if any(isinstance(b, ast.Raise) for b in s.body) and not s.orelse:
                for b in s.body:
                    if isinstance(b, ast.Raise):
                        cx.raises.append((b.lineno, src(b.exc)[:60] if b.exc else '', f.name))
                self._facts(s.test, cx)
                t_ = s.test
                if isinstance(t_, ast.Compare) and len(t_.ops) == 1 and \
                        isinstance(t_.ops[0], ast.NotEq):
                    l_, r_ = src(t_.left), src(t_.comparators[0])
                    for a_, b_ in ((l_, r_), (r_, l_)):
                        if a_.startswith('len(') and b_ == f'len(set({a_[4:-1]}))':
                            v_ = cx.env.get(a_[4:-1])
                            if isinstance(v_, tuple) and v_[0] == 'splits':
                                cx.env[a_[4:-1]] = ('splits', v_[1], v_[2], True)
                return None
            test, negated = s.test, False
            while isinstance(test, ast.UnaryOp) and isinstance(test.op, ast.Not):
                test, negated = test.operand, not negated
            if isinstance(test, ast.Name) and test.id in cx.flags:
                v = cx.flags[test.id]
                branches = [True, False] if v is None else [v]
                res: List[Ctx] = []
                for b in branches:
                    c2 = self._fork(cx)
                    c2.flags[test.id] = b
                    c2.path.append(f'{test.id}={b}')
                    for c3 in self.block(s.body if b != negated else s.orelse, c2, f):
                        res += self.block(rest, c3, f)
                return res
            # data-dependent branch: interpret both, join by havoc of assigned names
            for n in ast.walk(s):
                if isinstance(n, ast.Name) and isinstance(n.ctx, ast.Store):
                    cx.env[n.id] = None
                if isinstance(n, ast.Assign):
                    self._maybe_write(n, cx, f, approx=True)
            return None
        if isinstance(s, ast.Assert):
            return None
        if isinstance(s, ast.AnnAssign):
            if s.value is None:
                return None
            s = ast.Assign([s.target], s.value, lineno=s.lineno)
        if isinstance(s, ast.Assign) and len(s.targets) == 1:
            return self.assign(s.targets[0], s.value, s, cx, f, rest)
        if isinstance(s, ast.Expr) and isinstance(s.value, ast.Call):
            if src(s.value.func).startswith('draw_'):
                self.draw(s.value, cx, f)
                return None
            return None
        if isinstance(s, ast.For):
            self.loop(s, cx, f)
            return None
        if isinstance(s, ast.Try):
            res = self.block(s.body, cx, f)
            out = []
            for c in res:
                out += self.block(rest, c, f)
            for h in s.handlers:
                for b in h.body:
                    if isinstance(b, ast.Raise):
                        cx.raises.append((b.lineno, src(b.exc)[:60] if b.exc else '', f.name))
            return out
        if isinstance(s, ast.Return):
            if s.value is not None:
                v = s.value
                if isinstance(v, ast.Call) and src(v.func) == 'State' and len(v.args) == 2:
                    a = v.args[1]
                    if isinstance(a, ast.Name) and isinstance(cx.env.get(a.id), tuple) \
                            and cx.env[a.id][0] == 'agentobj':
                        _, pos, t, text, line = cx.env[a.id]
                        cx.agent = (pos, t, text, line)
                    elif isinstance(a, ast.Call) and src(a.func) == 'Agent':
                        p = self.position(a.args[0], cx) if a.args else None
                        cx.agent = (p, cx.t, src(a.args[0]) if a.args else '', s.lineno)
                        if len(a.args) > 2:
                            cx.agent_holds = src(a.args[2])
            cx.returned = True
            return [cx]
        if isinstance(s, (ast.Raise,)):
            cx.returned = True
            return []
        return None

    def _facts(self, test: ast.AST, cx: Ctx) -> None:
        from .normalise import nnf
        test = nnf(test)
        disj = test.values if isinstance(test, ast.BoolOp) and isinstance(test.op, ast.Or) \
            else [test]
        for d in disj:
            if isinstance(d, ast.Compare) and len(d.ops) == 1 and \
                    isinstance(d.comparators[0], ast.Constant) and \
                    isinstance(d.comparators[0].value, int):
                l = src(d.left)
                sym = {'shape.height': 'h', 'shape.width': 'w'}.get(l)
                c = d.comparators[0].value
                if sym and isinstance(d.ops[0], ast.Lt):
                    cx.fact_ge(sym, c)
                elif sym and isinstance(d.ops[0], ast.LtE):
                    cx.fact_ge(sym, c + 1)

    def assign(self, tg: ast.AST, val: ast.AST, s: ast.stmt, cx: Ctx, f: Func, rest):
        vs = src(val)
        # `tuple(X)` / `list(X)` / `set(X)` / `frozenset(X)` of a short literal collection (or
        # of a local that names one) is that collection, for membership tests
        if isinstance(tg, ast.Name) and isinstance(val, ast.Call) and \
                isinstance(val.func, ast.Name) and \
                val.func.id in ('tuple', 'list', 'set', 'frozenset') and len(val.args) == 1 \
                and not val.keywords:
            inner = val.args[0]
            if isinstance(inner, ast.Name) and f'display:{inner.id}' in cx.env:
                inner = cx.env[f'display:{inner.id}']
            if isinstance(inner, ast.IfExp) and isinstance(inner.test, ast.Name) and \
                    cx.flags.get(inner.test.id) in (True, False):
                inner = inner.body if cx.flags[inner.test.id] else inner.orelse
            if isinstance(inner, (ast.List, ast.Tuple, ast.Set)) and len(inner.elts) <= 1:
                val = inner
        if isinstance(tg, ast.Name) and isinstance(val, ast.IfExp) and \
                isinstance(val.test, ast.Name) and cx.flags.get(val.test.id) in (True, False):
            alt = val.body if cx.flags[val.test.id] else val.orelse
            if isinstance(alt, (ast.List, ast.Tuple, ast.Set)) and len(alt.elts) <= 1:
                val = alt
        if isinstance(tg, ast.Name) and isinstance(val, (ast.List, ast.Tuple, ast.Set)) and \
                len(val.elts) <= 1:
            # a short literal collection (`exclude = [state.agent.position]`): kept as written
            # for membership tests in later filters
            cx.env[f'display:{tg.id}'] = val
        # state = <reset function>(shape, ...)
        if isinstance(val, ast.Call) and isinstance(val.func, ast.Name) and \
                val.func.id in self.funcs and isinstance(tg, ast.Name):
            callee = self.funcs[val.func.id]
            names = [a.arg for a in callee.node.args.args]
            defaults = callee.param_defaults()
            fl: Dict[str, Optional[bool]] = {}
            for n in names:
                d = defaults.get(n)
                if isinstance(d, ast.Constant) and isinstance(d.value, bool):
                    fl[n] = d.value
            bound = dict(zip(names, val.args))
            for k in val.keywords:
                if k.arg:
                    bound[k.arg] = k.value
            for n, a in bound.items():
                if n in fl:
                    if isinstance(a, ast.Constant):
                        fl[n] = bool(a.value)
                    elif isinstance(a, ast.Name) and a.id in cx.flags:
                        fl[n] = cx.flags[a.id]
                    else:
                        fl[n] = None
            res: List[Ctx] = []
            sub = self._fork(cx)
            sub.env = {}
            saved_flags = dict(cx.flags)
            for c2 in self.run(callee, fl, sub):
                c3 = c2
                c3.returned = False
                c3.env = dict(cx.env)
                c3.env[tg.id] = ('state',)
                c3.flags = dict(saved_flags)
                self._fname = f.name
                res += self.block(rest, c3, f)
            return res
        if isinstance(val, ast.Call) and isinstance(val.func, ast.Name) and \
                val.func.id == 'int' and len(val.args) == 1 and not val.keywords and \
                isinstance(val.args[0], ast.Call) and \
                src(val.args[0].func) in ('rng.integers',):
            val = val.args[0]       # the same number as a python int (a helper of rng.py)
        if isinstance(val, ast.Call) and src(val.func) in ('rng.integers',) and \
                isinstance(tg, ast.Name):
            ia = list(val.args)
            kwv = {k.arg: k.value for k in val.keywords}
            for nm in ('low', 'high')[len(ia):]:
                if nm in kwv:
                    ia.append(kwv[nm])
        if isinstance(val, ast.Call) and src(val.func) in ('rng.integers',) and \
                isinstance(tg, ast.Name) and len(ia) >= 2:
            lo, hi = self.aff(ia[0], cx), self.aff(ia[1], cx)
            endpoint = any(k.arg == 'endpoint' and src(k.value) == 'True' for k in val.keywords)
            if lo is not None and hi is not None:
                cx.env[tg.id] = ('aff', cx.newsym(tg.id, lo, hi if endpoint else hi - 1))
                return None
        tl = self._tagged(tg, val, cx)
        if tl:
            return None
        # the split points as a tuple / list of plain ints: tuple(S.tolist()), list(S), ...
        v_ = val
        for _ in range(3):
            if isinstance(v_, ast.Call) and src(v_.func) in ('tuple', 'list') and \
                    len(v_.args) == 1 and not v_.keywords:
                v_ = v_.args[0]
            elif isinstance(v_, ast.Call) and isinstance(v_.func, ast.Attribute) and \
                    v_.func.attr == 'tolist' and not v_.args:
                v_ = v_.func.value
        if v_ is not val and isinstance(v_, ast.Name) and isinstance(tg, ast.Name) and \
                isinstance(cx.env.get(v_.id), tuple) and cx.env[v_.id][0] == 'splits':
            cx.env[tg.id] = cx.env[v_.id]
            return None
        if isinstance(val, ast.Call) and src(val.func) in ('np.linspace', 'numpy.linspace') and \
                isinstance(tg, ast.Name) and len(val.args) >= 2:
            # integer split points from A to B (both included); strictly increasing once the
            # function has rejected repeated values
            kwv = {k.arg: src(k.value) for k in val.keywords}
            a_, b_ = self.aff(val.args[0], cx), self.aff(val.args[1], cx)
            if a_ is not None and b_ is not None and kwv.get('dtype') == 'int' and \
                    kwv.get('endpoint', 'True') == 'True':
                cx.env[tg.id] = ('splits', a_, b_, False)
                return None
        lst = self.poslist(val, cx)
        if lst is not None and isinstance(tg, ast.Name) and \
                isinstance(val, (ast.ListComp, ast.Call)) and not (
                    isinstance(val, ast.Call) and src(val.func) not in ('list', 'tuple', 'sorted')):
            cx.env[tg.id] = ('list', lst)
            return None
        if isinstance(val, ast.Call) and src(val.func) in ('choices', 'rng.choice'):
            kw = {k.arg: k.value for k in val.keywords}
            base_e = val.args[1] if src(val.func) == 'choices' else val.args[0]
            base = self.poslist(base_e, cx)
            repl_false = 'replace' in kw and src(kw['replace']) == 'False'
            size = src(kw['size']) if 'size' in kw else None
            if base is not None and size is not None:
                sid = len(cx.samples)
                cx.samples[sid] = (base, size, repl_false)
                if isinstance(tg, (ast.Tuple, ast.List)):
                    for j, e in enumerate(tg.elts):
                        if isinstance(e, ast.Name):
                            cx.env[e.id] = ('selem', sid, j)
                elif isinstance(tg, ast.Name):
                    cx.env[tg.id] = ('sample', sid)
                return None
            # sample of scalars (columns, colours): distinctness by replace=False
            if isinstance(tg, (ast.Tuple, ast.List)):
                sid = len(cx.samples)
                cx.samples[sid] = (ListInfo('scalars', cx.t, text=src(base_e)[:80]),
                                   size or '?', repl_false)
                for j, e in enumerate(tg.elts):
                    if isinstance(e, ast.Name):
                        cx.env[e.id] = ('sscalar', sid, j, src(base_e))
                # elements of a literal list of integers (`[1, shape.width - 2]`): each drawn value
                # lies between the least and the greatest element (not every value in between
                # is possible: the bound is not exact, so it only ever proves)
                if isinstance(base_e, (ast.List, ast.Tuple)) and base_e.elts:
                    forms = [self.aff(x, cx) for x in base_e.elts]
                    if all(f_ is not None for f_ in forms):
                        lo = next((a for a in forms if all(cx.le(a, b) for b in forms)), None)
                        hi = next((a for a in forms if all(cx.le(b, a) for b in forms)), None)
                        if lo is not None and hi is not None:
                            memo = getattr(cx, 'scalar_affs', None)
                            if memo is None:
                                memo = cx.scalar_affs = {}
                            vals_ = getattr(cx, 'sym_values', None)
                            if vals_ is None:
                                vals_ = cx.sym_values = {}
                            for e in tg.elts:
                                if isinstance(e, ast.Name):
                                    memo[e.id] = cx.newsym(e.id, lo, hi, exact=False)
                                    # the values the draw can actually take (for witnesses)
                                    for sname in memo[e.id].symbols():
                                        vals_[sname] = list(forms)
                return None
            if isinstance(tg, ast.Name):
                sid = len(cx.samples)
                cx.samples[sid] = (ListInfo('scalars', cx.t, text=src(base_e)[:80]),
                                   size or '?', repl_false)
                cx.env[tg.id] = ('sscalars', sid, src(base_e))
                return None
        if isinstance(val, ast.Call) and src(val.func) == 'choice' and len(val.args) == 2 \
                and isinstance(tg, ast.Name):
            base = self.poslist(val.args[1], cx)
            if base is not None:
                cx.env[tg.id] = ('elem', base)
                return None
            cx.env[tg.id] = None
            return None
        if isinstance(val, ast.Call) and src(val.func).startswith('draw_') and \
                isinstance(tg, ast.Name):
            w = self.draw(val, cx, f)
            cx.env[tg.id] = ('list', ListInfo('line', cx.t, region=w.region if w else None,
                                              text=src(val)[:100]))
            return None
        if isinstance(tg, ast.Subscript) and src(tg.value) in ('grid', 'state.grid'):
            self._write(tg, val, s, cx, f)
            return None
        if src(tg).endswith('agent.position'):
            p = self.position(val, cx)
            cx.agent = (p, cx.t, src(val), s.lineno)
            return None
        if src(tg).endswith('agent.orientation'):
            return None
        if isinstance(tg, ast.Name) and isinstance(val, ast.Call) and src(val.func) == 'Agent':
            p = self.position(val.args[0], cx) if val.args else None
            cx.env[tg.id] = ('agentobj', p, cx.t, src(val.args[0]) if val.args else '', s.lineno)
            if len(val.args) > 2:
                cx.agent_holds = src(val.args[2])
            return None
        if isinstance(tg, ast.Name) and isinstance(val, ast.Call):
            hv = self.helper_value(val, cx)
            if hv is not None:
                cx.env[tg.id] = hv
                return None
        if isinstance(tg, (ast.Tuple, ast.List)) and isinstance(val, ast.Call):
            hv = self.helper_value(val, cx)
            if isinstance(hv, tuple) and hv[0] == 'cell' and len(tg.elts) == 2:
                for e_, c_ in zip(tg.elts, hv[1:]):
                    if isinstance(e_, ast.Name):
                        cx.env[e_.id] = ('aff', c_)
                return None
        if isinstance(tg, ast.Name):
            if isinstance(val, ast.Call) and src(val.func) in ('Grid.from_shape',):
                cx.env[tg.id] = ('grid',)
                return None
            a = self.aff(val, cx)
            if a is not None:
                cx.env[tg.id] = ('aff', a)
                return None
            p = self.position(val, cx)
            if p is not None:
                cx.env[tg.id] = p
                return None
            if isinstance(val, ast.Subscript) and isinstance(val.value, ast.Name):
                v = cx.env.get(val.value.id)
                if isinstance(v, tuple) and v[0] == 'sample':
                    sl = val.slice
                    if isinstance(sl, ast.Slice):
                        cx.env[tg.id] = ('sslice', v[1], src(sl.lower) if sl.lower else '0',
                                         src(sl.upper) if sl.upper else 'end')
                        return None
                if isinstance(v, tuple) and v[0] == 'sscalars':
                    cx.env[tg.id] = ('sscalar', v[1], src(val.slice), v[2])
                    return None
            if isinstance(val, ast.ListComp) and isinstance(val.elt, ast.Call) and \
                    src(val.elt.func)[:1].isupper():
                col = src(val.elt.args[0]) if val.elt.args else None
                cx.env[tg.id] = ('objs', src(val.elt.func), col, src(val.generators[0].iter))
                return None
            cx.env[tg.id] = ('opaque', vs[:80])
            return None
        if isinstance(tg, (ast.Tuple, ast.List)):
            for e in tg.elts:
                if isinstance(e, ast.Name):
                    cx.env[e.id] = None
        return None

    def _cls_of(self, val: ast.AST, cx: Ctx) -> Tuple[str, Optional[str]]:
        if isinstance(val, ast.Call):
            name = src(val.func)
            col = None
            for a in val.args:
                if src(a).startswith('Color.'):
                    col = src(a)
                elif isinstance(a, ast.Name):
                    col = self._colour_of(a.id, cx)
            if name == 'object_type':
                return 'object_type?', None
            return name, col
        if isinstance(val, ast.Name):
            v = cx.env.get(val.id)
            if isinstance(v, tuple) and v[0] == 'objelem':
                return v[1], v[2]
        return src(val), None

    def _colour_of(self, name: str, cx: Ctx) -> str:
        v = cx.env.get(name)
        if isinstance(v, tuple) and v[0] == 'sscalar':
            return f'sample{v[1]}[{v[2]}] of {v[3]}'
        return name

    def _write(self, tg: ast.Subscript, val: ast.AST, s: ast.stmt, cx: Ctx, f: Func,
               region=None) -> None:
        cls, col = self._cls_of(val, cx)
        reg = region if region is not None else self.position(tg.slice, cx)
        if reg is None and isinstance(tg.slice, ast.Tuple) and len(tg.slice.elts) == 2:
            # one coordinate known: a line of unknown extent
            y, x = self.aff(tg.slice.elts[0], cx), self.aff(tg.slice.elts[1], cx)
            if y is not None or x is not None:
                reg = ('box', y, y, x, x)
        cx.writes.append(Write(cx.t, reg, cls, col, src(s)[:120], s.lineno, f.name))

    def _maybe_write(self, n: ast.Assign, cx: Ctx, f: Func, approx=False) -> None:
        t = n.targets[0]
        if isinstance(t, ast.Subscript) and src(t.value) in ('grid', 'state.grid'):
            cls, col = self._cls_of(n.value, cx)
            cx.writes.append(Write(cx.t, None, cls, col, src(n)[:120], n.lineno, f.name))

    def loop(self, s: ast.For, cx: Ctx, f: Func) -> None:
        it, tgt = s.iter, s.target
        handled = False
        for b in s.body:
            if isinstance(b, ast.Assign) and isinstance(b.targets[0], ast.Subscript) and \
                    src(b.targets[0].value) in ('grid', 'state.grid'):
                idx = src(b.targets[0].slice)
                region = None
                objcls = None
                if isinstance(it, ast.Name) and src(tgt) == idx:
                    v = cx.env.get(it.id)
                    if isinstance(v, tuple) and v[0] == 'sample':
                        region = ('sall', v[1])
                    elif isinstance(v, tuple) and v[0] == 'sslice':
                        region = v
                elif isinstance(it, ast.Call) and src(it.func) == 'zip' and len(it.args) == 2 \
                        and isinstance(tgt, ast.Tuple) and src(tgt.elts[0]) == idx:
                    a0, a1 = it.args
                    v = cx.env.get(a0.id) if isinstance(a0, ast.Name) else None
                    if isinstance(v, tuple) and v[0] == 'sample':
                        region = ('sall', v[1])
                    elif isinstance(v, tuple) and v[0] == 'sslice':
                        region = v
                    o = cx.env.get(a1.id) if isinstance(a1, ast.Name) else None
                    if isinstance(o, tuple) and o[0] == 'objs':
                        objcls = (o[1], o[2])
                        cx.env[src(tgt.elts[1])] = ('objelem', o[1], o[2])
                    elif isinstance(o, tuple) and o[0] == 'sscalars':
                        cx.env[src(tgt.elts[1])] = ('sscalar', o[1], 'i', o[2])
                if region is not None:
                    cls, col = self._cls_of(b.value, cx)
                    if objcls:
                        cls, col = objcls
                    cx.writes.append(Write(cx.t, region, cls, col, src(b)[:120], b.lineno,
                                           f.name))
                    handled = True
        if handled:
            return
        if self._split_loop(s, cx, f):
            return
        # loops with draws inside (room passages, crossings): record writes with unknown region
        for n in ast.walk(s):
            if isinstance(n, ast.Assign):
                t = n.targets[0]
                if isinstance(t, ast.Subscript) and src(t.value) in ('grid', 'state.grid'):
                    cls, col = self._cls_of(n.value, cx)
                    cx.writes.append(Write(cx.t, None, cls, col, src(n)[:120], n.lineno, f.name))
            if isinstance(n, ast.Call) and src(n.func).startswith('draw_line'):
                self.draw(n, cx, f, loopvars={src(s.target): s.iter})
        for n in ast.walk(s):
            if isinstance(n, ast.Name) and isinstance(n.ctx, ast.Store):
                cx.env[n.id] = None

    def _tagged(self, tg: ast.AST, val: ast.AST, cx: Ctx) -> bool:
        """lists of (token, coordinate) pairs and what is selected from them:
        `a, b = object(), object()` are tokens; `list(chain(((a, i) for i in range(..)),
        ((b, j) for j in range(..))))` is a tagged list with one coordinate interval per
        token; shuffling, slicing, sorting and copying keep a subset of its elements;
        `[p for t, p in L if t is a]` is a list of coordinates inside a's interval
        ('rangelist', lo, hi).  Returns True when the assignment was understood."""
        if isinstance(tg, ast.Tuple) and isinstance(val, ast.Tuple) and \
                len(tg.elts) == len(val.elts) and \
                all(isinstance(t, ast.Name) for t in tg.elts) and \
                all(src(v) == 'object()' for v in val.elts):
            for t in tg.elts:
                cx.env[t.id] = ('tok', t.id)
            return True
        if not isinstance(tg, ast.Name):
            return False
        if src(val) == 'object()':
            cx.env[tg.id] = ('tok', tg.id)
            return True

        def tagged(e) -> Optional[list]:
            if isinstance(e, ast.Name):
                v = cx.env.get(e.id)
                return v[1] if isinstance(v, tuple) and v[0] == 'taglist' else None
            if isinstance(e, ast.Subscript) and isinstance(e.slice, ast.Slice):
                return tagged(e.value)             # any slice keeps a subset
            if isinstance(e, ast.Call):
                fs = src(e.func)
                if fs in ('list', 'tuple', 'sorted') and len(e.args) == 1:
                    return tagged(e.args[0])
                if fs == 'shuffle' and len(e.args) == 2:
                    return tagged(e.args[1])
                if fs in ('itt.chain', 'itertools.chain', 'chain'):
                    out = []
                    for a in e.args:
                        t = tagged(a)
                        if t is None:
                            return None
                        out += t
                    return out
            if isinstance(e, (ast.GeneratorExp, ast.ListComp)) and len(e.generators) == 1 and \
                    not e.generators[0].ifs and isinstance(e.elt, ast.Tuple) and \
                    len(e.elt.elts) == 2 and isinstance(e.elt.elts[0], ast.Name) and \
                    isinstance(cx.env.get(e.elt.elts[0].id), tuple) and \
                    cx.env[e.elt.elts[0].id][0] == 'tok' and \
                    src(e.elt.elts[1]) == src(e.generators[0].target):
                rg = e.generators[0].iter
                lo, hi = self._range_bounds(rg, cx)
                if lo is not None and hi is not None:
                    # with a step the last element is below the bound: proofs only
                    exact = isinstance(rg, ast.Call) and (
                        len(rg.args) < 3 or (isinstance(rg.args[2], ast.Constant)
                                             and rg.args[2].value == 1))
                    return [(e.elt.elts[0].id, lo, hi, exact)]
            return None
        t = tagged(val)
        if t is not None:
            cx.env[tg.id] = ('taglist', t)
            return True
        v = val
        if isinstance(v, ast.Call) and src(v.func) in ('sorted', 'list') and len(v.args) == 1:
            v = v.args[0]
        if isinstance(v, ast.ListComp) and len(v.generators) == 1:
            g = v.generators[0]
            base = tagged(g.iter)
            if base is not None and isinstance(g.target, ast.Tuple) and \
                    len(g.target.elts) == 2 and src(v.elt) == src(g.target.elts[1]) and \
                    len(g.ifs) == 1 and isinstance(g.ifs[0], ast.Compare) and \
                    len(g.ifs[0].ops) == 1 and isinstance(g.ifs[0].ops[0], (ast.Is, ast.Eq)) and \
                    src(g.ifs[0].left) == src(g.target.elts[0]) and \
                    isinstance(g.ifs[0].comparators[0], ast.Name):
                tok = g.ifs[0].comparators[0].id
                sel = [(lo, hi, ex) for (tname, lo, hi, ex) in base if tname == tok]
                if len(sel) == 1 and len({t_[0] for t_ in base}) == len(base):
                    cx.env[tg.id] = ('rangelist', sel[0][0], sel[0][1], sel[0][2])
                    return True
        return False

    def _split_loop(self, s: ast.For, cx: Ctx, f: Func) -> bool:
        """`for v in S[1:-1]` and `for a, b in pairwise(S)` over strictly increasing integer
        split points S (from A to B): the loop variables become symbols with the bounds every
        iteration satisfies (A < v < B; A <= a < b <= B), and the body is interpreted once for
        all iterations.  Only used when the body stores nothing but Floor cells (a write in a
        loop stands for several writes; the inventory rules count the others one by one)."""
        it, tgt = s.iter, s.target

        def splits(e):
            v = cx.env.get(e.id) if isinstance(e, ast.Name) else None
            return v if isinstance(v, tuple) and v[0] == 'splits' and v[3] else None
        binds = None
        if isinstance(it, ast.Subscript) and isinstance(it.slice, ast.Slice) and \
                src(it.slice) == '1:-1' and isinstance(tgt, ast.Name):
            v = splits(it.value)
            if v is not None:
                binds = [(tgt.id, v[1] + 1, v[2] - 1)]
        elif isinstance(it, ast.Call) and src(it.func) in ('mitt.pairwise', 'pairwise',
                                                           'itt.pairwise', 'more_itertools.pairwise') \
                and len(it.args) == 1 and isinstance(tgt, ast.Tuple) and len(tgt.elts) == 2 \
                and all(isinstance(t_, ast.Name) for t_ in tgt.elts):
            v = splits(it.args[0])
            if v is not None:
                binds = [(tgt.elts[0].id, v[1], v[2] - 1), (tgt.elts[1].id, None, v[2])]
        if binds is None:
            return False
        for n in ast.walk(s):
            if isinstance(n, ast.Assign):
                t = n.targets[0]
                if isinstance(t, ast.Subscript) and src(t.value) in ('grid', 'state.grid') and \
                        self._cls_of(n.value, cx)[0] != 'Floor':
                    return False
            if isinstance(n, ast.Call) and src(n.func).startswith('draw_'):
                return False
            if isinstance(n, (ast.If, ast.While, ast.Try, ast.Return, ast.Break, ast.Continue)):
                return False
        first = None
        for name, lo, hi in binds:
            if lo is None:
                lo = first + 1          # the second of a consecutive pair lies after the first
            sym = cx.newsym(name, lo, hi)
            if first is None:
                first = sym
            cx.env[name] = ('aff', sym)
        for b in s.body:
            if isinstance(b, ast.For):
                if not self._split_loop(b, cx, f):
                    self.loop(b, cx, f)
            elif isinstance(b, ast.Assign) and len(b.targets) == 1:
                self.assign(b.targets[0], b.value, b, cx, f, [])
            elif isinstance(b, ast.AnnAssign) and b.value is not None:
                self.assign(b.target, b.value, b, cx, f, [])
        for n in ast.walk(s):
            if isinstance(n, ast.Name) and isinstance(n.ctx, ast.Store):
                cx.env[n.id] = None
        return True

    def _range_bounds(self, r: ast.AST, cx: Ctx):
        if isinstance(r, ast.Call) and src(r.func) == 'range' and 1 <= len(r.args) <= 3:
            if len(r.args) == 1:
                lo, hi = Aff.const(0), self.aff(r.args[0], cx)
            else:
                lo, hi = self.aff(r.args[0], cx), self.aff(r.args[1], cx)
            if lo is not None and hi is not None:
                return lo, hi - 1
        return None, None

    def draw(self, call: ast.Call, cx: Ctx, f: Func, loopvars=None) -> Optional[Write]:
        fn = src(call.func)
        a = call.args
        loopvars = loopvars or {}

        def coord(e):
            v = self.aff(e, cx)
            if v is not None:
                return v, v
            if isinstance(e, ast.Name) and e.id in loopvars:
                it = loopvars[e.id]
                if isinstance(it, ast.Name):
                    d = cx.env.get(it.id)
                    if isinstance(d, tuple) and d[0] == 'rangelist':
                        # one symbol for "some element of the list": a box drawn at it is
                        # proved apart from a cell through the symbol's bounds, and refuted
                        # only when the bounds are exact
                        sy = cx.newsym(e.id, d[1], d[2], exact=d[3])
                        return sy, sy
                lo, hi = self._range_bounds(it, cx)
                return lo, hi
            return None, None
        fac = src(a[-1]) if fn != 'draw_wall_boundary' and a else 'Wall'
        kw = {k.arg: k.value for k in call.keywords}
        reg = None
        if fn == 'draw_wall_boundary':
            reg = ('border',)
            fac = 'Wall'
        elif fn == 'draw_line_vertical' and len(a) == 4:
            lo, hi = self._range_bounds(a[1], cx)
            xl, xh = coord(a[2])
            reg = ('box', lo, hi, xl, xh)
        elif fn == 'draw_line_horizontal' and len(a) == 4:
            yl, yh = coord(a[1])
            lo, hi = self._range_bounds(a[2], cx)
            reg = ('box', yl, yh, lo, hi)
        elif fn == 'draw_area' and len(a) >= 3:
            fac = src(a[2])
            fill = src(kw['fill']) if 'fill' in kw else 'False'
            reg = ('all',) if fill == 'True' and src(a[1]).endswith('.area') else \
                (('border',) if src(a[1]).endswith('.area') else None)
        elif fn == 'draw_room_grid' and len(a) == 4:
            fac = src(a[3])
            reg = ('roomgrid', src(a[1]), src(a[2]))
        elif fn == 'draw_room' and len(a) == 3:
            fac = src(a[2])
            reg = ('border',) if src(a[1]).endswith('.area') else None
        if fac == 'object_type':
            fac = 'object_type?'
        w = Write(cx.t, reg, fac, None, src(call)[:120], call.lineno, f.name)
        cx.writes.append(w)
        return w
