"""E2 guarded events: a syntax-directed walk of a function body that yields, for every
event of interest (call, subscript load/store, attribute store, name binding, return,
raise), the dominating guard -- the conjunction of branch conditions that must hold and of
negated early-exit conditions that must have failed for control to reach it -- plus the
enclosing loops.  Single-assignment locals can be expanded through their definition.

Formulas are nested tuples:
  ('true',) ('false',) ('atom', ast_expr) ('not', f) ('and', f, ...) ('or', f, ...)
  ('raises', exc_src, try_node)   -- "the try body raised <exc>"
  ('iter', target_src, iter_node) -- marker for being inside a loop body (never negated)
"""
from __future__ import annotations

import ast
import copy
from dataclasses import dataclass, field
from typing import Dict, Iterable, List, Optional, Sequence, Tuple

from .core import AnalysisError, src

TRUE = ('true',)
FALSE = ('false',)


def f_not(f):
    if f == TRUE:
        return FALSE
    if f == FALSE:
        return TRUE
    if f[0] == 'not':
        return f[1]
    return ('not', f)


def f_and(*fs):
    out = []
    for f in fs:
        if f == TRUE:
            continue
        if f == FALSE:
            return FALSE
        if f[0] == 'and':
            out.extend(f[1:])
        else:
            out.append(f)
    if not out:
        return TRUE
    if len(out) == 1:
        return out[0]
    return ('and',) + tuple(out)


def f_or(*fs):
    out = []
    for f in fs:
        if f == FALSE:
            continue
        if f == TRUE:
            return TRUE
        if f[0] == 'or':
            out.extend(f[1:])
        else:
            out.append(f)
    if not out:
        return FALSE
    if len(out) == 1:
        return out[0]
    return ('or',) + tuple(out)


def formula_of(e: ast.AST):
    """boolean structure of a condition expression; leaves are ('atom', node)"""
    if isinstance(e, ast.UnaryOp) and isinstance(e.op, ast.Not):
        return f_not(formula_of(e.operand))
    if isinstance(e, ast.BoolOp):
        parts = [formula_of(v) for v in e.values]
        return f_and(*parts) if isinstance(e.op, ast.And) else f_or(*parts)
    if isinstance(e, ast.Constant) and e.value is True:
        return TRUE
    if isinstance(e, ast.Constant) and e.value is False:
        return FALSE
    if isinstance(e, ast.IfExp):
        t = formula_of(e.test)
        return f_or(f_and(t, formula_of(e.body)), f_and(f_not(t), formula_of(e.orelse)))
    if isinstance(e, ast.Call) and isinstance(e.func, ast.Name) and e.func.id == 'isinstance' \
            and len(e.args) == 2 and not e.keywords and isinstance(e.args[0], ast.Constant) \
            and e.args[0].value is None and 'NoneType' not in src(e.args[1]) and \
            'type(None)' not in src(e.args[1]) and src(e.args[1]) != 'object':
        return FALSE        # a path on which an Optional lookup answered None
    if isinstance(e, ast.Compare) and len(e.ops) > 1:
        # chained comparison a < b < c  ==  a < b and b < c
        parts = []
        left = e.left
        for op, right in zip(e.ops, e.comparators):
            parts.append(formula_of(ast.Compare(left, [op], [right])))
            left = right
        return f_and(*parts)
    if isinstance(e, ast.Compare) and len(e.ops) == 1 and isinstance(e.left, ast.Constant) and \
            isinstance(e.comparators[0], ast.Constant) and \
            isinstance(e.ops[0], (ast.Is, ast.IsNot, ast.Eq, ast.NotEq)):
        # two literals (a specialised optional parameter: `None is None`)
        a, b = e.left.value, e.comparators[0].value
        same = (a is b or (type(a) is type(b) and a == b))
        return TRUE if same == isinstance(e.ops[0], (ast.Is, ast.Eq)) else FALSE
    if isinstance(e, ast.Compare) and isinstance(e.ops[0], (ast.IsNot, ast.NotEq, ast.NotIn)):
        pos = {ast.IsNot: ast.Is, ast.NotEq: ast.Eq, ast.NotIn: ast.In}[type(e.ops[0])]()
        return f_not(('atom', ast.Compare(e.left, [pos], e.comparators)))
    return ('atom', e)


def show(f) -> str:
    k = f[0]
    if k == 'true':
        return 'True'
    if k == 'false':
        return 'False'
    if k == 'atom':
        return src(f[1])
    if k == 'not':
        return f'not ({show(f[1])})'
    if k == 'raises':
        return f'raises[{f[1]}]({src(f[2].body[0])[:60]})'
    if k == 'iter':
        return f'for {f[1]} in {src(f[2])[:60]}'
    sep = ' and ' if k == 'and' else ' or '
    return '(' + sep.join(show(x) for x in f[1:]) + ')'


def atoms_of(f) -> List[ast.AST]:
    out = []

    def rec(g):
        if g[0] == 'atom':
            out.append(g[1])
        elif g[0] in ('not',):
            rec(g[1])
        elif g[0] in ('and', 'or'):
            for x in g[1:]:
                rec(x)
    rec(f)
    return out


def strip_iter(f):
    """drop loop markers from a guard"""
    k = f[0]
    if k == 'iter':
        return TRUE
    if k == 'not':
        return f_not(strip_iter(f[1]))
    if k == 'and':
        return f_and(*[strip_iter(x) for x in f[1:]])
    if k == 'or':
        return f_or(*[strip_iter(x) for x in f[1:]])
    return f


@dataclass
class Event:
    kind: str            # call | load | store | attrstore | bind | return | raise | augstore | expr
    node: ast.AST        # the expression / statement node
    guard: tuple
    order: int
    loops: Tuple[Tuple[ast.AST, ast.AST], ...]  # (target, iter) innermost last
    value: Optional[ast.AST] = None   # value stored / returned (IfExp split)
    target: Optional[ast.AST] = None
    stmt: Optional[ast.stmt] = None
    in_try: Tuple[str, ...] = ()      # exception types of enclosing try bodies

    @property
    def line(self) -> int:
        return getattr(self.node, 'lineno', getattr(self.stmt, 'lineno', 0))


MUTATORS = {'append', 'extend', 'pop', 'remove', 'insert', 'clear', 'update', 'sort',
            'reverse', 'add', 'discard', 'setdefault', 'popitem', 'popleft', 'appendleft',
            'fill', 'put', 'itemset', 'resize'}


class GuardWalk:
    """walks one function body"""

    def __init__(self, fn_node: ast.FunctionDef):
        self.fn = fn_node
        self.events: List[Event] = []
        self._n = 0
        # name -> list of (kind, payload, order, guard, loops)
        self.defs: Dict[str, List[Tuple]] = {}
        self.local_funcs: Dict[str, ast.FunctionDef] = {}
        self.params = [a.arg for a in (fn_node.args.posonlyargs + fn_node.args.args
                                       + fn_node.args.kwonlyargs)]
        for extra in (fn_node.args.vararg, fn_node.args.kwarg):
            if extra is not None:
                self.params.append(extra.arg)
        self._stmt: Optional[ast.stmt] = None
        self._try: Tuple[str, ...] = ()
        body = fn_node.body
        self.fall = self.block(body, TRUE, ())

    # ------------------------------------------------------------ helpers
    def _emit(self, kind, node, guard, loops, **kw) -> Event:
        self._n += 1
        ev = Event(kind, node, guard, self._n, loops, stmt=self._stmt, in_try=self._try, **kw)
        self.events.append(ev)
        return ev

    def _bind(self, name: str, kind: str, payload, guard, loops) -> None:
        self._n += 1
        self.defs.setdefault(name, []).append((kind, payload, self._n, guard, loops))
        if getattr(self, '_in_comp', 0):
            # bound by a comprehension: visible inside that comprehension only
            if not hasattr(self, 'comp_defs'):
                self.comp_defs = set()
            self.comp_defs.add(self._n)

    def _bind_target(self, t: ast.AST, value: ast.AST, guard, loops, elem=False) -> None:
        if isinstance(t, ast.Name):
            self._bind(t.id, 'elem' if elem else 'value', value, guard, loops)
        elif isinstance(t, (ast.Tuple, ast.List)):
            for i, el in enumerate(t.elts):
                if isinstance(el, ast.Name):
                    self._bind(el.id, 'elem-unpack' if elem else 'unpack', (value, i),
                               guard, loops)
                elif isinstance(el, ast.Starred) and isinstance(el.value, ast.Name):
                    self._bind(el.value.id, 'opaque', value, guard, loops)
                else:
                    self._bind_target(el, value, guard, loops, elem)

    # -------------------------------------------------------- expressions
    def expr(self, e: Optional[ast.AST], pc, loops) -> None:
        if e is None:
            return
        if isinstance(e, ast.BoolOp):
            cur = pc
            for v in e.values:
                self.expr(v, cur, loops)
                fv = formula_of(v)
                cur = f_and(cur, fv if isinstance(e.op, ast.And) else f_not(fv))
            return
        if isinstance(e, ast.IfExp):
            self.expr(e.test, pc, loops)
            t = formula_of(e.test)
            self.expr(e.body, f_and(pc, t), loops)
            self.expr(e.orelse, f_and(pc, f_not(t)), loops)
            return
        if isinstance(e, (ast.ListComp, ast.SetComp, ast.GeneratorExp, ast.DictComp)):
            cur, lp = pc, loops
            for g in e.generators:
                self.expr(g.iter, cur, lp)
                lp = lp + ((g.target, g.iter),)
                cur = f_and(cur, ('iter', src(g.target), g.iter))
                self._in_comp = getattr(self, '_in_comp', 0) + 1
                try:
                    self._bind_target(g.target, g.iter, cur, lp, elem=True)
                finally:
                    self._in_comp -= 1
                for c in g.ifs:
                    self.expr(c, cur, lp)
                    cur = f_and(cur, formula_of(c))
            if isinstance(e, ast.DictComp):
                self.expr(e.key, cur, lp)
                self.expr(e.value, cur, lp)
            else:
                self.expr(e.elt, cur, lp)
            return
        if isinstance(e, ast.Lambda):
            return  # body not executed here
        if isinstance(e, ast.Call):
            self.expr(e.func, pc, loops)
            for a in e.args:
                self.expr(a.value if isinstance(a, ast.Starred) else a, pc, loops)
            for k in e.keywords:
                self.expr(k.value, pc, loops)
            self._emit('call', e, pc, loops)
            return
        if isinstance(e, ast.Subscript):
            self.expr(e.value, pc, loops)
            self.expr(e.slice, pc, loops)
            if isinstance(e.ctx, ast.Load):
                self._emit('load', e, pc, loops)
            return
        if isinstance(e, ast.NamedExpr):
            self.expr(e.value, pc, loops)
            self._bind_target(e.target, e.value, pc, loops)
            return
        if isinstance(e, ast.Attribute) and isinstance(e.ctx, ast.Load) and \
                isinstance(e.value, ast.Name) and e.value.id == 'self':
            # a read of an attribute of the receiver: a property getter may run here
            self._emit('attrload', e, pc, loops)
            return
        for ch in ast.iter_child_nodes(e):
            if isinstance(ch, ast.expr):
                self.expr(ch, pc, loops)
            elif isinstance(ch, ast.slice if hasattr(ast, 'slice') else ()):
                pass

    def _values(self, e: ast.AST, pc, depth: int = 3):
        """split conditional expressions into (value, guard) alternatives"""
        if isinstance(e, ast.IfExp):
            t = formula_of(e.test)
            yield from self._values(e.body, f_and(pc, t), depth)
            yield from self._values(e.orelse, f_and(pc, f_not(t)), depth)
            return
        if isinstance(e, ast.Name) and depth > 0 and e.id not in self.params:
            ds = self.defs.get(e.id, [])
            # a local assigned on several paths: the last assignment whose path was taken
            if len(ds) >= 2 and all(d[0] == 'value' and not d[4] for d in ds):
                for k, d in enumerate(ds):
                    g = f_and(pc, d[3], *[f_not(l[3]) for l in ds[k + 1:]])
                    yield from self._values(d[1], g, depth - 1)
                return
        yield e, pc

    # --------------------------------------------------------- statements
    def block(self, stmts: Sequence[ast.stmt], pc, loops):
        """returns the guard under which control falls through the block (None: never)"""
        for s in stmts:
            if pc is None:
                break
            self._stmt = s
            pc = self.stmt(s, pc, loops)
        return pc

    def stmt(self, s: ast.stmt, pc, loops):
        if isinstance(s, ast.Expr):
            if isinstance(s.value, ast.Constant):
                return pc
            self.expr(s.value, pc, loops)
            return pc
        if isinstance(s, ast.Return):
            self.expr(s.value, pc, loops)
            if s.value is None:
                self._emit('return', s, pc, loops, value=None)
            else:
                for v, g in self._values(s.value, pc):
                    self._emit('return', s, g, loops, value=v)
            return None
        if isinstance(s, ast.Raise):
            self.expr(s.exc, pc, loops)
            self._emit('raise', s, pc, loops, value=s.exc)
            return None
        if isinstance(s, (ast.Continue, ast.Break)):
            self._emit('continue' if isinstance(s, ast.Continue) else 'break', s, pc, loops)
            return None
        if isinstance(s, ast.Pass):
            return pc
        if isinstance(s, ast.If):
            self.expr(s.test, pc, loops)
            t = formula_of(s.test)
            a = self.block(s.body, f_and(pc, t), loops)
            b = self.block(s.orelse, f_and(pc, f_not(t)), loops)
            if a is None and b is None:
                return None
            if a is None:
                return b
            if b is None:
                return a
            # both alternatives can fall through -- each possibly only in part (an early
            # return nested inside): the continuation runs under the disjunction
            if a == f_and(pc, t) and b == f_and(pc, f_not(t)):
                return pc
            return f_or(a, b)
        if isinstance(s, ast.Assert):
            self.expr(s.test, pc, loops)
            t = formula_of(s.test)
            self._emit('raise', s, f_and(pc, f_not(t)), loops,
                       value=ast.Name('AssertionError', ast.Load()))
            return f_and(pc, t)
        if isinstance(s, ast.Assign):
            self.expr(s.value, pc, loops)
            for t in s.targets:
                self._assign(t, s.value, pc, loops, s)
            return pc
        if isinstance(s, ast.AnnAssign):
            if s.value is not None:
                self.expr(s.value, pc, loops)
                self._assign(s.target, s.value, pc, loops, s)
            return pc
        if isinstance(s, ast.AugAssign):
            self.expr(s.value, pc, loops)
            t = s.target
            if isinstance(t, ast.Name):
                self._bind(t.id, 'aug', s, pc, loops)
            else:
                if isinstance(t, ast.Subscript):
                    self.expr(t.value, pc, loops)
                    self.expr(t.slice, pc, loops)
                elif isinstance(t, ast.Attribute):
                    self.expr(t.value, pc, loops)
                self._emit('augstore', s, pc, loops, target=t, value=s.value)
            return pc
        if isinstance(s, ast.For):
            self.expr(s.iter, pc, loops)
            lp = loops + ((s.target, s.iter),)
            inner = f_and(pc, ('iter', src(s.target), s.iter))
            self._bind_target(s.target, s.iter, inner, lp, elem=True)
            self.block(s.body, inner, lp)
            self.block(s.orelse, pc, loops)
            return pc
        if isinstance(s, ast.While):
            self.expr(s.test, pc, loops)
            lp = loops + ((ast.Name('_while_', ast.Store()), s.test),)
            inner = f_and(pc, ('iter', '_while_', s.test), formula_of(s.test))
            self.block(s.body, inner, lp)
            self.block(s.orelse, pc, loops)
            return pc
        if isinstance(s, ast.Try):
            types = tuple(src(h.type) if h.type is not None else 'BaseException'
                          for h in s.handlers)
            old = self._try
            self._try = old + types
            a = self.block(s.body, pc, loops)
            self._try = old
            falls = []
            any_raise = FALSE
            for h in s.handlers:
                r = ('raises', src(h.type) if h.type is not None else 'BaseException', s)
                any_raise = f_or(any_raise, r)
                if h.name:
                    self._bind(h.name, 'opaque', h, f_and(pc, r), loops)
                hb = self.block(h.body, f_and(pc, r), loops)
                if hb is not None:
                    falls.append(hb)
            if a is not None:
                ob = self.block(s.orelse, f_and(a, f_not(any_raise)), loops)
                if ob is not None:
                    falls.append(ob)
            if s.finalbody:
                self.block(s.finalbody, pc, loops)
            if not falls:
                return None
            if len(falls) == 1 and len(s.handlers) == 1 and a is None:
                return falls[0]
            return pc if len(falls) > 1 else falls[0]
        if isinstance(s, ast.With):
            for it in s.items:
                self.expr(it.context_expr, pc, loops)
                if it.optional_vars is not None:
                    self._bind_target(it.optional_vars, it.context_expr, pc, loops)
            return self.block(s.body, pc, loops)
        if isinstance(s, (ast.FunctionDef, ast.AsyncFunctionDef)):
            self.local_funcs[s.name] = s
            self._bind(s.name, 'func', s, pc, loops)
            return pc
        if isinstance(s, (ast.Global, ast.Nonlocal)):
            self._emit('global', s, pc, loops)
            return pc
        if isinstance(s, ast.Delete):
            for t in s.targets:
                self._emit('delete', t, pc, loops, target=t)
            return pc
        if isinstance(s, (ast.Import, ast.ImportFrom)):
            return pc
        if isinstance(s, ast.ClassDef):
            return pc
        raise AnalysisError(
            f'statement kind {type(s).__name__} at line {s.lineno} is outside the '
            f'grammar the guard walk understands')

    def _assign(self, t: ast.AST, value: ast.AST, pc, loops, stmt) -> None:
        if isinstance(t, ast.Name):
            self._bind(t.id, 'value', value, pc, loops)
        elif isinstance(t, (ast.Tuple, ast.List)):
            if isinstance(value, (ast.Tuple, ast.List)) and len(value.elts) == len(t.elts) \
                    and not any(isinstance(x, ast.Starred) for x in t.elts + value.elts):
                for tt, vv in zip(t.elts, value.elts):
                    self._assign(tt, vv, pc, loops, stmt)
            else:
                for i, el in enumerate(t.elts):
                    if isinstance(el, ast.Name):
                        self._bind(el.id, 'unpack', (value, i), pc, loops)
                    elif isinstance(el, (ast.Attribute, ast.Subscript)):
                        self._store(el, ast.Subscript(value, ast.Constant(i), ast.Load()),
                                    pc, loops)
                    else:
                        self._bind_target(el, value, pc, loops)
        elif isinstance(t, (ast.Attribute, ast.Subscript)):
            self._store(t, value, pc, loops)
        elif isinstance(t, ast.Starred):
            self._bind_target(t, value, pc, loops)

    def _store(self, t, value, pc, loops) -> None:
        if isinstance(t, ast.Subscript):
            self.expr(t.value, pc, loops)
            self.expr(t.slice, pc, loops)
            kind = 'store'
        else:
            self.expr(t.value, pc, loops)
            kind = 'attrstore'
        for v, g in self._values(value, pc):
            self._emit(kind, t, g, loops, target=t, value=v)

    # ------------------------------------------------------------ def-use
    def single_def(self, name: str, outside_comps: bool = False) -> Optional[Tuple]:
        """the unique binding of a local that is not a parameter; None otherwise.  With
        `outside_comps` the bindings made by comprehensions are not counted (for a use that is
        known not to be inside one of them: their variables are invisible there)"""
        if name in self.params:
            return None
        ds = self.defs.get(name)
        if ds is not None and outside_comps:
            cd = getattr(self, 'comp_defs', set())
            ds = [d for d in ds if d[2] not in cd]
        if ds is None or len(ds) != 1:
            return None
        if name in self.mutated_roots() and ds[0][0] == 'value' and \
                isinstance(ds[0][1], (ast.Call, ast.List, ast.Dict, ast.Set, ast.ListComp,
                                      ast.BinOp)):
            return None    # an object updated in place is not its initialiser
        return ds[0]

    def sole_binding(self, name: str) -> Optional[Tuple]:
        """the unique binding of a local, even if the object is later updated in place"""
        if name in self.params:
            return None
        ds = self.defs.get(name)
        return ds[0] if ds is not None and len(ds) == 1 else None

    def mutated_roots(self):
        if getattr(self, '_mut_roots', None) is None:
            roots = set()
            for ev in self.events:
                t = None
                if ev.kind in ('store', 'augstore', 'attrstore', 'delete'):
                    t = ev.target
                    t = t.value if isinstance(t, (ast.Subscript, ast.Attribute)) else None
                elif ev.kind == 'call' and isinstance(ev.node.func, ast.Attribute) \
                        and ev.node.func.attr in MUTATORS:
                    t = ev.node.func.value
                while isinstance(t, (ast.Subscript, ast.Attribute)):
                    t = t.value
                if isinstance(t, ast.Name):
                    roots.add(t.id)
            self._mut_roots = roots
        return self._mut_roots

    def expand(self, e: ast.AST, rename: Optional[Dict[str, str]] = None, depth: int = 8,
               stop: Iterable[str] = (), outside_comps: bool = False) -> ast.AST:
        """substitute single-assignment locals by their defining expression; rename params"""
        walk = self
        rename = rename or {}
        stop = set(stop)

        class Sub(ast.NodeTransformer):
            def __init__(self, d, bound=frozenset()):
                self.d = d
                self.bound = bound

            def _comp(self, n):
                bound = set(self.bound)
                for g in n.generators:
                    for x in ast.walk(g.target):
                        if isinstance(x, ast.Name):
                            bound.add(x.id)
                sub = Sub(self.d, frozenset(bound))
                n = copy.copy(n)
                n.generators = [ast.comprehension(g.target, sub.visit(copy.deepcopy(g.iter)),
                                                  [sub.visit(copy.deepcopy(c)) for c in g.ifs],
                                                  g.is_async) for g in n.generators]
                if isinstance(n, ast.DictComp):
                    n.key = sub.visit(copy.deepcopy(n.key))
                    n.value = sub.visit(copy.deepcopy(n.value))
                else:
                    n.elt = sub.visit(copy.deepcopy(n.elt))
                return n

            visit_ListComp = visit_SetComp = visit_GeneratorExp = visit_DictComp = _comp

            def visit_Lambda(self, n):
                return n

            def visit_Name(self, n):
                if not isinstance(n.ctx, ast.Load) or n.id in self.bound:
                    return n
                if n.id in rename:
                    return ast.Name(rename[n.id], ast.Load())
                if self.d <= 0 or n.id in stop:
                    return n
                d = walk.single_def(n.id, outside_comps)
                if d is None:
                    return n
                kind, payload = d[0], d[1]
                if kind == 'value':
                    return Sub(self.d - 1, self.bound).visit(copy.deepcopy(payload))
                if kind == 'unpack':
                    val, i = payload
                    if isinstance(val, (ast.Tuple, ast.List)) and i < len(val.elts):
                        return Sub(self.d - 1, self.bound).visit(copy.deepcopy(val.elts[i]))
                    base = Sub(self.d - 1, self.bound).visit(copy.deepcopy(val))
                    if isinstance(base, (ast.Tuple, ast.List)) and i < len(base.elts) and \
                            not any(isinstance(x, ast.Starred) for x in base.elts):
                        return base.elts[i]
                    return ast.Subscript(base, ast.Constant(i), ast.Load())
                return n

        return canon_yx(Sub(depth).visit(copy.deepcopy(e)))

    def expand_formula(self, f, rename=None, stop=()):
        k = f[0]
        if k == 'atom':
            return formula_of(self.expand(f[1], rename, stop=stop))
        if k == 'not':
            return f_not(self.expand_formula(f[1], rename, stop))
        if k in ('and', 'or'):
            parts = [self.expand_formula(x, rename, stop) for x in f[1:]]
            return f_and(*parts) if k == 'and' else f_or(*parts)
        return f


class _CanonYX(ast.NodeTransformer):
    """`p.yx[0]` is `p.y`, `p.yx[1]` is `p.x`, and `a[p.yx]` is `a[p.y, p.x]`"""

    def visit_Subscript(self, n: ast.Subscript):
        self.generic_visit(n)
        if isinstance(n.value, ast.Tuple) and isinstance(n.slice, ast.Constant) and \
                isinstance(n.slice.value, int) and \
                -len(n.value.elts) <= n.slice.value < len(n.value.elts) and \
                not any(isinstance(x, ast.Starred) for x in n.value.elts):
            return n.value.elts[n.slice.value]       # (a, b)[1] is b
        if isinstance(n.value, ast.Attribute) and n.value.attr == 'yx' and \
                isinstance(n.slice, ast.Constant) and n.slice.value in (0, 1):
            return ast.Attribute(n.value.value, 'yx'[n.slice.value], ast.Load())
        if isinstance(n.value, ast.Attribute) and n.value.attr == 'as_tuple' and \
                isinstance(n.slice, ast.Constant) and n.slice.value in (0, 1):
            # Shape.as_tuple is (height, width) (anchor checked by C15.R3 / C16.R3)
            return ast.Attribute(n.value.value, ('height', 'width')[n.slice.value], ast.Load())
        if isinstance(n.slice, ast.Attribute) and n.slice.attr == 'yx':
            n.slice = ast.Tuple([ast.Attribute(n.slice.value, 'y', ast.Load()),
                                 ast.Attribute(copy.deepcopy(n.slice.value), 'x', ast.Load())],
                                ast.Load())
        return n


def dims_of(e: ast.AST) -> Optional[List[str]]:
    """the dimensions denoted by an (expanded) array-shape expression, as canonical texts:
    `(a, b, 1)`, `X.as_tuple` (= X.height, X.width), `(*X.as_tuple, 1)`, tuple sums"""
    if isinstance(e, ast.Attribute) and e.attr == 'as_tuple':
        b = ast.unparse(e.value)
        return [f'{b}.height', f'{b}.width']
    if isinstance(e, (ast.Tuple, ast.List)):
        out: List[str] = []
        for x in e.elts:
            if isinstance(x, ast.Starred):
                d = dims_of(x.value)
                if d is None:
                    return None
                out += d
            else:
                out.append(ast.unparse(x))
        return out
    if isinstance(e, ast.BinOp) and isinstance(e.op, ast.Add):
        a, b = dims_of(e.left), dims_of(e.right)
        return a + b if a is not None and b is not None else None
    if isinstance(e, ast.Call) and isinstance(e.func, ast.Name) and e.func.id == 'tuple' and \
            len(e.args) == 1 and not e.keywords:
        return dims_of(e.args[0])
    return None


def canon_yx(e: ast.AST) -> ast.AST:
    if not any((isinstance(n, ast.Attribute) and n.attr in ('yx', 'as_tuple')) or
               (isinstance(n, ast.Subscript) and isinstance(n.value, ast.Tuple))
               for n in ast.walk(e)):
        return e
    return ast.fix_missing_locations(_CanonYX().visit(e))


def walk_function(fn_node: ast.FunctionDef) -> GuardWalk:
    return GuardWalk(fn_node)


def role_rename(fn_node: ast.FunctionDef, roles: Sequence[str], skip_self=False) -> Dict[str, str]:
    """map the first positional parameters to role names (S, A, N, ...)"""
    ps = [a.arg for a in fn_node.args.posonlyargs + fn_node.args.args]
    if skip_self and ps and ps[0] in ('self', 'cls'):
        ps = ps[1:]
    return {p: r for p, r in zip(ps, roles) if p != r}


# ---------------------------------------------------------------------------
# propositional reasoning over guards (atoms compared by normalised text)
def _akey(e: ast.AST) -> Tuple[str, bool]:
    """(text of the atom, negated) with `not x` / `x is False`-free normal spelling"""
    neg = False
    while isinstance(e, ast.UnaryOp) and isinstance(e.op, ast.Not):
        e, neg = e.operand, not neg
    return src(e), neg


def prop_atoms(f, out: Optional[set] = None) -> set:
    out = set() if out is None else out
    k = f[0]
    if k == 'atom':
        out.add(_akey(f[1])[0])
    elif k == 'raises':
        out.add(show(f))
    elif k == 'not':
        prop_atoms(f[1], out)
    elif k in ('and', 'or'):
        for x in f[1:]:
            prop_atoms(x, out)
    return out


def prop_truth(f, asg: Dict[str, bool]) -> bool:
    k = f[0]
    if k in ('true', 'iter'):
        return True
    if k == 'false':
        return False
    if k == 'not':
        return not prop_truth(f[1], asg)
    if k == 'and':
        return all(prop_truth(x, asg) for x in f[1:])
    if k == 'or':
        return any(prop_truth(x, asg) for x in f[1:])
    if k == 'atom':
        t, neg = _akey(f[1])
        return asg[t] != neg
    return asg[show(f)]


def prop_assignments(*fs, limit: int = 14):
    import itertools
    atoms: set = set()
    for f in fs:
        prop_atoms(f, atoms)
    atoms_l = sorted(atoms)
    if len(atoms_l) > limit:
        raise AnalysisError(f'{len(atoms_l)} atoms in a propositional comparison')
    for vals in itertools.product((False, True), repeat=len(atoms_l)):
        yield dict(zip(atoms_l, vals))


def prop_equiv(f, g) -> Optional[Dict[str, bool]]:
    """None when f and g agree under every valuation of their atoms, else a witness"""
    for asg in prop_assignments(f, g):
        if prop_truth(f, asg) != prop_truth(g, asg):
            return asg
    return None


def prop_implies(f, g) -> Optional[Dict[str, bool]]:
    for asg in prop_assignments(f, g):
        if prop_truth(f, asg) and not prop_truth(g, asg):
            return asg
    return None


def parse_guard(text: str):
    return formula_of(ast.parse(text, mode='eval').body)


def none_truth(f, term: str):
    """truth of a guard as a function of `term is None`: {True: b1, False: b0}; None when the
    guard depends on anything else"""
    def ev(f, isnone: bool):
        k = f[0]
        if k in ('true', 'iter'):
            return True
        if k == 'false':
            return False
        if k == 'not':
            return not ev(f[1], isnone)
        if k == 'and':
            return all(ev(x, isnone) for x in f[1:])
        if k == 'or':
            return any(ev(x, isnone) for x in f[1:])
        if k == 'atom':
            e = f[1]
            if isinstance(e, ast.Compare) and len(e.ops) == 1 and \
                    isinstance(e.ops[0], (ast.Is, ast.IsNot, ast.Eq, ast.NotEq)):
                l, r = e.left, e.comparators[0]
                for a, b in ((l, r), (r, l)):
                    if src(a) == term and isinstance(b, ast.Constant) and b.value is None:
                        return isnone == isinstance(e.ops[0], (ast.Is, ast.Eq))
        raise KeyError(show(f))
    try:
        return {True: ev(f, True), False: ev(f, False)}
    except KeyError:
        return None


def returns_by_none(w: 'GuardWalk', term: str) -> Optional[Dict[bool, str]]:
    """the text of the value returned when `term` is None and when it is not (first return
    in program order whose guard holds); None if a guard depends on anything else"""
    out: Dict[bool, str] = {}
    for isnone in (True, False):
        for e in w.events:
            if e.kind not in ('return', 'raise'):
                continue
            t = none_truth(w.expand_formula(strip_iter(e.guard)), term)
            if t is None:
                return None
            if t[isnone]:
                out[isnone] = 'raise' if e.kind == 'raise' else \
                    (src(w.expand(e.value)) if e.value is not None else 'None')
                break
        else:
            out[isnone] = 'None'
    return out


def truth_under(f, atom_truth, other=None) -> Optional[bool]:
    """three-valued truth of a guard when `atom_truth(expr) -> True/False/None` decides atoms
    (`other(formula)` decides the non-propositional leaves, e.g. `raises`)"""
    k = f[0]
    if k in ('true', 'iter'):
        return True
    if k == 'false':
        return False
    if k == 'not':
        t = truth_under(f[1], atom_truth, other)
        return None if t is None else not t
    if k in ('and', 'or'):
        vals = [truth_under(x, atom_truth, other) for x in f[1:]]
        if k == 'and':
            if any(v is False for v in vals):
                return False
            return True if all(v is True for v in vals) else None
        if any(v is True for v in vals):
            return True
        return False if all(v is False for v in vals) else None
    if k == 'atom':
        e, neg = f[1], False
        while isinstance(e, ast.UnaryOp) and isinstance(e.op, ast.Not):
            e, neg = e.operand, not neg
        t = atom_truth(e)
        return None if t is None else (t != neg)
    if other is not None:
        return other(f)
    return None


def expand_under(w: 'GuardWalk', e: ast.AST, atom_truth, depth: int = 8,
                 other=None) -> ast.AST:
    """expansion of locals for the executions selected by a valuation of the atoms: a local
    assigned on several paths denotes the last assignment whose path condition holds"""
    import copy as _copy

    class Sub(ast.NodeTransformer):
        def __init__(self, d, bound=frozenset()):
            self.d, self.bound = d, bound

        def _comp(self, n):
            bound = set(self.bound)
            for g in n.generators:
                for x in ast.walk(g.target):
                    if isinstance(x, ast.Name):
                        bound.add(x.id)
            sub = Sub(self.d, frozenset(bound))
            n = _copy.deepcopy(n)
            for g in n.generators:
                g.iter = sub.visit(g.iter)
                g.ifs = [sub.visit(c) for c in g.ifs]
            if isinstance(n, ast.DictComp):
                n.key, n.value = sub.visit(n.key), sub.visit(n.value)
            else:
                n.elt = sub.visit(n.elt)
            return n
        visit_ListComp = visit_SetComp = visit_GeneratorExp = visit_DictComp = _comp

        def visit_Lambda(self, n):
            return n

        def visit_Name(self, n):
            if not isinstance(n.ctx, ast.Load) or n.id in self.bound or self.d <= 0 or \
                    n.id in w.params:
                return n
            ds = w.defs.get(n.id, [])
            if not ds or any(d[0] != 'value' or d[4] for d in ds):
                if len(ds) == 1 and ds[0][0] == 'unpack':
                    val, i = ds[0][1]
                    base = Sub(self.d - 1, self.bound).visit(_copy.deepcopy(val))
                    if isinstance(base, (ast.Tuple, ast.List)) and i < len(base.elts):
                        return base.elts[i]
                    return ast.Subscript(base, ast.Constant(i), ast.Load())
                return n
            live = [d for d in ds if truth_under(strip_iter(d[3]), atom_truth, other) is True]
            maybe = [d for d in ds if truth_under(strip_iter(d[3]), atom_truth, other) is None]
            if maybe or not live:
                return n
            return Sub(self.d - 1, self.bound).visit(_copy.deepcopy(live[-1][1]))
    return canon_yx(ast.fix_missing_locations(Sub(depth).visit(_copy.deepcopy(e))))
