"""Enumeration of the positions a small generator expression denotes: a list / tuple of
`Position(a, b)` calls, or comprehensions / generator expressions over `range(..)` and
literal tables, evaluated at a concrete centre by the integer evaluator (inteval).  Nothing
of the repository is executed."""
from __future__ import annotations

import ast
from typing import Any, Dict, List, Tuple

from .core import AnalysisError, src
from .index import Module
from .inteval import CannotEval, ev as int_ev


def _items(module: Module, it: ast.AST, env: Dict[str, Any]) -> List[Any]:
    if isinstance(it, ast.Call) and src(it.func) == 'range':
        return list(range(*[int_ev(a, env) for a in it.args]))
    if isinstance(it, ast.Name):
        vals = module.assigns.get(it.id)
        if vals and len(vals) == 1:
            try:
                return list(ast.literal_eval(vals[0]))
            except (ValueError, SyntaxError):
                pass
    if isinstance(it, (ast.Tuple, ast.List)):
        try:
            return list(ast.literal_eval(it))
        except (ValueError, SyntaxError):
            pass
        # a display of expressions over the environment: [self.ymin, self.ymax]
        return [int_ev(x, env) for x in it.elts]
    raise CannotEval(src(it))


def _bind(t: ast.AST, v: Any, env: Dict[str, Any]) -> None:
    if isinstance(t, ast.Name):
        env[t.id] = v
    elif isinstance(t, (ast.Tuple, ast.List)) and isinstance(v, (tuple, list)) and \
            len(v) == len(t.elts):
        for tt, vv in zip(t.elts, v):
            _bind(tt, vv, env)
    else:
        raise CannotEval(src(t))


_GEO: Dict[int, Any] = {}


def positions_of(module: Module, e: ast.AST, env: Dict[str, Any]) -> List[Tuple[int, int]]:
    out: List[Tuple[int, int]] = []

    def pos(c: ast.AST, env_: Dict[str, Any]) -> None:
        if isinstance(c, ast.Call) and src(c.func) == 'Position':
            kw = {k.arg: k.value for k in c.keywords}
            a = list(c.args) + [kw[n] for n in ('y', 'x')[len(c.args):] if n in kw]
            if len(a) == 2:
                out.append((int_ev(a[0], env_), int_ev(a[1], env_)))
                return
        raise CannotEval(src(c))

    def comp(c, i: int, env_: Dict[str, Any]) -> None:
        if i == len(c.generators):
            pos(c.elt, env_)
            return
        g = c.generators[i]
        for v in _items(module, g.iter, env_):
            env2 = dict(env_)
            _bind(g.target, v, env2)
            if all(int_ev(x, env2) for x in g.ifs):
                comp(c, i + 1, env2)
    try:
        if isinstance(e, (ast.List, ast.Tuple)):
            for c in e.elts:
                pos(c, env)
        elif isinstance(e, (ast.ListComp, ast.GeneratorExp)):
            comp(e, 0, dict(env))
        elif isinstance(e, ast.Call) and src(e.func) in ('list', 'tuple') and len(e.args) == 1:
            return positions_of(module, e.args[0], env)
        else:
            raise CannotEval(src(e)[:80])
    except CannotEval as ce:
        raise AnalysisError(f'positions outside the grammar: {ce}')
    return out


def area_positions(index, selection: str, ys: Tuple[int, int], xs: Tuple[int, int],
                   depth: int = 3) -> List[Tuple[int, int]]:
    """the sequence of positions `Area(ys, xs).positions(selection)` denotes, read off the
    method: the assignment selected by the tests on `selection`, generator expressions over
    `range(..)` / `self.y_coordinates()` / `self.x_coordinates()` / literal lists of the bounds,
    `itertools.chain(..)` as concatenation, recursive `self.positions(..)`"""
    from .guards import expand_under, truth_under, strip_iter, walk_function
    from .inline import pure_body_expr
    if depth < 0:
        raise AnalysisError('Area.positions: recursion too deep')
    GEOM = 'gym_gridverse/geometry.py'
    area_cls = index.cls(GEOM, 'Area')
    m = index.method(area_cls, 'positions')
    if m is None:
        raise AnalysisError('anchor vanished: Area.positions')
    if depth == 3:
        # first reading: the pose interpreter (helpers, methods, chain, nested generators)
        from .affine import Aff
        from .geom import GeoInterp
        C = Aff.const
        ps_ = [a.arg for a in m.node.args.args]
        try:
            geo = _GEO.get(id(index))
            if geo is None:
                _GEO.clear()
                geo = _GEO[id(index)] = GeoInterp(index)
            r = geo.call(m, {ps_[0]: ('A', ((C(ys[0]), C(ys[1])), (C(xs[0]), C(xs[1])))),
                             ps_[1]: ('S', selection)})
            if r[0] == 'U' and all(c[0] == 'P' and c[1][0].is_const() and c[1][1].is_const()
                                   for c in r[1]):
                return [(int(c[1][0].k), int(c[1][1].k)) for c in r[1]]
        except AnalysisError:
            pass            # second reading below; its message is the one reported
    ps = [a.arg for a in m.node.args.args]
    sel = ps[1] if len(ps) > 1 else 'selection'
    env: Dict[str, Any] = {sel: selection, 'self.ymin': ys[0], 'self.ymax': ys[1],
                           'self.xmin': xs[0], 'self.xmax': xs[1], 'self.ys[0]': ys[0],
                           'self.ys[1]': ys[1], 'self.xs[0]': xs[0], 'self.xs[1]': xs[1],
                           'self.height': ys[1] - ys[0] + 1, 'self.width': xs[1] - xs[0] + 1}
    w = walk_function(m.node)

    def atom_truth(a: ast.AST):
        try:
            return bool(int_ev(w.expand(a), env))
        except (CannotEval, TypeError):
            return None
    value = None
    for e in w.events:
        if e.kind not in ('return', 'raise'):
            continue
        t = truth_under(strip_iter(e.guard), atom_truth)
        if t is None:
            raise AnalysisError(f'Area.positions: guard `{src(e.stmt)[:50]}` not decided')
        if t:
            if e.kind == 'raise':
                raise AnalysisError(f"Area.positions({selection!r}) raises")
            value = expand_under(w, e.value, atom_truth)
            break
    if value is None:
        raise AnalysisError('Area.positions: no return reached')

    def coords(it: ast.AST) -> ast.AST:
        # self.y_coordinates() -> the range its body returns
        if isinstance(it, ast.Call) and isinstance(it.func, ast.Attribute) and \
                src(it.func.value) == 'self' and not it.args:
            mm = index.method(area_cls, it.func.attr)
            b = pure_body_expr(mm.node) if mm is not None else None
            if b is not None:
                return b
        return it

    def seq(e: ast.AST) -> List[Tuple[int, int]]:
        if isinstance(e, ast.Call) and src(e.func).split('.')[-1] == 'chain' and not e.keywords:
            out: List[Tuple[int, int]] = []
            for a in e.args:
                out += seq(a)
            return out
        if isinstance(e, ast.Call) and src(e.func) in ('list', 'tuple', 'iter') and \
                len(e.args) == 1:
            return seq(e.args[0])
        if isinstance(e, ast.Call) and src(e.func) == 'self.positions' and len(e.args) <= 1 \
                and not e.keywords:
            s2 = int_ev(e.args[0], env) if e.args else 'all'
            return area_positions(index, s2, ys, xs, depth - 1)
        if isinstance(e, (ast.GeneratorExp, ast.ListComp)):
            import copy
            e = copy.deepcopy(e)
            for g in e.generators:
                g.iter = coords(g.iter)
        return positions_of(m.module, e, env)
    return seq(value)
