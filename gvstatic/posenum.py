"""Enumeration of the positions a small generator expression denotes: a list / tuple of
`Position(a, b)` calls, or comprehensions / generator expressions over `range(..)` and
literal tables, evaluated at a concrete centre by the integer evaluator (inteval).  Nothing
of the repository is executed."""
from __future__ import annotations

import ast
from typing import Any, Dict, List, Tuple

from .core import AnalysisError, src
from .index import Module
from .inteval import CannotEval, ev as int_ev


def _items(module: Module, it: ast.AST, env: Dict[str, Any]) -> List[Any]:
    if isinstance(it, ast.Call) and src(it.func) == 'range':
        return list(range(*[int_ev(a, env) for a in it.args]))
    if isinstance(it, ast.Name):
        vals = module.assigns.get(it.id)
        if vals and len(vals) == 1:
            try:
                return list(ast.literal_eval(vals[0]))
            except (ValueError, SyntaxError):
                pass
    if isinstance(it, (ast.Tuple, ast.List)):
        try:
            return list(ast.literal_eval(it))
        except (ValueError, SyntaxError):
            pass
    raise CannotEval(src(it))


def _bind(t: ast.AST, v: Any, env: Dict[str, Any]) -> None:
    if isinstance(t, ast.Name):
        env[t.id] = v
    elif isinstance(t, (ast.Tuple, ast.List)) and isinstance(v, (tuple, list)) and \
            len(v) == len(t.elts):
        for tt, vv in zip(t.elts, v):
            _bind(tt, vv, env)
    else:
        raise CannotEval(src(t))


def positions_of(module: Module, e: ast.AST, env: Dict[str, Any]) -> List[Tuple[int, int]]:
    out: List[Tuple[int, int]] = []

    def pos(c: ast.AST, env_: Dict[str, Any]) -> None:
        if isinstance(c, ast.Call) and src(c.func) == 'Position':
            kw = {k.arg: k.value for k in c.keywords}
            a = list(c.args) + [kw[n] for n in ('y', 'x')[len(c.args):] if n in kw]
            if len(a) == 2:
                out.append((int_ev(a[0], env_), int_ev(a[1], env_)))
                return
        raise CannotEval(src(c))

    def comp(c, i: int, env_: Dict[str, Any]) -> None:
        if i == len(c.generators):
            pos(c.elt, env_)
            return
        g = c.generators[i]
        for v in _items(module, g.iter, env_):
            env2 = dict(env_)
            _bind(g.target, v, env2)
            if all(int_ev(x, env2) for x in g.ifs):
                comp(c, i + 1, env2)
    try:
        if isinstance(e, (ast.List, ast.Tuple)):
            for c in e.elts:
                pos(c, env)
        elif isinstance(e, (ast.ListComp, ast.GeneratorExp)):
            comp(e, 0, dict(env))
        elif isinstance(e, ast.Call) and src(e.func) in ('list', 'tuple') and len(e.args) == 1:
            return positions_of(module, e.args[0], env)
        else:
            raise CannotEval(src(e)[:80])
    except CannotEval as ce:
        raise AnalysisError(f'positions outside the grammar: {ce}')
    return out
