"""General reader of the explicit-loop form of compute_ray.

    for i in count():
        <cell of sample i>
        [same cell as last time -> append it (or nothing when unique) without another test]
        if <cell outside the area>: break
        [unique: skip a cell seen before, else remember it]
        ray.append(cell)

The loop body is read through the guards of its events (appends, breaks, set additions,
stores of "last cell" variables).  Atoms of those guards are brought to a small canonical
vocabulary

    IN    the cell of this sample lies in the area       (area.contains(cell), or the four
          bound comparisons, any spelling/direction)
    SEEN  the cell is in the set of cells met so far
    SAME  the cell equals the one kept in a "last cell" variable P

and the facets are propositional statements over them.  A "last cell" variable is accepted
only with its inductive invariant proved from the stores: P is None before the loop, and is
stored only (a) with this sample's cell, (b) on a path where SAME was tested false, (c) under
IN, and (d) with the cell in the seen-set at the end of the iteration when `unique`; hence
    SAME -> IN            and            SAME and unique -> SEEN
hold at every test of SAME, and are used as premises.  Anything else: AnalysisError."""
from __future__ import annotations

import ast
import copy
from typing import Dict, List, Optional

from .core import AnalysisError, src
from .guards import (FALSE, TRUE, f_and, f_not, f_or, formula_of, prop_equiv, prop_implies,
                     show, strip_iter, walk_function)


class _Norm(ast.NodeTransformer):
    """Position(*(a, b)) -> Position(a, b);  Position(a, b).y -> a;  (a, b)[0] -> a"""

    def visit_Call(self, n: ast.Call):
        self.generic_visit(n)
        if len(n.args) == 1 and isinstance(n.args[0], ast.Starred) and \
                isinstance(n.args[0].value, ast.Tuple) and not n.keywords:
            return ast.Call(n.func, list(n.args[0].value.elts), [])
        return n

    def visit_Attribute(self, n: ast.Attribute):
        self.generic_visit(n)
        v = n.value
        if isinstance(v, ast.Call) and src(v.func) == 'Position' and len(v.args) == 2 and \
                not v.keywords and n.attr in ('y', 'x'):
            return v.args[0 if n.attr == 'y' else 1]
        return n

    def visit_Subscript(self, n: ast.Subscript):
        self.generic_visit(n)
        if isinstance(n.value, ast.Tuple) and isinstance(n.slice, ast.Constant) and \
                isinstance(n.slice.value, int) and 0 <= n.slice.value < len(n.value.elts):
            return n.value.elts[n.slice.value]
        return n


def _alias_after_store(fn: ast.FunctionDef, lp: ast.For, names: List[str]) -> None:
    """in the (copied) loop body: after a top-level `P = V`, later statements of the body read
    the fresh single-assignment alias P__cur instead of P"""
    for p in names:
        body = lp.body
        for k, s in enumerate(body):
            if isinstance(s, ast.Assign) and len(s.targets) == 1 and \
                    isinstance(s.targets[0], ast.Name) and s.targets[0].id == p:
                alias = f'{p}__cur'
                new = ast.Assign([ast.Name(alias, ast.Store())], s.value, lineno=s.lineno)
                s2 = ast.Assign([ast.Name(p, ast.Store())], ast.Name(alias, ast.Load()),
                                lineno=s.lineno)

                class R(ast.NodeTransformer):
                    def visit_Name(self, n):
                        if n.id == p and isinstance(n.ctx, ast.Load):
                            return ast.copy_location(ast.Name(alias, ast.Load()), n)
                        return n
                rest = [R().visit(x) for x in body[k + 1:]]
                lp.body = body[:k] + [new, s2] + rest
                break
        ast.fix_missing_locations(fn)


def loop_model(fnode: ast.FunctionDef, lp0: ast.For, pos: str, area: str, m: dict,
               sample_ok) -> dict:
    i_ = src(lp0.target)
    # ---- candidates for "last cell" variables: bound to None before the loop and bound
    # again inside it
    w0 = walk_function(copy.deepcopy(fnode))

    def in_loop(d) -> bool:
        return any(src(t) == i_ for t, _ in d[4])
    lasts = []
    for name, ds in w0.defs.items():
        if name in w0.params or len(ds) < 2:
            continue
        outer = [d for d in ds if not in_loop(d)]
        inner = [d for d in ds if in_loop(d)]
        if inner and len(outer) == 1 and outer[0][0] == 'value' and \
                isinstance(outer[0][1], ast.Constant) and outer[0][1].value is None:
            lasts.append(name)
    fn = copy.deepcopy(fnode)        # rewritten before anything reads its text
    lp = next(n for n in ast.walk(fn) if isinstance(n, ast.For) and
              n.lineno == lp0.lineno and src(n.iter) == src(lp0.iter))
    _alias_after_store(fn, lp, lasts)
    w = walk_function(fn)
    inside = {id(n) for n in ast.walk(lp)}
    rets = [e for e in w.events if e.kind == 'return' and e.value is not None]
    if len(rets) != 1 or not isinstance(rets[0].value, ast.Name):
        raise AnalysisError('compute_ray: expected one return of the list the loop fills')
    ray = rets[0].value.id

    def norm(e: ast.AST) -> ast.AST:
        e = w.expand(e, stop=[i_] + lasts)
        for _ in range(3):
            e = _Norm().visit(copy.deepcopy(e))
        return e

    def calls(attr: str, recv: Optional[str] = None):
        return [e for e in w.events if e.kind == 'call' and id(e.node) in inside
                and isinstance(e.node.func, ast.Attribute) and e.node.func.attr == attr
                and (recv is None or src(e.node.func.value) == recv)
                and len(e.node.args) == 1]
    apps = calls('append', ray)
    brs = [e for e in w.events if e.kind == 'break' and id(e.node) in inside]
    if not apps or not brs:
        raise AnalysisError(f'compute_ray loop: {len(apps)} appends, {len(brs)} breaks')
    # other ways for the list to change, or for the loop to end, are outside the grammar
    for e in w.events:
        if e.kind == 'call' and isinstance(e.node.func, ast.Attribute) and \
                src(e.node.func.value) == ray and e not in apps:
            raise AnalysisError(f'compute_ray: the ray is also changed by `{src(e.node)[:60]}`')
        if e.kind in ('return', 'raise') and id(e.node) in inside:
            raise AnalysisError('compute_ray: the loop is also left by return/raise')
    # ---- the cell of this sample
    stores: Dict[str, list] = {p: [d for d in w.defs.get(p, []) if in_loop(d)] for p in lasts}
    cells = {}
    for a in apps:
        if not (isinstance(a.node.args[0], ast.Name) and a.node.args[0].id in lasts):
            n = norm(a.node.args[0])
            cells[src(n)] = n
    for p in lasts:
        for d in stores[p]:
            if d[0] != 'value':
                raise AnalysisError(f'compute_ray: `{p}` is bound by unpacking in the loop')
            n = norm(d[1])
            if isinstance(n, ast.Call) and src(n.func) == 'Position':
                cells[src(n)] = n
            elif isinstance(n, ast.Tuple) and len(n.elts) == 2:
                c = ast.Call(ast.Name('Position', ast.Load()), list(n.elts), [])
                cells[src(c)] = c
    if len(cells) != 1:
        raise AnalysisError(f'compute_ray loop: the appended cell is not one expression '
                            f'({sorted(cells)[:3]})')
    (cell_t, cell), = cells.items()
    m['cell_text'] = cell_t
    if not (isinstance(cell, ast.Call) and src(cell.func) == 'Position' and
            len(cell.args) == 2 and not cell.keywords):
        raise AnalysisError(f'compute_ray loop: the cell `{cell_t[:80]}` is not Position(y, x)')
    cy, cx = src(cell.args[0]), src(cell.args[1])
    pair_t = f'({cy}, {cx})'
    # what each last-cell variable keeps: the Position or the coordinate pair
    keeps: Dict[str, str] = {}
    for p in lasts:
        ts = {src(norm(d[1])) for d in stores[p]}
        if ts == {cell_t}:
            keeps[p] = 'cell'
        elif ts == {pair_t}:
            keeps[p] = 'pair'
        else:
            raise AnalysisError(f'compute_ray loop: `{p}` keeps {sorted(ts)[:2]}, not the '
                                f'cell of the sample')
    # ---- the set of cells seen so far
    seens = []
    for n_ in w.defs:
        d_ = w.sole_binding(n_)
        if d_ is not None and d_[0] == 'value' and src(d_[1]) == 'set()' and not in_loop(d_):
            seens.append(n_)
    A = lambda t: ('atom', ast.Name(t, ast.Load()))          # noqa: E731
    IN4 = f_and(A('YMIN'), A('YMAX'), A('XMIN'), A('XMAX'))
    bounds = {f'{area}.ymin': ('YMIN', cy, 'min'), f'{area}.ymax': ('YMAX', cy, 'max'),
              f'{area}.xmin': ('XMIN', cx, 'min'), f'{area}.xmax': ('XMAX', cx, 'max')}

    strict: set = set()

    def is_cell(e: ast.AST) -> bool:
        return src(e) == cell_t

    def canon_atom(node: ast.AST):
        n = norm(node)
        t = src(n)
        if t == f'{area}.contains({cell_t})':
            return IN4
        if isinstance(n, ast.Compare) and len(n.ops) == 1:
            lt, rt, op = src(n.left), src(n.comparators[0]), n.ops[0]
            for b, c, flip in ((lt, rt, False), (rt, lt, True)):
                if b in bounds and c == bounds[b][1]:
                    name, _, kind = bounds[b]
                    # orient as  bound OP coordinate
                    o = type(op)
                    if flip:
                        o = {ast.Lt: ast.Gt, ast.Gt: ast.Lt, ast.LtE: ast.GtE,
                             ast.GtE: ast.LtE}.get(o, o)
                    if kind == 'min':        # inside: bound <= c
                        if o is ast.LtE:
                            return A(name)
                        if o is ast.Gt:
                            return f_not(A(name))
                        if o is ast.Lt:      # strictly inside: implies the bound test
                            strict.add(name)
                            return A(name + '_STRICT')
                        if o is ast.GtE:
                            strict.add(name)
                            return f_not(A(name + '_STRICT'))
                    else:                    # inside: bound >= c
                        if o is ast.GtE:
                            return A(name)
                        if o is ast.Lt:
                            return f_not(A(name))
                        if o is ast.Gt:
                            strict.add(name)
                            return A(name + '_STRICT')
                        if o is ast.LtE:
                            strict.add(name)
                            return f_not(A(name + '_STRICT'))
                    return ('atom', n)
            if isinstance(op, ast.In) and rt in seens and is_cell(n.left):
                return A(f'SEEN_{rt}')
            if isinstance(op, (ast.Eq,)):
                for a_, b_ in ((lt, rt), (rt, lt)):
                    if a_ in keeps:
                        if b_ == (cell_t if keeps[a_] == 'cell' else pair_t) or \
                                (keeps[a_] == 'cell' and b_ == pair_t and False):
                            return A(f'SAME_{a_}')
                    for p in keeps:
                        if keeps[p] == 'cell':
                            if a_ == f'{p}.y' and b_ == cy:
                                return A(f'SAMEY_{p}')
                            if a_ == f'{p}.x' and b_ == cx:
                                return A(f'SAMEX_{p}')
                        else:
                            if a_ == f'{p}[0]' and b_ == cy:
                                return A(f'SAMEY_{p}')
                            if a_ == f'{p}[1]' and b_ == cx:
                                return A(f'SAMEX_{p}')
            if isinstance(op, ast.Is) and lt in keeps and rt == 'None':
                return f_not(A(f'SET_{lt}'))
        return ('atom', n)

    def canon(f):
        k = f[0]
        if k == 'atom':
            g = formula_of(norm(f[1]))
            if g[0] == 'atom':
                return canon_atom(g[1])
            return canon(g)
        if k == 'not':
            return f_not(canon(f[1]))
        if k in ('and', 'or'):
            parts = [canon(x) for x in f[1:]]
            return f_and(*parts) if k == 'and' else f_or(*parts)
        return f

    def G(e) -> tuple:
        return canon(strip_iter(e.guard if hasattr(e, 'guard') else e))
    pre = TRUE
    for e_ in w.events:
        if e_.kind == 'call' and e_.node is lp.iter:
            pre = canon(strip_iter(e_.guard))
    U = ('atom', ast.Name('unique', ast.Load()))

    from .guards import prop_atoms
    seen_atoms: set = set()
    for e_ in w.events:
        if id(e_.node) in inside:
            prop_atoms(G(e_), seen_atoms)

    def same(p: str):
        whole = f'SAME_{p}' in seen_atoms
        parts = {f'SAMEY_{p}', f'SAMEX_{p}'} & seen_atoms
        if whole and parts:
            raise AnalysisError(f'compute_ray loop: `{p}` is compared with the sample both '
                                f'whole and by coordinate (outside the grammar)')
        if parts:
            return f_and(A(f'SET_{p}'), A(f'SAMEY_{p}'), A(f'SAMEX_{p}'))
        return A(f'SAME_{p}')
    adds = {s: calls('add', s) for s in seens}
    used_seen = None
    for s in seens:
        uses = [e for e in w.events if e.kind == 'call' and
                isinstance(e.node.func, ast.Attribute) and src(e.node.func.value) == s]
        if adds[s] and len(uses) == len(adds[s]) and \
                all(is_cell(norm(e.node.args[0])) for e in adds[s]):
            used_seen = s
    SEEN = A(f'SEEN_{used_seen}') if used_seen else FALSE
    add_g = f_or(*[G(e) for e in adds.get(used_seen, [])]) if used_seen else FALSE
    # ---- premises from the invariants of the last-cell variables
    premises = [f_or(f_not(A(n_ + '_STRICT')), A(n_)) for n_ in sorted(strict)]
    BASE = f_and(*premises) if premises else TRUE
    for p in keeps:
        S = same(p)
        for d in stores[p]:
            g = canon(strip_iter(d[3]))
            why = None
            if prop_implies(f_and(BASE, g), f_not(S)) is not None:
                why = 'is stored on a path where it was not compared with the sample first'
            elif prop_implies(f_and(BASE, g), IN4) is not None:
                why = 'is stored with a cell that was not tested against the area'
            if why:
                raise AnalysisError(f'compute_ray loop: `{p}` {why} (line '
                                    f'{getattr(d[1], "lineno", "?")}): its use as a shortcut '
                                    f'is outside the grammar')
        premises.append(f_or(f_not(S), IN4))
        seen_kept = all(
            prop_implies(f_and(canon(strip_iter(d[3])), U), f_or(SEEN, add_g)) is None
            for d in stores[p]) and used_seen is not None
        if seen_kept:
            premises.append(f_or(f_not(f_and(S, U)), SEEN))
        m.setdefault('notes', []).append(
            f'`{p}` keeps the last cell inside the area'
            + (' (and seen, when unique)' if seen_kept else ''))
    PREM = f_and(*premises) if premises else TRUE

    def equiv(a, b) -> bool:
        return prop_equiv(f_and(PREM, a), f_and(PREM, b)) is None

    def implies(a, b) -> bool:
        return prop_implies(f_and(PREM, a), b) is None
    # ---- every appended value is the cell of this sample
    for a in apps:
        x = a.node.args[0]
        if isinstance(x, ast.Name) and x.id in keeps:
            if keeps[x.id] != 'cell' or not implies(G(a), same(x.id)):
                raise AnalysisError(f'compute_ray loop: `{ray}.append({x.id})` is not under '
                                    f'the test that `{x.id}` is the cell of this sample')
    cut = f_or(*[G(b) for b in brs])
    m['cut_text'] = 'break when ' + ' or '.join(show(strip_iter(b.guard)) for b in brs)
    m['cut'] = equiv(cut, f_and(pre, f_not(IN4)))
    app = f_or(*[G(a) for a in apps])
    disjoint = all(prop_implies(f_and(PREM, G(a), G(b)), FALSE) is None
                   for k, a in enumerate(apps) for b in apps[k + 1:])
    m['order'] = implies(app, IN4) and disjoint and \
        all(prop_implies(f_and(PREM, G(a), cut), FALSE) is None for a in apps)
    m['dedupe_text'] = ' or '.join(show(strip_iter(a.guard)) for a in apps)
    if used_seen:
        if equiv(app, f_and(pre, IN4, f_not(f_and(U, SEEN)))) and \
                equiv(add_g, f_and(pre, IN4, U, f_not(SEEN))):
            m['dedupe'], m['dedupe_conditional'] = True, True
        elif equiv(app, f_and(pre, IN4, f_not(SEEN))) and \
                equiv(add_g, f_and(pre, IN4, f_not(SEEN))):
            m['dedupe'] = True
    if all(isinstance(a, ast.Call) and src(a.func) == 'round' and len(a.args) == 1
           for a in cell.args):
        m['rounding'] = True
        ys, xs = cell.args[0].args[0], cell.args[1].args[0]
        m['sample_text'] = f'{src(ys)}; {src(xs)}'
        m['samples'] = sample_ok(w, ys, i_, pos, 'y', 'sin') and \
            sample_ok(w, xs, i_, pos, 'x', 'cos')
    return m
