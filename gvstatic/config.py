"""E9 configuration model: shipped YAML files, component signatures from the registries, what
a reset / transition function can place on the grid.  Shared by C17 and C01.R6."""
from __future__ import annotations

import ast
import glob
import os
from typing import Any, Dict, List, Optional, Set, Tuple

from . import yamlmini
from .boolean import ObjectModel
from .core import AnalysisError, src
from .effects import Effects
from .guards import walk_function
from .index import PKG, Cls, Func, RepoIndex

N_PROTOCOL = {'reset': 0, 'transition': 2, 'reward': 3, 'terminating': 3, 'observation': 1,
              'visibility': 2}
ROLE_KEYS = {
    'reset_function': 'reset', 'transition_functions': 'transition',
    'reward_functions': 'reward', 'observation_function': 'observation',
    'terminating_function': 'terminating', 'terminating_functions': 'terminating',
    'visibility_function': 'visibility', 'reward_function': 'reward',
    'transition_function': 'transition',
}


class Configs:
    def __init__(self, index: RepoIndex, rep=None):
        self.index = index
        self.repo = index.repo
        self.files: Dict[str, Any] = {}
        self.texts: Dict[str, str] = {}
        for pat in ('yaml/*.yaml', f'{PKG}/registered_envs/*.yaml', 'examples/*.yaml'):
            for p in sorted(glob.glob(os.path.join(self.repo, pat))):
                rel = os.path.relpath(p, self.repo)
                text = open(p, encoding='utf-8').read()
                self.texts[rel] = text
                self.files[rel] = yamlmini.parse(text, rel)
                if rep is not None:
                    rep.consulted(rel, text)

    def shipped(self) -> List[str]:
        return [r for r in self.files if r.startswith('yaml/')]


def signature(role: str, f: Func) -> Tuple[List[str], List[str]]:
    """(required, optional) non-protocol parameter names of a registered function"""
    a = f.node.args
    pos = list(a.posonlyargs) + list(a.args)
    defaults = f.param_defaults()
    if role == 'reset':
        proto = {'rng'}
        names = [p.arg for p in pos + list(a.kwonlyargs)]
    else:
        n = N_PROTOCOL[role]
        proto = {p.arg for p in pos[:n]} | {'rng'}
        names = [p.arg for p in pos + list(a.kwonlyargs)]
    req = [n_ for n_ in names if n_ not in proto and defaults.get(n_) is None]
    opt = [n_ for n_ in names if n_ not in proto and defaults.get(n_) is not None]
    return req, opt


class Placed:
    """which grid-object classes / colours a function can put on the grid (transitively)"""

    def __init__(self, index: RepoIndex, eff: Optional[Effects] = None):
        self.index = index
        self.om = ObjectModel(index)
        self.eff = eff or Effects(index)
        self._memo: Dict[str, Tuple[Set[str], Set[str], Set[str]]] = {}

    def of(self, f: Func, _stack=()) -> Tuple[Set[str], Set[str], Set[str]]:
        """(classes, colours, class-valued parameter names used as factories)"""
        q = self.eff.qual(f)
        if q in self._memo:
            return self._memo[q]
        if q in _stack:
            return set(), set(), set()
        classes: Set[str] = set()
        colours: Set[str] = set()
        params: Set[str] = set()
        pnames = {p.arg for p in f.params()}
        tests: Set[int] = set()
        for n in ast.walk(f.node):
            # names inside isinstance(..) / assert are tests, not placements
            if isinstance(n, ast.Call) and src(n.func) == 'isinstance':
                for x in ast.walk(n):
                    tests.add(id(x))
            if isinstance(n, ast.Assert):
                for x in ast.walk(n):
                    tests.add(id(x))
            if isinstance(n, ast.Compare):
                for x in ast.walk(n):
                    tests.add(id(x))
            if isinstance(n, ast.Raise):
                for x in ast.walk(n):
                    tests.add(id(x))
        for n in ast.walk(f.node):
            if id(n) in tests:
                continue
            if isinstance(n, ast.Name) and isinstance(n.ctx, ast.Load):
                if n.id in self.om.classes:
                    classes.add(n.id)
                elif n.id in pnames:
                    for p in f.params():
                        if p.arg == n.id and p.annotation is not None and \
                                ('Type[GridObject]' in src(p.annotation)
                                 or 'GridObjectFactory' in src(p.annotation)):
                            params.add(n.id)
            em = self.index.enum_member(n) if isinstance(n, ast.Attribute) else None
            if em and em[0] == 'Color':
                colours.add(em[1])
        # default factories of callees and transitive placements
        w = self.eff.walks.get(q)
        if w is not None:
            for e in w.events:
                if e.kind != 'call':
                    continue
                for t in self.eff.resolve(q, e.node):
                    if t.cls is not None and t.cls.name in self.om.classes:
                        continue
                    if not t.relpath.startswith(PKG):
                        continue
                    mod = t.relpath.split('/')[-1]
                    if mod not in ('reset_functions.py', 'design.py', 'grid.py'):
                        continue
                    c2, k2, p2 = self.of(t, _stack + (q,))
                    # class-valued parameters of the callee: bound arguments
                    b = self.eff.bind_args(t, e.node)
                    classes |= c2
                    colours |= k2
                    for pn in p2:
                        a = b.get(pn)
                        if a is None:
                            d = t.param_defaults().get(pn)
                            if isinstance(d, ast.Name) and d.id in self.om.classes:
                                classes.add(d.id)
                        elif isinstance(a, ast.Name) and a.id in self.om.classes:
                            classes.add(a.id)
                        elif isinstance(a, ast.Name) and a.id in pnames:
                            params.add(a.id)
        self._memo[q] = (classes, colours, params)
        return self._memo[q]


def declared_types_rule(index: RepoIndex, rep, rule: str) -> None:
    cfg = Configs(index, rep)
    placed = Placed(index)
    resets = index.registry('reset', 8)
    trans = index.registry('transition', 8)
    colours_enum = index.enum('Color')
    for rel in cfg.shipped():
        d = cfg.files[rel]
        try:
            rf = d['reset_function']
            name = rf['name']
            st_objs = set(d['state_space']['objects'])
            st_cols = set(d['state_space']['colors']) | {'NONE'}
            ob_objs = set(d['observation_space']['objects']) | {'Hidden'}
            ob_cols = set(d['observation_space']['colors']) | {'NONE'}
        except (KeyError, TypeError) as e:
            rep.violation(rule, rel, '<config>', 1, rel, f'configuration lacks a section: {e}')
            continue
        if ':' in name:
            rep.note(f'{rel}: custom reset function {name} not analysed')
            continue
        f = resets.get(name)
        if f is None:
            rep.violation(rule, rel, '<config>', 1, f'reset_function: {name}',
                          f'unknown reset function `{name}`')
            continue
        classes, colours, params = placed.of(f)
        classes = set(classes)
        colours = set(colours) - {'NONE'}
        for pn in params:
            v = rf.get(pn)
            if isinstance(v, str):
                classes.add(v.split(':')[-1])
        if isinstance(rf.get('colors'), list):
            colours |= set(rf['colors'])
        # transition functions create Floor (pickndrop) / nothing else in shipped configs
        for t in d.get('transition_functions', []):
            tf = trans.get(t.get('name')) if isinstance(t, dict) else None
            if tf is not None:
                c2, k2, _ = placed.of(tf)
                classes |= {c for c in c2 if c not in ('NoneGridObject',)}
                colours |= set(k2) - {'NONE'}
        classes.discard('NoneGridObject')
        classes.discard('Hidden')
        miss_s = sorted(classes - st_objs)
        miss_o = sorted(classes - ob_objs)
        miss_cs = sorted(colours - st_cols)
        miss_co = sorted(colours - ob_cols)
        ok = not (miss_s or miss_o or miss_cs or miss_co)
        rep.check(ok, rule, rel, '<config>', 1, f'state_space/observation_space of {rel}',
                  f'reset `{name}` and the listed transitions can place objects '
                  f'{sorted(classes)} / colours {sorted(colours)}; not declared: state objects '
                  f'{miss_s}, observation objects {miss_o}, state colours {miss_cs}, '
                  f'observation colours {miss_co}',
                  f'{rel}: places {sorted(classes)} colours {sorted(colours)}')
