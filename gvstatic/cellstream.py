"""Normal form of list-valued expressions over the cells of a grid (E16).

Rules about "the list of obstacle positions", "the free neighbours of this obstacle", "the
other telepods of this colour" used to demand one spelling of the comprehension.  This module
gives such expressions a normal form instead: a *stream*

    kind     'cells'  every position of grid G, in row-major order
             'nbrs'   the positions get_manhattan_boundary(C, 1) yields, in its order
    grid     the grid expression (expanded, roles renamed when a renaming is given)
    centre   C (for 'nbrs')
    filters  conditions over the position variable P and the cell O = G[P]

whatever mix of the following produced it: `G.area.positions()`; `range(height)` x
`range(width)`; `enumerate(G.objects)` x `enumerate(row)`; `get_manhattan_boundary(C, 1)` or an
import-time table of its offsets at the origin (translated back to C); a comprehension over
another stream (filters accumulate); locals, module-level helpers and pure methods (already
inlined by the view).  The element must be the position itself.  Bounds tests written on
integers (`0 <= y < height and 0 <= x < width`) become `G.area.contains(P)`, every spelling of
the cell under P becomes `O`.  Nothing is executed; an expression that does not fit is
reported as None and the rule says "outside the grammar"."""
from __future__ import annotations

import ast
import copy
from dataclasses import dataclass, field
from typing import Dict, List, Optional, Tuple

from .core import src
from .guards import GuardWalk

BOUNDARY = 'get_manhattan_boundary'


@dataclass
class Stream:
    kind: str
    grid: str
    centre: str = ''
    filters: List[ast.AST] = field(default_factory=list)
    source: str = ''            # how the positions were produced (for reports)

    def key(self) -> tuple:
        return (self.kind, self.grid, self.centre, tuple(src(f) for f in self.filters))


class _Subst(ast.NodeTransformer):
    def __init__(self, mp: Dict[str, ast.AST]):
        self.mp = mp

    def visit_Name(self, n: ast.Name):
        if isinstance(n.ctx, ast.Load) and n.id in self.mp:
            return copy.deepcopy(self.mp[n.id])
        return n


def _P() -> ast.Name:
    return ast.Name('P', ast.Load())


def _attr(e: ast.AST, a: str) -> ast.Attribute:
    return ast.Attribute(e, a, ast.Load())


class StreamReader:
    def __init__(self, index, module, walk: GuardWalk, ren: Optional[Dict[str, str]] = None):
        self.index = index
        self.module = module
        self.w = walk
        self.ren = ren or {}
        # denotations that were read and are wrong (not merely unreadable): the rule reports
        # them as violations
        self.problems: List[str] = []

    # ------------------------------------------------------------------ helpers
    def ex(self, e: ast.AST, stop=()) -> ast.AST:
        # the variables of the comprehension being read are always in `stop`; the variables
        # of other comprehensions of the function are not visible here
        return self.w.expand(e, self.ren, stop=list(stop), outside_comps=True)

    def grid_of_extent(self, e: ast.AST, dim: str) -> Optional[str]:
        """G when `e` denotes G's extent along `dim` ('height' / 'width')"""
        e = self.ex(e)
        s = src(e)
        for suffix in (f'.shape.{dim}', f'.area.{dim}'):
            if s.endswith(suffix):
                return s[:-len(suffix)]
        if dim == 'height' and s.startswith('len(') and s.endswith('.objects)'):
            return s[4:-len('.objects)')]
        if dim == 'width' and s.startswith('len(') and s.endswith('.objects[0])'):
            return s[4:-len('.objects[0])')]
        return None

    def _range_grid(self, r: ast.Call, axis: str) -> Optional[str]:
        """G when `r` ranges over all rows (axis 'y') / columns ('x') of G:
        range(G.shape.height), range(len(G.objects)), range(G.area.ymin, G.area.ymax + 1)"""
        dim = 'height' if axis == 'y' else 'width'
        if len(r.args) == 1:
            return self.grid_of_extent(r.args[0], dim)
        lo, hi = src(self.ex(r.args[0])), src(self.ex(r.args[1]))
        suf_lo, suf_hi = f'.area.{axis}min', f'.area.{axis}max + 1'
        if lo.endswith(suf_lo) and hi.endswith(suf_hi) and \
                lo[:-len(suf_lo)] == hi[:-len(suf_hi)]:
            return lo[:-len(suf_lo)]
        if lo == '0':
            return self.grid_of_extent(r.args[1], dim)
        return None

    def offsets_table(self, e: ast.AST) -> Optional[str]:
        """'pos' / 'pair' when `e` names a module-level table of the boundary offsets at the
        origin: tuple(get_manhattan_boundary(Position(0, 0), distance=1)) as positions, or
        projected to (y, x) pairs"""
        if not isinstance(e, ast.Name) or self.w.defs.get(e.id) or e.id in self.w.params:
            return None
        vals = self.module.assigns.get(e.id, [])
        if len(vals) != 1:
            return None
        v = vals[0]
        if isinstance(v, ast.Call) and src(v.func) in ('tuple', 'list') and len(v.args) == 1:
            v = v.args[0]

        def origin_boundary(c: ast.AST) -> bool:
            if not (isinstance(c, ast.Call) and src(c.func) == BOUNDARY):
                return False
            kw = {k.arg: src(k.value) for k in c.keywords}
            a = [src(x) for x in c.args]
            pos = a[0] if a else kw.get('position')
            dist = a[1] if len(a) > 1 else kw.get('distance')
            return pos == 'Position(0, 0)' and dist == '1'
        if origin_boundary(v):
            return 'pos'
        if isinstance(v, (ast.GeneratorExp, ast.ListComp)) and len(v.generators) == 1 and \
                not v.generators[0].ifs and isinstance(v.generators[0].target, ast.Name) and \
                origin_boundary(v.generators[0].iter):
            n = v.generators[0].target.id
            t = src(v.elt)
            if t == n:
                return 'pos'
            if t in (f'{n}.yx', f'({n}.y, {n}.x)'):
                return 'pair'
        return None

    # ------------------------------------------------------------------ the reader
    def read(self, e: ast.AST, depth: int = 6) -> Optional[Stream]:
        if depth < 0:
            return None
        if isinstance(e, ast.Name):
            d = self.w.single_def(e.id, outside_comps=True)
            if d is None or d[0] != 'value':
                return None
            return self.read(d[1], depth - 1)
        if isinstance(e, ast.Call) and src(e.func) in ('list', 'tuple') and len(e.args) == 1 \
                and not e.keywords:
            return self.read(e.args[0], depth - 1)
        # sources
        if isinstance(e, ast.Call) and isinstance(e.func, ast.Attribute) and \
                e.func.attr == 'positions' and not e.keywords and \
                (not e.args or src(e.args[0]) == "'all'"):
            base = self.ex(e.func.value)
            if isinstance(base, ast.Attribute) and base.attr == 'area':
                return Stream('cells', src(base.value), source='positions()')
            return None
        if isinstance(e, ast.Call) and src(e.func) == BOUNDARY:
            kw = {k.arg: k.value for k in e.keywords}
            pos = e.args[0] if e.args else kw.get('position')
            dist = e.args[1] if len(e.args) > 1 else kw.get('distance')
            extra = set(kw) - {'position', 'distance'}
            clip = self._boundary_clip_param()
            if pos is not None and dist is not None and src(self.ex(dist)) == '1' and \
                    extra <= ({clip} if clip else set()) and len(e.args) <= 2:
                st = Stream('nbrs', '', centre=src(self.ex(pos)), source=BOUNDARY)
                if clip in kw:
                    # the helper itself keeps only the cells of the area it is given
                    a = self.ex(kw[clip])
                    if not (isinstance(a, ast.Attribute) and a.attr == 'area'):
                        return None
                    st.grid = src(a.value)
                    st.filters.append(ast.parse(f'{st.grid}.area.contains(P)',
                                                mode='eval').body)
                    st.source = f'{BOUNDARY}(.., {clip}=..)'
                return st
            return None
        if not isinstance(e, (ast.ListComp, ast.GeneratorExp)):
            return None
        gens = e.generators
        mp: Dict[str, ast.AST] = {}
        st: Optional[Stream] = None
        if len(gens) == 1 and isinstance(gens[0].target, ast.Name):
            g = gens[0]
            inner = self.read(g.iter, depth - 1)
            if inner is not None:
                st = Stream(inner.kind, inner.grid, inner.centre, list(inner.filters),
                            inner.source)
                mp[g.target.id] = _P()
            else:
                kind = self.offsets_table(g.iter)
                if kind == 'pos':
                    # elements are `C + off`
                    st = self._translated(e.elt, g.target.id, None)
                    if st is None:
                        return None
                    conds = list(g.ifs)
                    return self._finish(st, _P(), conds, {})
        if st is None and len(gens) == 1 and isinstance(gens[0].target, ast.Tuple) and \
                len(gens[0].target.elts) == 2 and \
                all(isinstance(t, ast.Name) for t in gens[0].target.elts):
            g = gens[0]
            a, b = (t.id for t in g.target.elts)
            if self.offsets_table(g.iter) == 'pair':
                # `for dy, dx in TABLE`: element and conditions mention C.y + dy, C.x + dx
                return self._pair_direct(e.elt, list(g.ifs), a, b)
            # a stream of coordinate pairs produced by an inner generator
            inner_pairs = self._pair_stream(g.iter, depth - 1)
            if inner_pairs is not None:
                st = inner_pairs
                mp[a] = _attr(_P(), 'y')
                mp[b] = _attr(_P(), 'x')
        if st is None and len(gens) == 1 and isinstance(gens[0].target, ast.Tuple) and \
                len(gens[0].target.elts) == 2 and \
                all(isinstance(t, ast.Name) for t in gens[0].target.elts) and \
                isinstance(gens[0].iter, ast.Call) and src(gens[0].iter.func) == 'enumerate' \
                and len(gens[0].iter.args) == 1 and not gens[0].iter.keywords:
            # enumerate(<all cells of G, row after row>): the flat index i stands for the
            # position (i // width, i % width)
            g = gens[0]
            G = self._flat_cells(g.iter.args[0])
            if G is not None:
                i, obj = (t.id for t in g.target.elts)
                st = Stream('cells', G, source='enumerate(flattened rows)')
                mp[i] = ast.Name('_FLAT', ast.Load())
                mp[obj] = ast.Name('O', ast.Load())
        if st is None and len(gens) == 2 and all(not g.ifs for g in gens[:1]):
            g0, g1 = gens
            # range(height) x range(width)
            if isinstance(g0.target, ast.Name) and isinstance(g1.target, ast.Name) and \
                    all(isinstance(g.iter, ast.Call) and src(g.iter.func) == 'range'
                        and len(g.iter.args) in (1, 2) for g in gens):
                gy = self._range_grid(g0.iter, 'y')
                gx = self._range_grid(g1.iter, 'x')
                if gy is not None and gy == gx:
                    st = Stream('cells', gy, source='range(height) x range(width)')
                    mp[g0.target.id] = _attr(_P(), 'y')
                    mp[g1.target.id] = _attr(_P(), 'x')
            # enumerate(G.objects) x enumerate(row)
            if st is None and all(isinstance(g.target, ast.Tuple) and len(g.target.elts) == 2
                                  and all(isinstance(t, ast.Name) for t in g.target.elts)
                                  and isinstance(g.iter, ast.Call)
                                  and src(g.iter.func) == 'enumerate' and len(g.iter.args) == 1
                                  and not g.iter.keywords for g in gens):
                y, row = (t.id for t in g0.target.elts)
                x, obj = (t.id for t in g1.target.elts)
                rows = self.ex(g0.iter.args[0])
                if isinstance(rows, ast.Attribute) and rows.attr == 'objects' and \
                        src(g1.iter.args[0]) == row:
                    st = Stream('cells', src(rows.value), source='enumerate(rows)')
                    mp[y] = _attr(_P(), 'y')
                    mp[x] = _attr(_P(), 'x')
                    mp[obj] = ast.Name('O', ast.Load())
                    mp[row] = ast.Subscript(_attr(ast.parse(src(rows.value), mode='eval').body,
                                                  'objects'), _attr(_P(), 'y'), ast.Load())
        if st is None:
            return None
        conds = [c for g in gens for c in g.ifs]
        return self._finish(st, e.elt, conds, mp)

    def _boundary_clip_param(self) -> Optional[str]:
        """name of an optional parameter of get_manhattan_boundary (added after the pinned
        tree) under which the function returns only the boundary cells `<param>.contains`
        accepts, in the same order: `if area is not None: b = [p for p in b if
        area.contains(p)]` before the return, or that filter in the returned comprehension"""
        f = self.index.resolve_name(self.module, BOUNDARY)
        if f is None or not hasattr(f, 'node'):
            return None
        hit = getattr(self.index, '_boundary_clip', None)
        if hit is not None:
            return hit or None
        fn = f.node
        defaults = f.param_defaults()
        cands = [a.arg for a in fn.args.kwonlyargs + fn.args.args[2:]
                 if isinstance(defaults.get(a.arg), ast.Constant)
                 and defaults[a.arg].value is None]
        found = ''
        rets = [n for n in ast.walk(fn) if isinstance(n, ast.Return) and n.value is not None]
        for c in cands:
            uses = [n for n in ast.walk(fn) if isinstance(n, ast.Name) and n.id == c
                    and isinstance(n.ctx, ast.Load)]
            ok = len(rets) == 1 and isinstance(rets[0].value, ast.Name)
            if not ok:
                continue
            r = rets[0].value.id
            clips = [s_ for s_ in fn.body if isinstance(s_, ast.If) and not s_.orelse
                     and src(s_.test) == f'{c} is not None' and len(s_.body) == 1
                     and isinstance(s_.body[0], ast.Assign)
                     and src(s_.body[0].targets[0]) == r
                     and isinstance(s_.body[0].value, ast.ListComp)
                     and len(s_.body[0].value.generators) == 1
                     and src(s_.body[0].value.generators[0].iter) == r
                     and isinstance(s_.body[0].value.generators[0].target, ast.Name)
                     and src(s_.body[0].value.elt) == s_.body[0].value.generators[0].target.id
                     and [src(x) for x in s_.body[0].value.generators[0].ifs] ==
                     [f'{c}.contains({s_.body[0].value.generators[0].target.id})']]
            if len(clips) == 1 and len(uses) == 2 and fn.body.index(clips[0]) == \
                    fn.body.index(rets[0]) - 1:
                found = c
        try:
            self.index._boundary_clip = found
        except Exception:       # noqa: BLE001
            pass
        return found or None

    def _flat_cells(self, e: ast.AST) -> Optional[str]:
        """G when `e` lists the cells of G row after row: chain.from_iterable(G.objects),
        chain(*G.objects), (o for row in G.objects for o in row)"""
        if isinstance(e, ast.Name):
            d = self.w.single_def(e.id, outside_comps=True)
            if d is None or d[0] != 'value':
                return None
            e = d[1]
        rows = None
        if isinstance(e, ast.Call) and src(e.func).split('.')[-2:] == ['chain', 'from_iterable'] \
                and len(e.args) == 1 and not e.keywords:
            rows = e.args[0]
        elif isinstance(e, ast.Call) and src(e.func).split('.')[-1] == 'chain' and \
                len(e.args) == 1 and isinstance(e.args[0], ast.Starred) and not e.keywords:
            rows = e.args[0].value
        elif isinstance(e, (ast.GeneratorExp, ast.ListComp)) and len(e.generators) == 2 and \
                not any(g.ifs for g in e.generators) and \
                all(isinstance(g.target, ast.Name) for g in e.generators) and \
                src(e.generators[1].iter) == e.generators[0].target.id and \
                src(e.elt) == e.generators[1].target.id:
            rows = e.generators[0].iter
        if rows is None:
            return None
        rows = self.ex(rows)
        if isinstance(rows, ast.Attribute) and rows.attr == 'objects':
            return src(rows.value)
        return None

    def _pair_stream(self, e: ast.AST, depth: int) -> Optional[Stream]:
        """an inner generator of (y, x) pairs: `((C.y + dy, C.x + dx) for dy, dx in TABLE)`"""
        if isinstance(e, ast.Name):
            d = self.w.single_def(e.id)
            if d is None or d[0] != 'value':
                return None
            e = d[1]
        if not (isinstance(e, (ast.GeneratorExp, ast.ListComp)) and len(e.generators) == 1
                and not e.generators[0].ifs):
            return None
        g = e.generators[0]
        if not (isinstance(g.target, ast.Tuple) and len(g.target.elts) == 2
                and all(isinstance(t, ast.Name) for t in g.target.elts)
                and self.offsets_table(g.iter) == 'pair'
                and isinstance(e.elt, ast.Tuple) and len(e.elt.elts) == 2):
            return None
        a, b = (t.id for t in g.target.elts)
        cy = self._plus(e.elt.elts[0], a, 'y')
        cx = self._plus(e.elt.elts[1], b, 'x')
        if cy is None or cy != cx:
            return None
        return Stream('nbrs', '', centre=cy, source='offset table (pairs)')

    def _plus(self, e: ast.AST, off: str, axis: str) -> Optional[str]:
        """C when `e` is `C.<axis> + off` (either order), after expansion"""
        e = self.ex(e, stop=[off])
        if isinstance(e, ast.BinOp) and isinstance(e.op, ast.Add):
            for l, r in ((e.left, e.right), (e.right, e.left)):
                if src(r) == off and isinstance(l, ast.Attribute) and l.attr == axis:
                    return src(l.value)
        return None

    def _pair_direct(self, elt: ast.AST, conds: List[ast.AST], dy: str, dx: str
                     ) -> Optional[Stream]:
        centres = set()
        reader = self

        class T(ast.NodeTransformer):
            def visit_BinOp(self, n: ast.BinOp):
                self.generic_visit(n)
                if isinstance(n.op, ast.Add):
                    for l, r in ((n.left, n.right), (n.right, n.left)):
                        if isinstance(r, ast.Name) and r.id in (dy, dx) and \
                                isinstance(l, ast.Attribute) and \
                                l.attr == ('y' if r.id == dy else 'x'):
                            centres.add(src(l.value))
                            return _attr(_P(), l.attr)
                return n
        elt2 = T().visit(copy.deepcopy(self.ex(elt, stop=[dy, dx])))
        conds2 = [T().visit(copy.deepcopy(self.ex(c, stop=[dy, dx]))) for c in conds]
        if len(centres) != 1:
            return None
        used = {n.id for x in [elt2] + conds2 for n in ast.walk(x) if isinstance(n, ast.Name)}
        if dy in used or dx in used:
            return None
        st = Stream('nbrs', '', centre=next(iter(centres)), source='offset table (pairs)')
        return self._finish(st, elt2, conds2, {})

    def _translated(self, elt: ast.AST, off: Optional[str], pair: Optional[Tuple[str, str]],
                    conds=()) -> Optional[Stream]:
        """the stream whose elements are the centre translated by a table offset"""
        x = self.ex(elt, stop=[off] if off else list(pair or ()))
        if off is not None:
            if isinstance(x, ast.BinOp) and isinstance(x.op, ast.Add):
                for l, r in ((x.left, x.right), (x.right, x.left)):
                    if src(r) == off:
                        return Stream('nbrs', '', centre=src(l), source='offset table')
            return None
        return None

    # ------------------------------------------------------------------ canonical conditions
    def _finish(self, st: Stream, elt: ast.AST, conds: List[ast.AST], mp: Dict[str, ast.AST]
                ) -> Optional[Stream]:
        sub = _Subst(mp)
        elt2 = self._canon(sub.visit(copy.deepcopy(self.ex(elt, stop=list(mp)))), st)
        if src(elt2) != 'P':
            return None
        out = list(st.filters)
        for c in conds:
            c2 = self._canon(sub.visit(copy.deepcopy(self.ex(c, stop=list(mp)))), st)
            out += self._conjuncts(c2)
        out = [f for c in out for f in self._conjuncts(self._fold(c))
               if not (isinstance(f, ast.Constant) and f.value is True)]
        out = self._merge_bounds(out, st)
        if not st.grid:
            for c in out:
                t = src(c)
                if t.endswith('.area.contains(P)'):
                    st.grid = t[:-len('.area.contains(P)')]
                    out = [self._canon(c_, st) for c_ in out]
                    break
        return Stream(st.kind, st.grid, st.centre, out, st.source)

    def _fold(self, e: ast.AST) -> ast.AST:
        """`Cls is None` is False (a substituted default: `object_type is None or ..` with a
        class passed); constant operands of and / or / not are folded away"""
        from .index import Cls
        reader = self

        class T(ast.NodeTransformer):
            def visit_Compare(self, n: ast.Compare):
                self.generic_visit(n)
                if len(n.ops) == 1 and isinstance(n.ops[0], (ast.Is, ast.IsNot)) and \
                        isinstance(n.comparators[0], ast.Constant) and \
                        n.comparators[0].value is None and isinstance(n.left, ast.Name) and \
                        isinstance(reader.index.resolve_name(reader.module, n.left.id), Cls):
                    return ast.Constant(isinstance(n.ops[0], ast.IsNot))
                return n

            def visit_UnaryOp(self, n: ast.UnaryOp):
                self.generic_visit(n)
                if isinstance(n.op, ast.Not) and isinstance(n.operand, ast.Constant) and \
                        isinstance(n.operand.value, bool):
                    return ast.Constant(not n.operand.value)
                return n

            def visit_BoolOp(self, n: ast.BoolOp):
                self.generic_visit(n)
                absorbing = isinstance(n.op, ast.Or)
                vals = []
                for v in n.values:
                    if isinstance(v, ast.Constant) and isinstance(v.value, bool):
                        if v.value == absorbing:
                            return ast.Constant(absorbing)
                        continue
                    vals.append(v)
                if not vals:
                    return ast.Constant(not absorbing)
                return vals[0] if len(vals) == 1 else ast.BoolOp(n.op, vals)
        return ast.fix_missing_locations(T().visit(copy.deepcopy(e)))

    @staticmethod
    def _conjuncts(c: ast.AST) -> List[ast.AST]:
        if isinstance(c, ast.BoolOp) and isinstance(c.op, ast.And):
            return [x for v in c.values for x in StreamReader._conjuncts(v)]
        return [c]

    def _canon(self, e: ast.AST, st: Stream) -> ast.AST:
        """Position(P.y, P.x) -> P; every spelling of the cell under P -> O"""
        reader = self

        class T(ast.NodeTransformer):
            def visit_Call(self, n: ast.Call):
                self.generic_visit(n)
                if src(n.func) == 'Position' and [src(a) for a in n.args] == ['P.y', 'P.x'] \
                        and not n.keywords:
                    return _P()
                if src(n.func) == 'Position' and not n.keywords and \
                        any(isinstance(x, ast.Name) and x.id == '_FLAT' for x in ast.walk(n)):
                    # Position(*divmod(i, D)) / Position(i // D, i % D) of a flat index
                    divs = None
                    if len(n.args) == 1 and isinstance(n.args[0], ast.Starred) and \
                            isinstance(n.args[0].value, ast.Call) and \
                            src(n.args[0].value.func) == 'divmod' and \
                            len(n.args[0].value.args) == 2 and \
                            src(n.args[0].value.args[0]) == '_FLAT':
                        divs = [n.args[0].value.args[1]] * 2
                    elif len(n.args) == 2 and all(
                            isinstance(a, ast.BinOp) and src(a.left) == '_FLAT'
                            for a in n.args) and isinstance(n.args[0].op, ast.FloorDiv) and \
                            isinstance(n.args[1].op, ast.Mod):
                        divs = [n.args[0].right, n.args[1].right]
                    if divs is not None:
                        owners = [reader.grid_of_extent(d, 'width') for d in divs]
                        if all(o == st.grid for o in owners):
                            return _P()
                        reader.problems.append(
                            f'the flat index over the rows of `{st.grid}` is decoded with '
                            f'`{src(divs[0])}`; row-major cells are (i // width, i % width)')
                return n

            def visit_Subscript(self, n: ast.Subscript):
                self.generic_visit(n)
                s = src(n)
                g = st.grid
                if g and s in (f'{g}[P]', f'{g}[P.y, P.x]', f'{g}[(P.y, P.x)]',
                               f'{g}.objects[P.y][P.x]', f'{g}[P.yx]'):
                    return ast.Name('O', ast.Load())
                return n
        out = T().visit(copy.deepcopy(e))
        return ast.fix_missing_locations(out)

    def _merge_bounds(self, conds: List[ast.AST], st: Stream) -> List[ast.AST]:
        """`0 <= P.y < G.shape.height` and `0 <= P.x < G.shape.width` together are
        `G.area.contains(P)`; for a stream of neighbours the grid is learnt from them"""
        ys, xs, rest = [], [], []
        for c in conds:
            k = self._bound(c)
            if k is not None and k[0] == 'y':
                ys.append((c, k[1]))
            elif k is not None and k[0] == 'x':
                xs.append((c, k[1]))
            else:
                rest.append(c)
        if len(ys) == 1 and len(xs) == 1 and ys[0][1] == xs[0][1]:
            g = ys[0][1]
            if not st.grid:
                st.grid = g
            if st.grid == g:
                cont = ast.parse(f'{g}.area.contains(P)', mode='eval').body
                rest = [cont] + [self._canon(r, st) for r in rest]
                return rest
        return conds

    def _bound(self, c: ast.AST) -> Optional[Tuple[str, str]]:
        if isinstance(c, ast.Compare) and len(c.ops) == 2 and \
                all(isinstance(o, ast.LtE) for o in c.ops) and \
                src(c.comparators[0]) in ('P.y', 'P.x'):
            axis = src(c.comparators[0])[-1]
            lo, hi = src(self.ex(c.left)), src(self.ex(c.comparators[1]))
            suf_lo, suf_hi = f'.area.{axis}min', f'.area.{axis}max'
            if lo.endswith(suf_lo) and hi.endswith(suf_hi) and \
                    lo[:-len(suf_lo)] == hi[:-len(suf_hi)]:
                return axis, lo[:-len(suf_lo)]
        if isinstance(c, ast.Compare) and len(c.ops) == 2 and \
                isinstance(c.ops[0], ast.LtE) and isinstance(c.ops[1], ast.Lt) and \
                src(c.left) == '0' and src(c.comparators[0]) in ('P.y', 'P.x'):
            axis = src(c.comparators[0])[-1]
            g = self.grid_of_extent(c.comparators[1], 'height' if axis == 'y' else 'width')
            if g is not None:
                return axis, g
        return None


def st_elt(st: Stream) -> ast.AST:
    return _P()


def st_conds(st: Stream):
    return []
