"""E3 finite world model for guards.

Guards extracted by `guards.py` are evaluated in *worlds*: total assignments to a finite
set of variables discovered from the formulas themselves --

  action            one of the members of `Action`
  kind(<term>)      the (class, status) of the grid object denoted by a term
  inside(<pos>)     whether a position term lies in the grid
  eq(<a>, <b>)      equality of two opaque terms (colours, positions)
  ord(<a>, <b>)     'lt' | 'eq' | 'gt' for order comparisons of two opaque terms
  isinst(<t>, <p>)  isinstance of a term w.r.t. a *parameter* holding a class
  nonempty(<seq>)   truthiness / emptiness of a sequence term
  opaque(<text>)    anything else (free boolean)

Everything is evaluated on the *extracted formulas*, never on the code; the class flag
table (`blocks_movement`, `holdable`, ...) is itself extracted from grid_object.py.
"""
from __future__ import annotations

import ast
import itertools
from typing import Any, Callable, Dict, Iterable, List, Optional, Sequence, Tuple

from .core import AnalysisError, src
from .index import Cls, RepoIndex

GO_FILE = 'gym_gridverse/grid_object.py'
ACTION_FILE = 'gym_gridverse/action.py'


class Unknown:
    """value the evaluator cannot interpret"""

    def __init__(self, text: str):
        self.text = text

    def __repr__(self):
        return f'?{self.text}'


class Kind:
    __slots__ = ('cls', 'status')

    def __init__(self, cls: str, status: Optional[str]):
        self.cls = cls
        self.status = status

    def __eq__(self, o):
        return isinstance(o, Kind) and (self.cls, self.status) == (o.cls, o.status)

    def __hash__(self):
        return hash((self.cls, self.status))

    def __repr__(self):
        return f'{self.cls}' + (f'[{self.status}]' if self.status else '')


class ObjectModel:
    """grid-object classes, their literal flags and status-dependent properties"""

    FLAGS = ('blocks_movement', 'blocks_vision', 'holdable', 'is_open', 'is_locked')

    def __init__(self, index: RepoIndex):
        self.index = index
        m = index.module(GO_FILE)
        self.classes: Dict[str, Cls] = {}
        for c in m.classes.values():
            if c.name != 'GridObject' and index.is_subclass(c, 'GridObject'):
                self.classes[c.name] = c
        if len(self.classes) < 11:
            raise AnalysisError(
                f'{GO_FILE}: found {len(self.classes)} GridObject subclasses, floor is 11')
        self.order = [c for c in m.classes if c in self.classes]  # registration order
        self.status = index.enum('Door.Status')
        self.kinds: List[Kind] = []
        for name in self.order:
            if self._has_status(name):
                for s in self.status.order:
                    self.kinds.append(Kind(name, s))
            else:
                self.kinds.append(Kind(name, None))

    def _has_status(self, name: str) -> bool:
        c = self.classes[name]
        return 'state' in {t.target.id for t in c.node.body
                           if isinstance(t, ast.AnnAssign) and isinstance(t.target, ast.Name)} \
            or any(isinstance(n, ast.Attribute) and n.attr == 'state'
                   and isinstance(n.value, ast.Name) and n.value.id == 'self'
                   for n in ast.walk(c.node))

    def type_index(self, name: str) -> int:
        return self.order.index(name)

    def num_states(self, name: str) -> Optional[int]:
        c = self.classes[name]
        f = c.methods.get('num_states')
        if f is None:
            return None
        body = f.body()
        if len(body) == 1 and isinstance(body[0], ast.Return):
            v = body[0].value
            if isinstance(v, ast.Constant) and isinstance(v.value, int):
                return v.value
            if isinstance(v, ast.Call) and src(v.func) == 'len' and len(v.args) == 1:
                e = self.index.enums.get(src(v.args[0]))
                if e is not None:
                    return len(e.members)
        return None

    def classmethod_bool(self, name: str, meth: str) -> Optional[bool]:
        f = self.classes[name].methods.get(meth)
        if f is None:
            return None
        body = f.body()
        if len(body) == 1 and isinstance(body[0], ast.Return) \
                and isinstance(body[0].value, ast.Constant):
            return bool(body[0].value.value)
        return None

    def flag(self, kind: Kind, name: str):
        """value of a boolean attribute/property of an object of this kind"""
        c = self.classes.get(kind.cls)
        if c is None:
            return Unknown(f'{kind.cls}.{name}')
        if name in c.attrs:
            v = c.attrs[name]
            if isinstance(v, ast.Constant):
                return v.value
            return Unknown(f'{kind.cls}.{name}')
        f = c.methods.get(name)
        if f is not None and f.is_property():
            body = f.body()
            if len(body) == 1 and isinstance(body[0], ast.Return):
                return self._self_expr(kind, body[0].value)
            return Unknown(f'{kind.cls}.{name}')
        if name in ('is_open', 'is_locked'):
            raise AttributeErrorInModel(f'{kind.cls} has no attribute {name}')
        return Unknown(f'{kind.cls}.{name}')

    def _self_expr(self, kind: Kind, e: ast.AST):
        if isinstance(e, ast.Constant):
            return e.value
        if isinstance(e, ast.UnaryOp) and isinstance(e.op, ast.Not):
            v = self._self_expr(kind, e.operand)
            return v if isinstance(v, Unknown) else (not v)
        if isinstance(e, ast.BoolOp):
            vals = [self._self_expr(kind, v) for v in e.values]
            if any(isinstance(v, Unknown) for v in vals):
                return Unknown(src(e))
            return all(vals) if isinstance(e.op, ast.And) else any(vals)
        if isinstance(e, ast.Attribute) and isinstance(e.value, ast.Name) and e.value.id == 'self':
            return self.flag(kind, e.attr)
        if isinstance(e, ast.Compare) and len(e.ops) == 1 and \
                isinstance(e.ops[0], (ast.Is, ast.Eq, ast.IsNot, ast.NotEq)):
            l, r = e.left, e.comparators[0]
            for a, b in ((l, r), (r, l)):
                if src(a) == 'self.state':
                    em = self.index.enum_member(b)
                    if em and em[0] == 'Door.Status':
                        res = kind.status == em[1]
                        return res if isinstance(e.ops[0], (ast.Is, ast.Eq)) else not res
        return Unknown(src(e))

    def isinstance(self, kind: Kind, typename: str) -> bool:
        if typename == 'GridObject':
            return True
        c = self.classes.get(kind.cls)
        return c is not None and self.index.is_subclass(c, typename)


class AttributeErrorInModel(Exception):
    pass


class OutOfGrid(Exception):
    def __init__(self, term):
        super().__init__(term)
        self.term = term


class World:
    def __init__(self, vals: Dict[Tuple, Any]):
        self.vals = vals

    def __repr__(self):
        return '{' + ', '.join(f'{k[0]}({", ".join(map(str, k[1:]))})={v}'
                               for k, v in sorted(self.vals.items(), key=str)) + '}'


class NeedVar(Exception):
    def __init__(self, key, domain):
        self.key = key
        self.domain = domain


class Evaluator:
    """evaluates expanded, role-renamed formulas/expressions in a world"""

    def __init__(self, index: RepoIndex, om: Optional[ObjectModel] = None,
                 always_inside: Iterable[str] = ('S.agent.position', 'N.agent.position'),
                 action_name: str = 'A', class_params: Iterable[str] = ()):
        self.index = index
        self.om = om or ObjectModel(index)
        self.actions = index.enum('Action')
        self.always_inside = set(always_inside)
        self.action_name = action_name
        self.class_params = set(class_params)
        self.inside_positions: Dict[str, str] = {}   # cell term -> position term
        self.action_tables = self._action_tables()

    def _action_tables(self) -> Dict[str, List[str]]:
        """module-level sets/dicts keyed by Action members, by name"""
        out: Dict[str, List[str]] = {}
        for m in self.index.modules.values():
            for name, vals in m.assigns.items():
                if len(vals) != 1:
                    continue
                v = vals[0]
                elts = None
                if isinstance(v, (ast.Set, ast.Tuple, ast.List)):
                    elts = v.elts
                elif isinstance(v, ast.Dict):
                    elts = v.keys
                if not elts:
                    continue
                ms = [self.index.enum_member(e) for e in elts]
                if all(x and x[0] == 'Action' for x in ms):
                    out[name] = [x[1] for x in ms]
        return out

    # ----------------------------------------------------------- var access
    def var(self, w: World, key: Tuple, domain: Sequence):
        if key not in w.vals:
            raise NeedVar(key, list(domain))
        return w.vals[key]

    # ------------------------------------------------------------- formulas
    def holds(self, f, w: World) -> bool:
        k = f[0]
        if k == 'true':
            return True
        if k == 'false':
            return False
        if k == 'not':
            return not self.holds(f[1], w)
        if k == 'and':
            return all(self.holds(x, w) for x in f[1:])
        if k == 'or':
            return any(self.holds(x, w) for x in f[1:])
        if k == 'iter':
            return True
        if k == 'raises':
            return bool(self.var(w, ('raises', f[1], src(f[2].body[0])), (False, True)))
        if k == 'atom':
            v = self.value(f[1], w)
            if isinstance(v, Unknown):
                return bool(self.var(w, ('opaque', v.text), (False, True)))
            if isinstance(v, Kind):
                return True
            return bool(v)
        raise AnalysisError(f'unknown formula node {k}')

    # ---------------------------------------------------------- expressions
    def value(self, e: ast.AST, w: World):
        s = src(e)
        # boolean structure inside an expression
        if isinstance(e, ast.UnaryOp) and isinstance(e.op, ast.Not):
            v = self.value(e.operand, w)
            if isinstance(v, Unknown):
                return not bool(self.var(w, ('opaque', v.text), (False, True)))
            return not self._truth(v)
        if isinstance(e, ast.BoolOp):
            res = None
            for v_ in e.values:
                v = self.value(v_, w)
                t = bool(self.var(w, ('opaque', v.text), (False, True))) \
                    if isinstance(v, Unknown) else self._truth(v)
                if isinstance(e.op, ast.And) and not t:
                    return False
                if isinstance(e.op, ast.Or) and t:
                    return True
                res = t
            return res
        if isinstance(e, ast.IfExp):
            c = self.value(e.test, w)
            t = bool(self.var(w, ('opaque', c.text), (False, True))) \
                if isinstance(c, Unknown) else self._truth(c)
            return self.value(e.body if t else e.orelse, w)
        if isinstance(e, ast.Constant):
            return e.value
        em = self.index.enum_member(e)
        if em is not None:
            return ('enum',) + em
        if isinstance(e, ast.Name):
            if e.id == self.action_name:
                return ('enum', 'Action', self.var(w, ('action',), self.actions.order))
            return Unknown(s)
        if isinstance(e, ast.Compare):
            return self._compare(e, w)
        if isinstance(e, ast.Call):
            return self._call(e, w)
        if isinstance(e, ast.Subscript):
            return self._cell(e, w)
        if isinstance(e, ast.Attribute):
            if e.attr == 'grid_object' and src(e.value).endswith('.agent'):
                return self.var(w, ('kind', s), self.om.kinds)
            base = self.value(e.value, w)
            if isinstance(base, Kind):
                if e.attr in ObjectModel.FLAGS:
                    try:
                        return self.om.flag(base, e.attr)
                    except AttributeErrorInModel:
                        return Unknown(f'attribute-error:{s}')
                if e.attr == 'color':
                    return ('term', f'color({src(e.value)})')
                if e.attr in ('state',):
                    return ('enum', 'Door.Status', base.status) if base.status else Unknown(s)
                return Unknown(s)
            return Unknown(s)
        return Unknown(s)

    def _truth(self, v) -> bool:
        if isinstance(v, Kind):
            return True
        if isinstance(v, tuple):
            return True
        return bool(v)

    def _cell(self, e: ast.Subscript, w: World):
        """G.grid[P] -> kind variable; reading it outside the grid raises OutOfGrid"""
        s = src(e)
        base = src(e.value)
        if base.endswith('.grid') or base in ('G', 'grid'):
            p = src(e.slice)
            if p not in self.always_inside and not self._from_positions(p):
                ins = self.var(w, ('inside', p), (True, False))
                if not ins:
                    raise OutOfGrid(s)
            return self.var(w, ('kind', s), self.om.kinds)
        return Unknown(s)

    def _from_positions(self, p: str) -> bool:
        return p in self.always_inside

    def _call(self, e: ast.Call, w: World):
        s = src(e)
        f = e.func
        if isinstance(f, ast.Name) and f.id == 'isinstance' and len(e.args) == 2:
            obj = self.value(e.args[0], w)
            t = e.args[1]
            if isinstance(obj, Kind):
                names = [x for x in (t.elts if isinstance(t, ast.Tuple) else [t])]
                res = False
                for n in names:
                    ns = src(n)
                    if ns in self.om.classes or ns == 'GridObject':
                        res = res or self.om.isinstance(obj, ns)
                    else:
                        # a parameter (or anything else) holding a class
                        res = res or bool(self.var(
                            w, ('isinst', src(e.args[0]), ns), (False, True)))
                return res
            if src(e.args[0]).endswith('.orientation') and src(t) == 'Orientation':
                return True
            return Unknown(s)
        if isinstance(f, ast.Attribute):
            recv = src(f.value)
            if f.attr == 'contains' and recv.endswith('.area') and len(e.args) == 1:
                p = src(e.args[0])
                if p in self.always_inside:
                    return True
                return bool(self.var(w, ('inside', p), (True, False)))
            if recv == self.action_name and f.attr in ('is_move', 'is_turn') and not e.args:
                fn = self.index.func(ACTION_FILE, f'Action.{f.attr}')
                body = fn.body()
                if len(body) == 1 and isinstance(body[0], ast.Return):
                    r = body[0].value
                    if isinstance(r, ast.Compare) and len(r.ops) == 1 and \
                            isinstance(r.ops[0], ast.In) and src(r.left) == 'self':
                        tab = self.action_tables.get(src(r.comparators[0]))
                        if tab is not None:
                            a = self.var(w, ('action',), self.actions.order)
                            return a in tab
                return Unknown(s)
        if isinstance(f, ast.Name) and f.id == 'len' and len(e.args) == 1:
            return ('len', src(e.args[0]))
        if isinstance(f, ast.Name) and f.id == 'bool' and len(e.args) == 1:
            v = self.value(e.args[0], w)
            return v if isinstance(v, (bool, Unknown)) else self._truth(v)
        return Unknown(s)

    def _members(self, e: ast.AST) -> Optional[List[Tuple]]:
        if isinstance(e, (ast.Set, ast.Tuple, ast.List)):
            ms = [self.index.enum_member(x) for x in e.elts]
            if all(ms):
                return [('enum',) + m for m in ms]
        if isinstance(e, ast.Name) and e.id in self.action_tables:
            return [('enum', 'Action', a) for a in self.action_tables[e.id]]
        return None

    def _compare(self, e: ast.Compare, w: World):
        s = src(e)
        if len(e.ops) != 1:
            return Unknown(s)
        op = e.ops[0]
        l, r = e.left, e.comparators[0]
        if isinstance(op, (ast.In, ast.NotIn)):
            lv = self.value(l, w)
            ms = self._members(r)
            if ms is not None and isinstance(lv, tuple) and lv[0] == 'enum':
                res = lv in ms
                return res if isinstance(op, ast.In) else not res
            return Unknown(s)
        lv, rv = self.value(l, w), self.value(r, w)
        if isinstance(op, (ast.Is, ast.Eq, ast.IsNot, ast.NotEq)):
            pos = isinstance(op, (ast.Is, ast.Eq))
            if isinstance(lv, tuple) and isinstance(rv, tuple) and lv[0] == rv[0] == 'enum':
                return (lv == rv) == pos
            if isinstance(lv, bool) and isinstance(rv, bool):
                return (lv == rv) == pos
            if isinstance(lv, bool) and isinstance(rv, Unknown) or \
                    isinstance(rv, bool) and isinstance(lv, Unknown):
                u, b = (rv, lv) if isinstance(lv, bool) else (lv, rv)
                t = bool(self.var(w, ('opaque', u.text), (False, True)))
                return (t == b) == pos
            if isinstance(lv, tuple) and lv[0] == 'len' and isinstance(rv, int):
                if rv == 0:
                    ne = bool(self.var(w, ('nonempty', lv[1]), (True, False)))
                    return (not ne) == pos
            if rv is None or lv is None:
                other = l if rv is None else r
                ov = lv if rv is None else rv
                if isinstance(ov, Unknown):
                    isnone = bool(self.var(w, ('isnone', src(other)), (False, True)))
                    return isnone == pos
                return (ov is None) == pos
            a, b = sorted([self._termkey(l, lv), self._termkey(r, rv)])
            if a == b:
                return pos
            eq = bool(self.var(w, ('eq', a, b), (True, False)))
            return eq == pos
        if isinstance(op, (ast.Lt, ast.Gt, ast.LtE, ast.GtE)):
            if isinstance(lv, tuple) and lv[0] == 'len' and isinstance(rv, int):
                ne = bool(self.var(w, ('nonempty', lv[1]), (True, False)))
                if isinstance(op, ast.Gt) and rv == 0:
                    return ne
                if isinstance(op, ast.GtE) and rv == 1:
                    return ne
                if isinstance(op, ast.Lt) and rv == 1:
                    return not ne
                if isinstance(op, ast.LtE) and rv == 0:
                    return not ne
                return Unknown(s)
            if isinstance(lv, (int, float)) and isinstance(rv, (int, float)) \
                    and not isinstance(lv, bool):
                return {ast.Lt: lv < rv, ast.Gt: lv > rv, ast.LtE: lv <= rv,
                        ast.GtE: lv >= rv}[type(op)]
            a, b = self._termkey(l, lv), self._termkey(r, rv)
            flip = a > b
            if flip:
                a, b = b, a
            o = self.var(w, ('ord', a, b), ('lt', 'eq', 'gt'))
            if flip:
                o = {'lt': 'gt', 'gt': 'lt', 'eq': 'eq'}[o]
            return {ast.Lt: o == 'lt', ast.Gt: o == 'gt', ast.LtE: o in ('lt', 'eq'),
                    ast.GtE: o in ('gt', 'eq')}[type(op)]
        return Unknown(s)

    def _termkey(self, e: ast.AST, v) -> str:
        if isinstance(v, tuple) and v[0] == 'term':
            return v[1]
        if isinstance(v, tuple) and v[0] == 'enum':
            return f'{v[1]}.{v[2]}'
        if isinstance(v, (int, float, str)) and not isinstance(v, bool):
            return repr(v)
        return src(e)

    # ------------------------------------------------------------ enumerate
    def worlds(self, probe: Callable[[World], Any], limit: int = 400000) -> List[World]:
        """all worlds over the variables `probe` touches: a decision-tree enumeration that
        branches on a variable only on the paths where the evaluation actually reads it"""
        out: List[World] = []
        vals: Dict[Tuple, Any] = {}

        def rec() -> None:
            if len(out) > limit:
                raise AnalysisError(f'world model too large (> {limit} worlds)')
            w = World(dict(vals))
            try:
                probe(w)
            except NeedVar as nv:
                for v in nv.domain:
                    vals[nv.key] = v
                    rec()
                del vals[nv.key]
                return
            except OutOfGrid:
                pass
            out.append(w)

        rec()
        return out

    def touch(self, f, w: World) -> None:
        """evaluate every atom of a formula (no short-circuit) so that all its variables are
        part of the world"""
        from .guards import atoms_of
        for a in atoms_of(f):
            try:
                self.holds(('atom', a), w)
            except OutOfGrid:
                pass
