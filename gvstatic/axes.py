"""E14 axis typing: a dimension analysis that keeps row quantities and column quantities apart.

Every integer the library handles on a grid is a *row* quantity (y, ymin, ymax, height, a row
index) or a *column* quantity (x, xmin, xmax, width, a column index), or neither.  The kinds
are inferred by a flow-insensitive dataflow inside each function (joined over all
assignments of a name), through tuples, iterables, comprehensions and -- context-sensitively,
by re-analysing the callee with the kinds of the actual arguments -- through calls of
repository functions.  Sources are attribute names (`.y`, `.xmin`, `.height`, `.yx`,
`.shape` ...) and the axis-named parameters of a signature.  Sinks say which kind is
expected: `grid[a, b]`, `objects[a][b]`, `array[a, b]` for arrays allocated with a
(height, width) shape, `Position(a, b)`, `Area((a, b), (c, d))`, `Shape(a, b)`, the
axis-named parameters of repository functions, and `min` / `max` / ordering comparisons
(which must not mix the two kinds).

Only *definite contradictions* are reported: the expected kind is row and the inferred kind
is column (or the reverse).  Unknown, neutral and mixed kinds never alarm, so a value the
analysis does not understand cannot produce a report.  The code whose purpose is to exchange
the axes (the rotation operators of geometry.py and the grid rotations) is exempt; it is
decided denotationally by C18."""
from __future__ import annotations

import ast
import re
from typing import Any, Dict, List, Optional, Tuple

from .core import src
from .index import Cls, Func, Module, RepoIndex

R, C, N, U, M = 'R', 'C', 'N', '?', 'M'

ROW_ATTRS = {'y', 'ymin', 'ymax', 'height', 'ys'}
COL_ATTRS = {'x', 'xmin', 'xmax', 'width', 'xs'}
ROW_PARAM = re.compile(r'^(y|ys|y\d|y_[a-z0-9_]+|[a-z0-9_]+_ys?|height|ymin|ymax|rows?|'
                       r'num_rows)$')
COL_PARAM = re.compile(r'^(x|xs|x\d|x_[a-z0-9_]+|[a-z0-9_]+_xs?|width|xmin|xmax|cols?|columns?|'
                       r'num_cols|num_columns)$')
SCALAR_PASS = {'int', 'float', 'round', 'math.floor', 'math.ceil', 'np.floor', 'np.ceil',
               'np.round', 'np.asarray', 'np.array', 'bool'}
# a magnitude is a length, commensurable across axes (Chebyshev / Manhattan distances)
MAGNITUDES = {'abs', 'np.abs', 'numpy.abs', 'math.fabs', 'np.absolute'}
ITER_PASS = {'list', 'tuple', 'sorted', 'reversed', 'set', 'frozenset', 'iter', 'np.sort',
             'np.unique', 'np.asarray', 'np.array'}
EXEMPT_FILES_FUNCS = {
    ('gym_gridverse/geometry.py', 'Orientation.__mul__'),
    ('gym_gridverse/geometry.py', 'Orientation.__rmul__'),
}


def join(a, b):
    if a == b:
        return a
    if a in (N, U) or a is None:
        return b
    if b in (N, U) or b is None:
        return a
    if isinstance(a, tuple) and isinstance(b, tuple) and a[0] == b[0]:
        if a[0] == 'T' and len(a[1]) == len(b[1]):
            return ('T', tuple(join(x, y) for x, y in zip(a[1], b[1])))
        if a[0] == 'I':
            return ('I', join(a[1], b[1]))
    if isinstance(a, tuple) or isinstance(b, tuple):
        return U
    return M


def scalar(k) -> Optional[str]:
    return k if k in (R, C) else None


def opposite(k: str) -> str:
    return C if k == R else R


class Finding:
    def __init__(self, func: Func, node: ast.AST, what: str):
        self.func, self.node, self.what = func, node, what
        self.line = getattr(node, 'lineno', func.node.lineno)


class AxisAnalysis:
    def __init__(self, index: RepoIndex):
        self.index = index
        self._summaries: Dict[Tuple, Any] = {}
        self._active: set = set()
        self.findings: List[Finding] = []
        self._seen: set = set()
        self.n_sinks = 0
        self.exempt = self._exempt()

    # ------------------------------------------------------------ exemptions
    def _exempt(self) -> set:
        out = set()
        ix = self.index
        for rel, name in EXEMPT_FILES_FUNCS:
            try:
                out.add(id(ix.func(rel, name).node))
            except Exception:      # noqa: BLE001 - a vanished operator is C18's business
                pass
        # helpers reachable from Orientation.__mul__ inside geometry.py, and grid rotations
        try:
            mod = ix.module('gym_gridverse/geometry.py')
            mul = ix.func('gym_gridverse/geometry.py', 'Orientation.__mul__')
            work = [mul.node]
            seen = set()
            while work:
                n = work.pop()
                for c in ast.walk(n):
                    if isinstance(c, ast.Call) and isinstance(c.func, ast.Name) and \
                            c.func.id in mod.functions and c.func.id not in seen:
                        seen.add(c.func.id)
                        out.add(id(mod.functions[c.func.id].node))
                        work.append(mod.functions[c.func.id].node)
            # tables of rotation functions
            for nm, vals in mod.assigns.items():
                if 'rotation' in nm:
                    for v in vals:
                        for x in ast.walk(v):
                            if isinstance(x, ast.Name) and x.id in mod.functions:
                                out.add(id(mod.functions[x.id].node))
        except Exception:          # noqa: BLE001
            pass
        try:
            gmod = ix.module('gym_gridverse/grid.py')
            for nm, f in gmod.functions.items():
                if 'rotate' in nm or 'transpose' in nm or 'flip' in nm:
                    out.add(id(f.node))
        except Exception:          # noqa: BLE001
            pass
        return out

    # --------------------------------------------------------------- driver
    def check_function(self, f: Func) -> None:
        if id(f.node) in self.exempt:
            return
        self.analyse(f, None, report=True)

    def param_kinds(self, f: Func, args: Optional[Dict[str, Any]]) -> Dict[str, Any]:
        env: Dict[str, Any] = {}
        a = f.node.args
        for p in a.posonlyargs + a.args + a.kwonlyargs:
            k = None
            if ROW_PARAM.match(p.arg):
                k = R
            elif COL_PARAM.match(p.arg):
                k = C
            if args and p.arg in args and args[p.arg] not in (None, U):
                given = args[p.arg]
                # an iterable / tuple argument keeps its structure
                k = given if k is None or isinstance(given, tuple) else k
            if k is not None:
                env[p.arg] = k
        return env

    def analyse(self, f: Func, args: Optional[Dict[str, Any]], report: bool = False):
        """return kind of f for the given argument kinds (None: only the naming beliefs)"""
        key = (id(f.node), repr(sorted((args or {}).items(), key=str)))
        if key in self._summaries and not report:
            return self._summaries[key]
        if key in self._active or len(self._active) > 4:
            return U
        self._active.add(key)
        try:
            w = _Walker(self, f, self.param_kinds(f, args), report)
            w.run()
            self._summaries[key] = w.ret
            return w.ret
        finally:
            self._active.discard(key)

    def report(self, f: Func, node: ast.AST, what: str) -> None:
        k = (id(f.node), getattr(node, 'lineno', 0), getattr(node, 'col_offset', 0), what[:40])
        if k in self._seen:
            return
        self._seen.add(k)
        self.findings.append(Finding(f, node, what))


class _Walker:
    def __init__(self, an: AxisAnalysis, f: Func, env: Dict[str, Any], report: bool):
        self.an, self.f, self.env, self.reporting = an, f, dict(env), report
        self.ret: Any = None
        self.arrays: Dict[str, Any] = {}     # array name -> ('T', dims)
        self.extent: Dict[str, bool] = {}    # name -> built from .height / .width only
        self.module: Module = f.module

    def run(self) -> None:
        self.ret = None
        self.final = True
        for s in self.f.node.body:
            self.stmt(s, True)

    def join_env(self, a: Dict[str, Any], b: Dict[str, Any]) -> Dict[str, Any]:
        out = {}
        for k in set(a) | set(b):
            if k in a and k in b:
                out[k] = join(a[k], b[k])
            else:
                out[k] = a.get(k, b.get(k))     # bound on one path only
        return out

    def branch(self, blocks: List[List[ast.stmt]]) -> None:
        """flow-sensitive: each alternative starts from the current kinds, the results join"""
        start = dict(self.env)
        arrays = dict(self.arrays)
        outs = []
        for blk in blocks:
            self.env = dict(start)
            for b in blk:
                self.stmt(b, True)
            outs.append(self.env)
        env = outs[0]
        for o in outs[1:]:
            env = self.join_env(env, o)
        self.env = env
        self.arrays.update(arrays)

    def loop_body(self, body: List[ast.stmt], rebind) -> None:
        """zero or more iterations: the body is analysed from the join of (before, after one
        iteration); reports come from the last pass only"""
        before = dict(self.env)
        saved = self.reporting
        self.reporting = False
        rebind()
        for b in body:
            self.stmt(b, True)
        self.env = self.join_env(before, self.env)
        self.reporting = saved
        rebind()
        for b in body:
            self.stmt(b, True)
        self.env = self.join_env(before, self.env)

    # ---------------------------------------------------------------- kinds
    def kind(self, e: Optional[ast.AST], env: Optional[Dict[str, Any]] = None):
        if e is None:
            return U
        env = self.env if env is None else env
        if isinstance(e, ast.Constant):
            return N if isinstance(e.value, (int, float)) and not isinstance(e.value, bool) else U
        if isinstance(e, ast.Name):
            return env.get(e.id, U)
        if isinstance(e, ast.Attribute):
            if e.attr in ('y', 'ymin', 'ymax', 'height'):
                return R
            if e.attr in ('x', 'xmin', 'xmax', 'width'):
                return C
            if e.attr == 'ys':
                return ('I', R)
            if e.attr == 'xs':
                return ('I', C)
            if e.attr in ('yx', 'shape', 'grid_shape'):
                return ('T', (R, C))
            return U
        if isinstance(e, ast.Tuple) or isinstance(e, ast.List):
            ks = tuple(self.kind(x, env) for x in e.elts)
            if isinstance(e, ast.List) and len(ks) != 2:
                out = U
                for k in ks:
                    out = join(out, k)
                return ('I', out)
            return ('T', ks)
        if isinstance(e, ast.UnaryOp):
            return self.kind(e.operand, env)
        if isinstance(e, ast.BinOp):
            a, b = self.kind(e.left, env), self.kind(e.right, env)
            if isinstance(e.op, (ast.Add, ast.Sub)):
                if isinstance(a, tuple) and a[0] == 'I' and not isinstance(b, tuple):
                    return ('I', join(a[1], b))       # array +/- scalar
                if isinstance(b, tuple) and b[0] == 'I' and not isinstance(a, tuple):
                    return ('I', join(a, b[1]))
                return join(a, b)
            if isinstance(e.op, (ast.Mult, ast.FloorDiv, ast.Div, ast.Mod)):
                if a in (N, U):
                    return b if not isinstance(b, tuple) or b[0] == 'I' else U
                if b in (N, U):
                    return a if not isinstance(a, tuple) or a[0] == 'I' else U
                return M if scalar(a) and scalar(b) and a != b else join(a, b)
            return U
        if isinstance(e, ast.IfExp):
            return join(self.kind(e.body, env), self.kind(e.orelse, env))
        if isinstance(e, ast.Subscript):
            base = self.kind(e.value, env)
            if isinstance(e.slice, ast.Slice):
                return base
            if isinstance(base, tuple) and base[0] == 'T' and isinstance(e.slice, ast.Constant) \
                    and isinstance(e.slice.value, int) and -len(base[1]) <= e.slice.value < len(base[1]):
                return base[1][e.slice.value]
            if isinstance(base, tuple) and base[0] == 'I':
                return base[1]
            return U
        if isinstance(e, ast.Starred):
            return self.kind(e.value, env)
        if isinstance(e, (ast.ListComp, ast.SetComp, ast.GeneratorExp)):
            env2 = dict(env)
            for g in e.generators:
                self.bind(g.target, self.elem(self.kind(g.iter, env2)), env2)
            self.check_expr(e.elt, env2)
            for g in e.generators:
                for c in g.ifs:
                    self.check_expr(c, env2)
            return ('I', self.kind(e.elt, env2))
        if isinstance(e, ast.Call):
            return self.call_kind(e, env)
        return U

    @staticmethod
    def elem(k):
        if isinstance(k, tuple) and k[0] == 'I':
            return k[1]
        if isinstance(k, tuple) and k[0] == 'T':
            out = U
            for x in k[1]:
                out = join(out, x)
            return out
        return U

    def call_kind(self, e: ast.Call, env):
        f = src(e.func)
        args = [self.kind(a, env) for a in e.args]
        kw = {k.arg: self.kind(k.value, env) for k in e.keywords if k.arg}
        last = f.split('.')[-1]
        if f in SCALAR_PASS and args:
            return args[0]
        if f in MAGNITUDES and args:
            return N
        if f in ITER_PASS and args:
            a = args[0]
            return a if isinstance(a, tuple) and a[0] == 'I' else (('I', self.elem(a))
                                                                   if isinstance(a, tuple) else U)
        if last == 'range' and args:
            out = U
            for a in args[:2]:
                out = join(out, a)
            return ('I', out)
        if last in ('integers', 'randint') and (args or kw):
            out = U
            for a in args[:2] + [kw.get('low'), kw.get('high')]:
                if a is not None and not isinstance(a, tuple):
                    out = join(out, a)
            return out
        if last in ('linspace', 'arange') and args:
            out = U
            for a in args[:2]:
                if not isinstance(a, tuple):
                    out = join(out, a)
            return ('I', out)
        if last in ('min', 'max') and f in ('min', 'max'):
            ks = args if len(args) > 1 else ([self.elem(args[0])] if args else [])
            out = U
            for k in ks:
                out = join(out, k)
            return out
        if last == 'pairwise' and args:
            k = self.elem(args[0])
            return ('I', ('T', (k, k)))
        if last == 'zip':
            return ('I', ('T', tuple(self.elem(a) for a in args)))
        if last == 'product' and args:
            return ('I', ('T', tuple(self.elem(a) for a in args)))
        if last == 'enumerate' and args:
            start = kw.get('start', args[1] if len(args) > 1 else N)
            return ('I', ('T', (start, self.elem(args[0]))))
        if last == 'y_coordinates':
            return ('I', R)
        if last == 'x_coordinates':
            return ('I', C)
        if last in ('chain',) and args:
            out = U
            for a in args:
                out = join(out, self.elem(a))
            return ('I', out)
        if last in ('choice', 'shuffle', 'choices') and len(args) >= 2 and f in (
                'choice', 'shuffle', 'choices'):
            a = args[1]
            if last == 'choice':
                return self.elem(a)
            return a if isinstance(a, tuple) and a[0] == 'I' else U
        # repository function: analyse with the kinds of the arguments
        callee = self.resolve(e)
        if callee is not None and id(callee.node) not in self.an.exempt:
            bound = self.bind_args(callee, e, args, kw)
            return self.an.analyse(callee, bound)
        return U

    def resolve(self, e: ast.Call) -> Optional[Func]:
        ix = self.an.index
        if isinstance(e.func, ast.Name):
            r = self.module.functions.get(e.func.id) or ix.resolve_name(self.module, e.func.id)
            if isinstance(r, Func) and r.cls is None:
                return r
        if isinstance(e.func, ast.Attribute) and isinstance(e.func.value, ast.Name) and \
                e.func.value.id == 'self' and self.f.cls is not None:
            m = ix.method(self.f.cls, e.func.attr)
            if m is not None and not m.is_property():
                return m
        return None

    def bind_args(self, callee: Func, e: ast.Call, args, kw) -> Dict[str, Any]:
        a = callee.node.args
        names = [p.arg for p in a.posonlyargs + a.args]
        if callee.cls is not None and names and names[0] in ('self', 'cls'):
            names = names[1:]
        bound = dict(zip(names, args))
        bound.update(kw)
        return bound

    # ------------------------------------------------------------- bindings
    def bind(self, t: ast.AST, k, env: Optional[Dict[str, Any]] = None) -> None:
        """strong update: an assignment (or a loop target) replaces what the name held"""
        env = self.env if env is None else env
        if isinstance(t, ast.Name):
            env[t.id] = k
        elif isinstance(t, (ast.Tuple, ast.List)):
            if isinstance(k, tuple) and k[0] == 'T' and len(k[1]) == len(t.elts):
                for x, kk in zip(t.elts, k[1]):
                    self.bind(x, kk, env)
            else:
                for x in t.elts:
                    self.bind(x, U, env)
        elif isinstance(t, ast.Starred):
            self.bind(t.value, U, env)

    # ------------------------------------------------------------ statements
    def stmt(self, s: ast.stmt, final: bool) -> None:
        self.final = final
        if isinstance(s, (ast.FunctionDef, ast.AsyncFunctionDef)):
            # nested helper: analysed in place with naming beliefs for its own parameters
            sub = Func(s.name, self.module, s, None)
            w = _Walker(self.an, sub, dict(self.env, **self.an.param_kinds(sub, None)),
                        self.reporting)
            w.f = self.f if False else sub
            w.run()
            self.env[s.name] = ('F', w.ret)
            return
        if isinstance(s, ast.ClassDef):
            return
        if isinstance(s, ast.Assign):
            self.check_expr(s.value)
            k = self.kind(s.value)
            for t in s.targets:
                self.store(t, s.value, k)
            return
        if isinstance(s, ast.AnnAssign):
            if s.value is not None:
                self.check_expr(s.value)
                self.store(s.target, s.value, self.kind(s.value))
            return
        if isinstance(s, ast.AugAssign):
            self.check_expr(s.value)
            if isinstance(s.target, ast.Name):
                old_k = self.env.get(s.target.id, U)
                self.env[s.target.id] = join(old_k, self.kind(s.value)) \
                    if isinstance(s.op, (ast.Add, ast.Sub)) else (
                        old_k if self.kind(s.value) in (N, U) else U)
            else:
                self.check_expr(s.target)
            return
        if isinstance(s, ast.For):
            self.check_expr(s.iter)
            it_kind = self.elem(self.kind(s.iter))
            self.loop_body(s.body, lambda: self.bind(s.target, it_kind))
            for b in s.orelse:
                self.stmt(b, final)
            return
        if isinstance(s, ast.While):
            self.check_expr(s.test)
            self.loop_body(s.body, lambda: None)
            for b in s.orelse:
                self.stmt(b, final)
            return
        if isinstance(s, ast.If):
            self.check_expr(s.test)
            self.branch([s.body, s.orelse])
            return
        if isinstance(s, (ast.With,)):
            for it in s.items:
                self.check_expr(it.context_expr)
            for b in s.body:
                self.stmt(b, final)
            return
        if isinstance(s, ast.Try):
            self.branch([s.body + s.orelse] + [h.body for h in s.handlers])
            for b in s.finalbody:
                self.stmt(b, final)
            return
        if isinstance(s, ast.Return):
            if s.value is not None:
                self.check_expr(s.value)
                self.ret = join(self.ret, self.kind(s.value)) if self.ret is not None \
                    else self.kind(s.value)
            return
        if isinstance(s, ast.Expr):
            if isinstance(s.value, (ast.Yield, ast.YieldFrom)) and s.value.value is not None:
                self.check_expr(s.value.value)
                k = self.kind(s.value.value)
                k = ('I', k) if isinstance(s.value, ast.Yield) else k
                self.ret = join(self.ret, k) if self.ret is not None else k
                return
            self.check_expr(s.value)
            return
        if isinstance(s, (ast.Assert,)):
            self.check_expr(s.test)
            return
        for ch in ast.iter_child_nodes(s):
            if isinstance(ch, ast.expr):
                self.check_expr(ch)

    def is_extent(self, e: ast.AST) -> bool:
        """the row/column content of e comes from sizes (.height / .width) only, not from
        coordinates: `max(height, width)` is the usual 'largest dimension', not a mix-up"""
        for n in ast.walk(e):
            if isinstance(n, ast.Attribute) and n.attr in ('y', 'x', 'ymin', 'ymax', 'xmin',
                                                           'xmax', 'yx', 'ys', 'xs'):
                return False
            if isinstance(n, ast.Name) and scalar(self.env.get(n.id)) and \
                    not self.extent.get(n.id, False):
                return False
            if isinstance(n, ast.Call) and self.resolve(n) is not None:
                return False
        return True

    def store(self, t: ast.AST, value: ast.AST, k) -> None:
        if isinstance(t, ast.Name):
            self.extent[t.id] = self.is_extent(value)
            self.bind(t, k)
            dims = self.array_dims(value)
            if dims is not None:
                self.arrays[t.id] = dims
        elif isinstance(t, (ast.Tuple, ast.List)):
            self.bind(t, k)
        else:
            self.check_expr(t)

    def array_dims(self, v: ast.AST):
        """np.zeros((h, w)) / np.ones(shape) / np.full(shape, ..): dimensions of the array"""
        if isinstance(v, ast.Call) and src(v.func) in ('np.zeros', 'np.ones', 'np.full',
                                                       'np.empty', 'numpy.zeros') and v.args:
            k = self.kind(v.args[0])
            if isinstance(k, tuple) and k[0] == 'T' and len(k[1]) == 2:
                return k
        return None

    # ---------------------------------------------------------------- sinks
    def expect(self, node: ast.AST, want: str, what: str, env=None) -> None:
        self.an.n_sinks += 1
        got = self.kind(node, env)
        if isinstance(got, tuple):
            got = self.elem(got) if got[0] == 'I' else None
        if got == opposite(want) and self.reporting and getattr(self, 'final', True):
            names = {R: 'row', C: 'column'}
            self.an.report(self.f, node,
                           f'{what}: `{src(node)[:60]}` is a {names[got]} quantity where a '
                           f'{names[want]} quantity is expected')

    def is_grid(self, e: ast.AST) -> bool:
        s = src(e)
        if s in ('grid', 'self.grid') or s.endswith('.grid'):
            return True
        if s == 'self' and self.f.cls is not None and self.f.cls.name == 'Grid':
            return True
        return False

    def check_expr(self, e: Optional[ast.AST], env=None) -> None:
        if e is None:
            return
        env = self.env if env is None else env
        for n in self._walk(e):
            if isinstance(n, ast.Subscript):
                sl = n.slice
                if isinstance(sl, ast.Tuple) and len(sl.elts) == 2:
                    if self.is_grid(n.value) or (isinstance(n.value, ast.Name)
                                                 and n.value.id in self.arrays):
                        dims = self.arrays.get(getattr(n.value, 'id', ''), ('T', (R, C)))
                        for x, want in zip(sl.elts, dims[1]):
                            if want in (R, C) and not isinstance(x, ast.Slice):
                                self.expect(x, want, f'index of `{src(n.value)}`', env)
                elif isinstance(n.value, ast.Subscript) and \
                        src(n.value.value).endswith('objects') and \
                        not isinstance(sl, ast.Slice) and not isinstance(n.value.slice, ast.Slice):
                    self.expect(n.value.slice, R, 'row index of the cell table', env)
                    self.expect(sl, C, 'column index of the cell table', env)
            elif isinstance(n, ast.Call):
                f = src(n.func)
                kw = {k.arg: k.value for k in n.keywords if k.arg}
                if f == 'Position':
                    a = list(n.args)
                    ya = a[0] if a else kw.get('y')
                    xa = a[1] if len(a) > 1 else kw.get('x')
                    if ya is not None:
                        self.expect(ya, R, 'Position(y, ..)', env)
                    if xa is not None:
                        self.expect(xa, C, 'Position(.., x)', env)
                elif f == 'Shape':
                    a = list(n.args)
                    ha = a[0] if a else kw.get('height')
                    wa = a[1] if len(a) > 1 else kw.get('width')
                    if ha is not None:
                        self.expect(ha, R, 'Shape(height, ..)', env)
                    if wa is not None:
                        self.expect(wa, C, 'Shape(.., width)', env)
                elif f == 'Area':
                    a = list(n.args)
                    ys = a[0] if a else kw.get('ys')
                    xs = a[1] if len(a) > 1 else kw.get('xs')
                    for t, want in ((ys, R), (xs, C)):
                        if isinstance(t, (ast.Tuple, ast.List)):
                            for x in t.elts:
                                self.expect(x, want, f'Area bounds ({"ys" if want == R else "xs"})',
                                            env)
                elif f in ('min', 'max') and len(n.args) >= 2:
                    ks = [scalar(self.kind(a, env)) for a in n.args]
                    self.an.n_sinks += 1
                    if R in ks and C in ks and self.reporting and getattr(self, 'final', True) \
                            and not all(self.is_extent(a) for a in n.args):
                        self.an.report(self.f, n, f'`{src(n)[:70]}` takes the {f} of a row '
                                       f'quantity and a column quantity')
                else:
                    callee = self.resolve(n)
                    if callee is not None:
                        a = callee.node.args
                        names = [p.arg for p in a.posonlyargs + a.args]
                        if callee.cls is not None and names and names[0] in ('self', 'cls'):
                            names = names[1:]
                        pairs = list(zip(names, n.args)) + [(k, v) for k, v in kw.items()]
                        for pn, av in pairs:
                            if isinstance(av, ast.Starred):
                                continue
                            want = R if ROW_PARAM.match(pn) else (C if COL_PARAM.match(pn) else None)
                            if want:
                                self.expect(av, want, f'argument `{pn}` of {callee.short}', env)
            elif isinstance(n, ast.Compare) and len(n.ops) == 1 and \
                    isinstance(n.ops[0], (ast.Lt, ast.LtE, ast.Gt, ast.GtE)):
                a, b = scalar(self.kind(n.left, env)), scalar(self.kind(n.comparators[0], env))
                self.an.n_sinks += 1
                if a and b and a != b and self.reporting and getattr(self, 'final', True) \
                        and not (self.is_extent(n.left) and self.is_extent(n.comparators[0])):
                    self.an.report(self.f, n, f'`{src(n)[:70]}` orders a row quantity against a '
                                   f'column quantity')
            elif isinstance(n, ast.Compare) and len(n.ops) >= 2 and \
                    all(isinstance(o, (ast.Lt, ast.LtE, ast.Gt, ast.GtE)) for o in n.ops):
                ks = [scalar(self.kind(x, env)) for x in [n.left] + n.comparators]
                self.an.n_sinks += 1
                if R in ks and C in ks and self.reporting and getattr(self, 'final', True) \
                        and not all(self.is_extent(x) for x in [n.left] + n.comparators):
                    self.an.report(self.f, n, f'`{src(n)[:70]}` orders a row quantity against a '
                                   f'column quantity')

    def _walk(self, e: ast.AST):
        """sub-expressions, without descending into comprehensions (handled with their own
        scope by kind()) and lambdas"""
        stack = [e]
        while stack:
            n = stack.pop()
            yield n
            if isinstance(n, (ast.ListComp, ast.SetComp, ast.GeneratorExp, ast.DictComp)):
                if isinstance(n, ast.DictComp):
                    continue
                self.kind(n)          # binds the targets in a scope of its own and checks
                continue
            if isinstance(n, ast.Lambda):
                continue
            stack.extend(ast.iter_child_nodes(n))


def run_axes(index: RepoIndex, prefixes: Tuple[str, ...] = ('gym_gridverse/',)):
    """(findings, number of functions analysed, number of sinks examined)"""
    an = AxisAnalysis(index)
    n = 0
    for f in index.all_functions('gym_gridverse'):
        if not any(f.relpath.startswith(p) for p in prefixes):
            continue
        n += 1
        an.check_function(f)
    return an.findings, n, an.n_sinks


_CACHE: Dict[int, AxisAnalysis] = {}


def axis_rule(index: RepoIndex, rep, rule: str, files: Tuple[str, ...], floor: int = 1) -> None:
    """register the findings of the axis analysis for the given files under `rule`"""
    an = _CACHE.get(id(index))
    if an is None:
        an = AxisAnalysis(index)
        an.per_file: Dict[str, List[int]] = {}
        for f in index.all_functions('gym_gridverse'):
            before = an.n_sinks
            an.check_function(f)
            st = an.per_file.setdefault(f.relpath, [0, 0])
            st[0] += 1
            st[1] += an.n_sinks - before
        _CACHE.clear()
        _CACHE[id(index)] = an
    n_f = n_s = 0
    for rel, (a, b) in an.per_file.items():
        if any(rel == p or rel.startswith(p) for p in files):
            n_f += a
            n_s += b
    mine = [f for f in an.findings
            if any(f.func.relpath == p or f.func.relpath.startswith(p) for p in files)]
    for f in mine:
        rep.violation(rule, f.func.relpath, f.func.short, f.line, src(f.node)[:120],
                      f'row/column mix-up: {f.what}')
    if n_s < floor:
        from .core import AnalysisError
        raise AnalysisError(f'axis analysis examined {n_s} sinks in {files}, floor is {floor}')
    if not mine:
        rep.holds(rule, ', '.join(files), f'{n_f} functions, {n_s} row/column sinks examined, '
                  f'no definite contradiction')
