"""E9 reader for the YAML subset the shipped configurations use: block mappings, block
sequences (of scalars or mappings), flow sequences, plain scalars, comments.  Anything else
(anchors, quotes with escapes, block scalars, flow mappings) raises AnalysisError."""
from __future__ import annotations

import re
from typing import Any, List, Tuple

from .core import AnalysisError


def scalar(s: str) -> Any:
    s = s.strip()
    if len(s) >= 2 and s[0] == s[-1] and s[0] in '\'"' and '\\' not in s:
        return s[1:-1]
    if re.fullmatch(r'[-+]?\d+', s):
        return int(s)
    if re.fullmatch(r'[-+]?(\d+\.\d*|\.\d+|\d+)([eE][-+]?\d+)?', s):
        return float(s)
    if s in ('True', 'true'):
        return True
    if s in ('False', 'false'):
        return False
    if s in ('null', '~', ''):
        return None
    return s


def flow(s: str) -> List[Any]:
    s = s.strip()
    if not (s.startswith('[') and s.endswith(']')):
        raise AnalysisError(f'yaml: malformed flow sequence `{s}`')
    out, depth, cur = [], 0, ''
    for ch in s[1:-1]:
        if ch == '[':
            depth += 1
        if ch == ']':
            depth -= 1
        if ch == ',' and depth == 0:
            out.append(cur)
            cur = ''
        else:
            cur += ch
    if cur.strip():
        out.append(cur)
    return [flow(x) if x.strip().startswith('[') else scalar(x) for x in out]


def value(s: str) -> Any:
    return flow(s) if s.strip().startswith('[') else scalar(s)


def strip_comment(l: str) -> str:
    out, q = '', None
    for i, ch in enumerate(l):
        if q:
            if ch == q:
                q = None
        elif ch in '\'"':
            q = ch
        elif ch == '#' and (i == 0 or l[i - 1] in ' \t'):
            break
        out += ch
    return out.rstrip()


def parse(text: str, name: str = '<yaml>') -> Any:
    raw = [strip_comment(l) for l in text.splitlines()]
    lines: List[Tuple[int, str]] = [(len(l) - len(l.lstrip(' ')), l.strip()) for l in raw
                                    if l.strip() and l.strip() != '---']
    for _, l in lines:
        if any(c in l for c in '&*|>{}') or '\t' in l:
            raise AnalysisError(f'{name}: line outside the YAML subset: `{l}`')
    if not lines:
        return None
    pos = 0

    def block(indent: int) -> Any:
        nonlocal pos
        if lines[pos][1].startswith('- ') or lines[pos][1] == '-':
            out = []
            while pos < len(lines) and lines[pos][0] == indent and \
                    (lines[pos][1].startswith('- ') or lines[pos][1] == '-'):
                _, l = lines[pos]
                body = l[1:].strip()
                if not body:
                    pos += 1
                    out.append(block(lines[pos][0]))
                    continue
                if body.startswith('[') or not re.match(r'^[^\s:\[][^:]*:(\s|$)', body):
                    out.append(value(body))
                    pos += 1
                    continue
                item_indent = indent + (len(l) - len(body))
                lines[pos] = (item_indent, body)
                out.append(block(item_indent))
            return out
        out = {}
        while pos < len(lines) and lines[pos][0] == indent and \
                not lines[pos][1].startswith('- '):
            _, l = lines[pos]
            m = re.match(r'^([^:]+):(\s+(.*))?$', l)
            if not m:
                raise AnalysisError(f'{name}: cannot parse mapping line `{l}`')
            k, v = m.group(1).strip(), (m.group(3) or '').strip()
            # keys may contain ':' when they are `module:name` values -- not as keys here
            pos += 1
            if k in out:
                raise AnalysisError(f'{name}: duplicate key `{k}`')
            if v:
                out[k] = value(v)
            else:
                if pos >= len(lines) or lines[pos][0] < indent or \
                        (lines[pos][0] == indent and not lines[pos][1].startswith('- ')):
                    out[k] = None
                else:
                    out[k] = block(lines[pos][0])
        return out

    r = block(lines[0][0])
    if pos != len(lines):
        raise AnalysisError(f'{name}: could not parse beyond line `{lines[pos][1]}`')
    return r
