"""E6 exact affine forms over named symbols (rational coefficients) and simple bounds."""
from __future__ import annotations

import ast
import itertools
from fractions import Fraction
from typing import Callable, Dict, Iterable, List, Optional, Tuple

from .core import src


class NonAffine(Exception):
    pass


class Aff:
    """sum_k coef[k]*k + const ; symbols are strings"""

    __slots__ = ('c', 'k')

    def __init__(self, coefs: Optional[Dict[str, Fraction]] = None, const=0):
        self.c: Dict[str, Fraction] = {s: Fraction(v) for s, v in (coefs or {}).items() if v != 0}
        self.k = Fraction(const)

    @staticmethod
    def sym(name: str) -> 'Aff':
        return Aff({name: 1})

    @staticmethod
    def const(v) -> 'Aff':
        return Aff({}, v)

    def __add__(self, o):
        o = _lift(o)
        d = dict(self.c)
        for s, v in o.c.items():
            d[s] = d.get(s, 0) + v
        return Aff(d, self.k + o.k)

    __radd__ = __add__

    def __neg__(self):
        return Aff({s: -v for s, v in self.c.items()}, -self.k)

    def __sub__(self, o):
        return self + (-_lift(o))

    def __rsub__(self, o):
        return _lift(o) - self

    def scale(self, f) -> 'Aff':
        f = Fraction(f)
        return Aff({s: v * f for s, v in self.c.items()}, self.k * f)

    def __mul__(self, o):
        o = _lift(o)
        if not o.c:
            return self.scale(o.k)
        if not self.c:
            return o.scale(self.k)
        raise NonAffine('product of two non-constant forms')

    __rmul__ = __mul__

    def is_const(self) -> bool:
        return not self.c

    def subst(self, mp: Dict[str, 'Aff']) -> 'Aff':
        r = Aff({}, self.k)
        for s, v in self.c.items():
            r = r + (mp[s].scale(v) if s in mp else Aff({s: v}))
        return r

    def eval(self, env: Dict[str, Fraction]) -> Fraction:
        return self.k + sum(v * env[s] for s, v in self.c.items())

    def symbols(self):
        return set(self.c)

    def __eq__(self, o):
        if not isinstance(o, (Aff, int, Fraction)):
            return False
        o = _lift(o)
        return self.c == o.c and self.k == o.k

    def __hash__(self):
        return hash((tuple(sorted(self.c.items())), self.k))

    def __repr__(self):
        parts = []
        for s in sorted(self.c):
            v = self.c[s]
            if v == 1:
                parts.append(f'+{s}')
            elif v == -1:
                parts.append(f'-{s}')
            else:
                parts.append(f'{"+" if v > 0 else ""}{v}*{s}')
        if self.k != 0 or not parts:
            parts.append(f'{"+" if self.k >= 0 else ""}{self.k}')
        r = ''.join(parts)
        return r[1:] if r.startswith('+') else r


def _lift(x) -> Aff:
    return x if isinstance(x, Aff) else Aff.const(x)


def aff_of(e: ast.AST, env: Callable[[ast.AST], Optional[Aff]]) -> Aff:
    """affine form of an expression; `env` maps leaf expressions to forms (or None)"""
    r = env(e)
    if r is not None:
        return r
    if isinstance(e, ast.Constant) and isinstance(e.value, (int, float)) \
            and not isinstance(e.value, bool):
        return Aff.const(Fraction(e.value))
    if isinstance(e, ast.UnaryOp) and isinstance(e.op, ast.USub):
        return -aff_of(e.operand, env)
    if isinstance(e, ast.UnaryOp) and isinstance(e.op, ast.UAdd):
        return aff_of(e.operand, env)
    if isinstance(e, ast.BinOp):
        if isinstance(e.op, ast.Add):
            return aff_of(e.left, env) + aff_of(e.right, env)
        if isinstance(e.op, ast.Sub):
            return aff_of(e.left, env) - aff_of(e.right, env)
        if isinstance(e.op, ast.Mult):
            return aff_of(e.left, env) * aff_of(e.right, env)
    raise NonAffine(src(e))


def dict_env(mp: Dict[str, Aff]) -> Callable[[ast.AST], Optional[Aff]]:
    def env(e: ast.AST) -> Optional[Aff]:
        return mp.get(src(e))
    return env


# ---------------------------------------------------------------- bounds
class Facts:
    """lower/upper constant bounds of symbols and affine facts  f >= 0"""

    def __init__(self):
        self.ge0: List[Aff] = []

    def add_ge(self, a: Aff, b) -> None:
        """a >= b"""
        self.ge0.append(a - _lift(b))

    def add_le(self, a: Aff, b) -> None:
        self.ge0.append(_lift(b) - a)


def prove_ge0(f: Aff, facts: Facts, depth: int = 3) -> bool:
    """try to prove f >= 0 as a non-negative combination of facts (+ const >= 0).

    Sound, incomplete: searches combinations of at most `depth` facts with small
    positive integer multipliers."""
    if f.is_const():
        return f.k >= 0
    fs = facts.ge0
    mult = (1, 2)
    for n in range(1, depth + 1):
        for combo in itertools.combinations(range(len(fs)), n):
            for ms in itertools.product(mult, repeat=n):
                g = f
                for i, m in zip(combo, ms):
                    g = g - fs[i].scale(m)
                if g.is_const() and g.k >= 0:
                    return True
    return False


def find_counterexample(f: Aff, facts: Facts, symbols: Iterable[str], lo=-1, hi=9,
                        integer=True) -> Optional[Dict[str, int]]:
    """search small integer points satisfying the facts where f < 0"""
    # only the symbols connected to f through the facts matter (the other facts are
    # satisfiable on their own)
    rel = set(f.symbols())
    changed = True
    while changed:
        changed = False
        for g in facts.ge0:
            gs = g.symbols()
            if gs & rel and not gs <= rel:
                rel |= gs
                changed = True
    use = [g for g in facts.ge0 if g.symbols() & rel]
    syms = sorted(rel)
    if len(syms) > 7:
        return None
    for vals in itertools.product(range(lo, hi + 1), repeat=len(syms)):
        env = dict(zip(syms, map(Fraction, vals)))
        if all(g.eval(env) >= 0 for g in use) and f.eval(env) < 0:
            return {s: int(v) for s, v in env.items()}
    return None
