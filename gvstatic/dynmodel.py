"""Shared model of a component function (transition / reward / terminating): its guarded
effects with expanded, role-renamed targets, values and guards, ready to be evaluated in
the finite world model of boolean.py."""
from __future__ import annotations

import ast
import copy
from dataclasses import dataclass
from typing import Any, Callable, Dict, List, Optional, Sequence, Tuple

from .boolean import Evaluator, Kind, NeedVar, ObjectModel, OutOfGrid, Unknown, World
from .core import AnalysisError, src
from .guards import (FALSE, Event, GuardWalk, f_and, f_not, f_or, formula_of, role_rename, show,
                     strip_iter, walk_function)
from .index import Func, RepoIndex

TRANS = 'gym_gridverse/envs/transition_functions.py'
REWARD = 'gym_gridverse/envs/reward_functions.py'
TERM = 'gym_gridverse/envs/terminating_functions.py'

NEXT = 'get_next_position(S.agent.position, S.agent.orientation, A)'
FRONT = 'S.agent.front()'
HELD = 'S.agent.grid_object'
POS = 'S.agent.position'


def cell(p: str, st: str = 'S') -> str:
    return f'{st}.grid[{p}]'


@dataclass
class Effect:
    kind: str            # store | attrstore | augstore | call
    target: str          # canonical target text
    value: str           # canonical value text ('' for calls)
    guard: tuple         # expanded formula (raises desugared, iter markers kept out)
    ev: Event
    value_node: Optional[ast.AST] = None
    target_node: Optional[ast.AST] = None

    @property
    def line(self) -> int:
        return self.ev.line


class FnModel:
    INLINE = True

    def __init__(self, index: RepoIndex, func: Func, roles: Sequence[str],
                 evaluator: Optional[Evaluator] = None):
        self.index = index
        self.func = func
        if self.INLINE:
            from .view import component_node
            self.node, self.inlined = component_node(index, func)
            from .normalise import ssa_params
            self.node = ssa_params(self.node)
        else:
            self.node, self.inlined = func.node, []
        self.walk = walk_function(self.node)
        self.ren = role_rename(func.node, roles)
        self.roles = list(roles)
        self.ev = evaluator or Evaluator(index)
        self.effects: List[Effect] = []
        self.returns: List[Effect] = []
        self.raises: List[Effect] = []
        w = self.walk
        # locals naming a sequence built by a comprehension keep their name in guards
        self.seq_names = {n for n, ds in w.defs.items()
                          if len(ds) == 1 and ds[0][0] == 'value'
                          and isinstance(ds[0][1], (ast.ListComp, ast.GeneratorExp, ast.List))}
        # `rng = get_gv_rng_if_none(rng)` rebinding is transparent
        _expand = w.expand

        class _W:
            """the walk, with canonicalised expansions"""
            defs = w.defs
            events = w.events

            @staticmethod
            def expand(node, ren=None, **kw):
                return self.canon(_expand(node, ren, **kw))
        w = _W
        for e in w.events:
            g = self.formula(e.guard)
            if e.kind in ('store', 'attrstore', 'augstore'):
                tgt = w.expand(e.target, self.ren)
                val = w.expand(e.value, self.ren) if e.value is not None else None
                # a conditional value that only shows after expansion (a helper returning a
                # tuple of conditional expressions) is split into guarded alternatives
                for v_alt, g_alt in self._alts(val, g):
                    if g_alt == FALSE:
                        continue          # an alternative on a path that cannot be taken
                    self.effects.append(Effect(e.kind, src(tgt),
                                               src(v_alt) if v_alt is not None else '',
                                               g_alt, e, v_alt, tgt))
            elif e.kind == 'delete':
                tgt = w.expand(e.target, self.ren)
                self.effects.append(Effect('delete', src(tgt), '', g, e, None, tgt))
            elif e.kind == 'call' and isinstance(e.node.func, ast.Attribute):
                c = _expand(e.node, self.ren)
                self.effects.append(Effect('call', src(c.func), src(c), g, e, c, c.func))
            elif e.kind == 'call':
                c = _expand(e.node, self.ren)
                self.effects.append(Effect('fcall', src(c.func), src(c), g, e, c, c.func))
            elif e.kind == 'return':
                val = w.expand(e.value, self.ren) if e.value is not None else None
                # a conditional value that only shows after expansion (a helper's result bound
                # to a local) is split into guarded alternatives like a literal one
                for v_alt, g_alt in (self._alts(val, g) if val is not None else [(None, g)]):
                    self.returns.append(Effect('return', '',
                                               src(v_alt) if v_alt is not None else 'None',
                                               g_alt, e, v_alt))
            elif e.kind == 'raise':
                val = w.expand(e.value, self.ren) if e.value is not None else None
                self.raises.append(Effect('raise', '', src(val) if val is not None else '',
                                          g, e, val))

    def _alts(self, val, g, depth: int = 4):
        if isinstance(val, ast.IfExp) and depth > 0:
            t = self._desugar(formula_of(val.test))
            yield from self._alts(val.body, f_and(g, t), depth - 1)
            yield from self._alts(val.orelse, f_and(g, f_not(t)), depth - 1)
        else:
            yield val, g

    # ------------------------------------------------------------ formulas
    def formula(self, f):
        """expand locals, rename roles, desugar try/except atoms, drop loop markers"""
        f = strip_iter(f)
        return self._desugar(self.walk.expand_formula(f, self.ren, stop=self.seq_names))

    def _desugar(self, f):
        k = f[0]
        if k == 'not':
            return f_not(self._desugar(f[1]))
        if k in ('and', 'or'):
            parts = [self._desugar(x) for x in f[1:]]
            return f_and(*parts) if k == 'and' else f_or(*parts)
        if k == 'raises':
            return self._raises(f)
        if k == 'atom':
            e = self.canon(f[1])
            # truthiness of a sequence local is its non-emptiness
            if isinstance(e, ast.Name) and e.id in self.seq_names:
                e = ast.Compare(ast.Call(ast.Name('len', ast.Load()), [e], []),
                                [ast.Gt()], [ast.Constant(0)])
            return ('atom', e)
        return f

    def canon(self, node):
        """canonical spelling of table idioms in an expanded expression:
        `T.get(K) is None` -> `K not in T`, `T.get(K) is not None` -> `K in T`, and
        `T.get(K)` -> `T[K]` (equal wherever the key is present; where it is absent the
        rules read the guard, which now says so) for the literal action tables T"""
        if node is None:
            return None
        tables = self.ev.action_tables

        def is_get(n):
            return isinstance(n, ast.Call) and isinstance(n.func, ast.Attribute) and \
                n.func.attr == 'get' and isinstance(n.func.value, ast.Name) and \
                n.func.value.id in tables and len(n.args) == 1 and not n.keywords
        if not any(is_get(n) for n in ast.walk(node)):
            return node

        class T(ast.NodeTransformer):
            def visit_Compare(self, n):
                if len(n.ops) == 1 and isinstance(n.ops[0], (ast.Is, ast.IsNot, ast.Eq, ast.NotEq)):
                    for a, b in ((n.left, n.comparators[0]), (n.comparators[0], n.left)):
                        if is_get(a) and isinstance(b, ast.Constant) and b.value is None:
                            op = ast.NotIn() if isinstance(n.ops[0], (ast.Is, ast.Eq)) else ast.In()
                            return ast.Compare(self.visit(a.args[0]), [op],
                                               [ast.Name(a.func.value.id, ast.Load())])
                return self.generic_visit(n)

            def visit_Call(self, n):
                if is_get(n):
                    return ast.Subscript(ast.Name(n.func.value.id, ast.Load()),
                                         self.visit(n.args[0]), ast.Load())
                return self.generic_visit(n)
        out = T().visit(copy.deepcopy(node))
        return ast.fix_missing_locations(out)

    def _raises(self, f):
        exc, node = f[1], f[2]
        w = self.walk
        stmts = node.body
        exprs: List[ast.AST] = []
        for st in stmts:
            for n in ast.walk(st):
                if isinstance(n, (ast.Subscript, ast.Call)):
                    exprs.append(n)
        if 'KeyError' in exc:
            for n in exprs:
                if isinstance(n, ast.Subscript) and isinstance(n.value, ast.Name) \
                        and n.value.id in self.ev.action_tables:
                    key = w.expand(n.slice, self.ren)
                    test = ast.Compare(key, [ast.In()], [ast.Name(n.value.id, ast.Load())])
                    return f_not(('atom', test))
        if 'ValueError' in exc:
            for n in exprs:
                if isinstance(n, ast.Call):
                    fs = src(n.func)
                    seq = None
                    if fs.endswith('.choice') and n.args and isinstance(n.args[0], ast.Call) \
                            and src(n.args[0].func) == 'len':
                        seq = n.args[0].args[0]
                    elif fs == 'choice' and len(n.args) == 2:
                        seq = n.args[1]
                    if seq is not None:
                        test = ast.Compare(ast.Call(ast.Name('len', ast.Load()), [seq], []),
                                           [ast.Gt()], [ast.Constant(0)])
                        return f_not(('atom', test))
        if 'IndexError' in exc:
            for n in exprs:
                if isinstance(n, ast.Subscript):
                    ex = w.expand(n, self.ren)
                    if src(ex.value).endswith('.grid'):
                        # one-sided: raises only beyond the bottom/right edge
                        return ('atom', ast.Call(ast.Name('__indexerror__', ast.Load()),
                                                 [ex.slice], []))
        return ('atom', ast.Call(ast.Name('__raises__', ast.Load()),
                                 [ast.Constant(exc), ast.Constant(src(stmts[0]))], []))

    # ------------------------------------------------------------- queries
    def stores(self) -> List[Effect]:
        return [e for e in self.effects if e.kind in ('store', 'attrstore', 'augstore', 'delete')]

    def method_calls(self, names: Sequence[str]) -> List[Effect]:
        return [e for e in self.effects if e.kind == 'call'
                and e.target.split('.')[-1] in names]

    def post_store_reads(self) -> List[Event]:
        """heap reads rooted at a role parameter in statements after the first store"""
        st = [e for e in self.effects if e.kind in ('store', 'attrstore', 'augstore')]
        if not st:
            return []
        first = min(e.ev.order for e in st)
        first_stmt = [e.ev.stmt for e in st if e.ev.order == first][0]
        out = []
        params = set(self.ren)
        for e in self.walk.events:
            if e.order <= first or e.stmt is first_stmt:
                continue
            if e.kind == 'load':
                root = e.node
                while isinstance(root, (ast.Subscript, ast.Attribute)):
                    root = root.value
                if isinstance(root, ast.Name) and root.id in params:
                    out.append(e)
        return out

    # ---------------------------------------------------------- evaluation
    def worlds(self, formulas: Sequence[tuple], extra: Optional[Callable] = None,
               touch: Sequence[tuple] = ()) -> List[World]:
        def probe(w: World):
            for f in touch:
                self.ev.touch(f, w)
            for f in formulas:
                try:
                    self.ev.holds(f, w)
                except OutOfGrid:
                    pass
            if extra is not None:
                try:
                    extra(w)
                except OutOfGrid:
                    pass
        return self.ev.worlds(probe)


def describe_world(w: World) -> str:
    parts = []
    for k, v in sorted(w.vals.items(), key=str):
        if k[0] == 'action':
            parts.append(f'action={v}')
        elif k[0] == 'kind':
            parts.append(f'{k[1]} is {v}')
        elif k[0] == 'inside':
            parts.append(f'{k[1]} {"inside" if v else "OUTSIDE"} the grid')
        elif k[0] == 'eq':
            parts.append(f'{k[1]} {"==" if v else "!="} {k[2]}')
        elif k[0] == 'ord':
            parts.append(f'{k[1]} {v} {k[2]}')
        elif k[0] == 'nonempty':
            parts.append(f'{k[1]} {"non-empty" if v else "empty"}')
        elif k[0] == 'isinst':
            parts.append(f'isinstance({k[1]}, {k[2]})={v}')
        elif k[0] == 'opaque':
            parts.append(f'[{k[1]}]={v}')
        else:
            parts.append(f'{k}={v}')
    return '; '.join(parts)


def opaque_vars(worlds: Sequence[World]) -> List[str]:
    out = set()
    for w in worlds[:1]:
        for k in w.vals:
            if k[0] == 'opaque':
                out.add(k[1])
    return sorted(out)


def parse_formula(text: str):
    return formula_of(ast.parse(text, mode='eval').body)


def equiv(m: FnModel, guards: Sequence[tuple], spec: Callable[[World, Evaluator], Optional[bool]],
          touch: Sequence[str] = ()) -> Tuple[Optional[Tuple[World, str]], int]:
    """compare `any(guards)` with `spec` in every world.  spec returns True/False, or None
    for don't-care.  `touch`: condition texts whose variables must be part of the model even
    if the guards never read them (so that a dropped conjunct is noticed)."""
    ev = m.ev
    tf = [parse_formula(t) for t in touch]
    worlds = m.worlds(list(guards), touch=tf)
    n = 0
    for w in worlds:
        n += 1
        try:
            want = spec(w, ev)
        except OutOfGrid:
            want = None
        try:
            fired = any(ev.holds(g, w) for g in guards)
        except OutOfGrid as oog:
            if want is None:
                continue
            return (w, f'reads the cell `{oog.term}` while its position is outside the grid'), n
        if want is None:
            continue
        if fired != want:
            return (w, f'fires={fired}, required={want}'), n
    return None, n
