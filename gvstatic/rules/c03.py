"""C03 -- the functional interface is pure, alias-free and history-independent."""
from __future__ import annotations

import ast
from typing import Dict, List, Optional, Set, Tuple

from ..core import AnalysisError, src
from ..effects import Effects
from ..geom import GRID, Geometry
from ..guards import walk_function
from ..index import PKG, Cls, Func, RepoIndex
from ..obsmodel import OBS, Pipeline, Subgrid

EXPLANATION = (
    'Effect / ownership analysis: may-mutate-parameter and global-write summaries are '
    'computed to a fixpoint over the package call graph (stores through aliases of '
    'parameters, mutator calls, callees that mutate, registry families for calls through '
    'component parameters) and must be empty for every reward, terminating, visibility and '
    'observation function (w.r.t. the state), the membership predicates, equality/hash, '
    'Grid readers, geometry operators and representation converts; the in-place transition '
    'runs only on pickle.loads(pickle.dumps(state)) / copy.deepcopy(state) and that copy is '
    'returned; the observation grid that receives Hidden() stores is fresh at depth 2 '
    '(Grid.subgrid builds outer list and rows by comprehension, the rotation is applied to '
    'that slice); lru_cache-d helpers are pure with hashable parameters and their results are '
    'only read at every call site; __hash__ reads a subset of what __eq__ compares, neither '
    'uses identity.')
TRUSTED = ['pickle round-trips grid objects faithfully', 'custom components out of scope']

TRANS = 'gym_gridverse/envs/transition_functions.py'
GW = 'gym_gridverse/envs/gridworld.py'
FAST = 'gym_gridverse/utils/fast_copy.py'
GEOMF = 'gym_gridverse/geometry.py'

READ_ONLY_FUNCS = [
    ('gym_gridverse/spaces.py', 'StateSpace.contains'),
    ('gym_gridverse/spaces.py', 'ObservationSpace.contains'),
    ('gym_gridverse/spaces.py', 'ActionSpace.contains'),
    (GRID, 'Grid.__eq__'), (GRID, 'Grid.__hash__'), (GRID, 'Grid.object_types'),
    (GRID, 'Grid.subgrid'), (GRID, 'Grid.__mul__'), (GRID, 'Grid.__getitem__'),
    (GRID, 'Grid.get'),
    ('gym_gridverse/agent.py', 'Agent.front'), ('gym_gridverse/agent.py', 'Agent.__eq__'),
    ('gym_gridverse/agent.py', 'Agent.__hash__'),
    ('gym_gridverse/grid_object.py', 'GridObject.__eq__'),
    ('gym_gridverse/grid_object.py', 'GridObject.__hash__'),
    (GEOMF, 'Orientation.__mul__'), (GEOMF, 'Orientation.__neg__'),
    (GEOMF, 'Position.__add__'), (GEOMF, 'Position.__sub__'), (GEOMF, 'Position.__neg__'),
    (GEOMF, 'Transform.__mul__'), (GEOMF, 'Transform.__neg__'), (GEOMF, 'Area.contains'),
    (GEOMF, 'Area.positions'), (GEOMF, 'get_manhattan_boundary'),
    ('gym_gridverse/envs/utils.py', 'get_next_position'),
    ('gym_gridverse/utils/raytracing.py', 'compute_ray'),
    ('gym_gridverse/utils/raytracing.py', 'compute_rays'),
    ('gym_gridverse/utils/raytracing.py', 'compute_rays_fancy'),
    ('gym_gridverse/envs/reward_functions.py', 'dijkstra'),
    (GW, 'GridWorld.functional_step'), (GW, 'GridWorld.functional_observation'),
    (GW, 'GridWorld.functional_reset'),
    (TRANS, 'transition_with_copy'),
]


def memo_rules(index: RepoIndex, rep, rule: str, eff, only_rel=None) -> None:
    """memoised helpers are lru_cache-based, pure, deterministic, and their results are only
    read by the callers (no store, mutator call, in-place update or hand-out)"""
    cached: List[Tuple[str, Func, str]] = []   # (public name, function, module relpath)
    for mod in index.modules.values():
        if not mod.relpath.startswith(PKG):
            continue
        for fn in mod.functions.values():
            if any('lru_cache' in src(d) or src(d).endswith('cache') for d in fn.node.decorator_list):
                cached.append((fn.name, fn, mod.relpath))
        for name, vals in mod.assigns.items():
            for v in vals:
                if isinstance(v, ast.Call) and isinstance(v.func, ast.Call) and \
                        'lru_cache' in src(v.func.func) and len(v.args) == 1 and \
                        isinstance(v.args[0], ast.Name) and v.args[0].id in mod.functions:
                    cached.append((name, mod.functions[v.args[0].id], mod.relpath))
    component_cached = [c for c in cached if not c[2].endswith('schemas.py')
                        and (only_rel is None or c[2] == only_rel)]
    # the three memoised helpers of the pinned tree must still be lru_cache-based (keyed by
    # their full input); any other memoisation scheme is not analysable as history-free
    for rel, name in (('gym_gridverse/utils/raytracing.py', 'cached_compute_rays'),
                      ('gym_gridverse/utils/raytracing.py', 'cached_compute_rays_fancy'),
                      ('gym_gridverse/envs/reward_functions.py', 'dijkstra')):
        if only_rel is not None and rel != only_rel:
            continue
        mod_ = index.module(rel)
        present = name in mod_.functions or name in mod_.assigns
        if not present:
            raise AnalysisError(f'anchor vanished: memoised helper {rel}:{name}')
        rep.check(any(c[0] == name and c[2] == rel for c in component_cached), rule, rel,
                  name, (mod_.functions[name].node.lineno if name in mod_.functions
                         else getattr(mod_.assigns[name][0], 'lineno', 1)), name,
                  f'{name} is no longer memoised by functools.lru_cache on its full argument '
                  f'tuple: a hand-written cache may key on less than the input (later answers '
                  f'would depend on earlier calls)', f'{name} lru_cache-based')
    for name, fn, rel in component_cached:
        s = eff.summary(fn)
        rep.check(not s.mut_params and not (s.global_writes - {'_gv_debug'}), rule, rel,
                  fn.short, fn.node.lineno, name,
                  f'memoised {name} mutates {sorted(s.mut_params)} / writes '
                  f'{sorted(s.global_writes)}: later answers depend on earlier calls',
                  f'{name} pure')
        # keys must identify the input: grids, grid objects, agents, states and observations
        # compare by type / status / colour only (a Box's content and object identity are not
        # part of their equality), so two different inputs share one cache entry and the cached
        # answer hands out the *first* input's objects
        VALUE_EQ = ('GridObject', 'Grid', 'State', 'Observation', 'Agent')
        import re as _re
        weak = [a_.arg for a_ in fn.params() if a_.annotation is not None and
                any(_re.search(rf'\b{t_}\b', src(a_.annotation)) for t_ in VALUE_EQ)]
        if not weak:
            # unannotated: what the call sites pass
            pnames = [a_.arg for a_ in fn.params()]
            for q2, g2 in eff.funcs.items():
                for e2 in eff.walks[q2].events:
                    callee_ = src(e2.node.func) if e2.kind == 'call' else ''
                    if e2.kind == 'call' and callee_ != name and \
                            isinstance(e2.node.func, ast.Name):
                        # called through a table of functions: `f = TABLE[k]; f(x)`
                        fx = eff.walks[q2].expand(e2.node.func)
                        if isinstance(fx, ast.Subscript) and isinstance(fx.value, ast.Name):
                            tv = g2.module.assigns.get(fx.value.id, [])
                            if len(tv) == 1 and isinstance(tv[0], ast.Dict) and \
                                    any(src(v_) == name for v_ in tv[0].values):
                                callee_ = name
                    if e2.kind == 'call' and callee_ == name:
                        for i2, a2 in enumerate(e2.node.args):
                            t2 = src(eff.walks[q2].expand(a2))
                            if _re.search(r'\.objects\b|\bself\b(?!\.)|\.grid\b|\bstate\b', t2) \
                                    and g2.cls is not None and i2 < len(pnames) and \
                                    g2.cls.name in VALUE_EQ + ('Grid',):
                                weak.append(pnames[i2])
        rep.check(not weak, rule, rel, fn.short, fn.node.lineno, f'{name}({", ".join(weak)})',
                  f'memoised {name} is keyed on {sorted(set(weak))}: grids and grid objects '
                  f'compare by type, status and colour only, so different inputs (a Box with '
                  f'another content, another state that looks alike) share a cache entry and get '
                  f'the first input\'s objects back', f'{name}: keys identify the input')
        # a key object with hand-written equality: what the body reads from it must be what the
        # equality compares, or two different inputs share one cache entry
        for a_ in fn.params():
            ann = src(a_.annotation).strip("'\"") if a_.annotation is not None else ''
            kc = index.find_class(ann.split('[')[0].split('.')[-1]) if ann else None
            eqm = kc.methods.get('__eq__') if kc is not None else None
            if eqm is None:
                continue
            compared = {n.attr for n in ast.walk(eqm.node) if isinstance(n, ast.Attribute)
                        and isinstance(n.value, ast.Name)}
            read = {n.attr for n in ast.walk(fn.node) if isinstance(n, ast.Attribute)
                    and isinstance(n.value, ast.Name) and n.value.id == a_.arg
                    and isinstance(n.ctx, ast.Load)}
            methods_ = set(kc.methods)
            missing = sorted(read - compared - methods_)
            rep.check(not missing, rule, rel, fn.short, fn.node.lineno,
                      f'{name}({a_.arg}: {kc.name})',
                      f'memoised {name} reads `{a_.arg}.{missing[0] if missing else ""}`, which '
                      f'{kc.name}.__eq__ does not compare: two inputs that differ there share one '
                      f'cache entry (later answers depend on earlier calls)',
                      f'{name}: key class {kc.name} compares what is read')
        draws = [e for e in eff.walks[eff.qual(fn)].events if e.kind == 'call'
                 and isinstance(e.node.func, ast.Attribute) and 'rng' in src(e.node.func.value)]
        rep.check(not draws, rule, rel, fn.short, fn.node.lineno, name,
                  f'memoised {name} draws random numbers', f'{name} deterministic')
        # global reads of mutable module state
        reads = set()
        w_ = eff.walks[eff.qual(fn)]
        for n in ast.walk(fn.node):
            if isinstance(n, ast.Name) and isinstance(n.ctx, ast.Load) and \
                    n.id in fn.module.assigns and n.id not in w_.params and n.id not in w_.defs:
                vals = fn.module.assigns[n.id]
                if any(isinstance(v, (ast.List, ast.Dict, ast.Set)) for v in vals):
                    reads.add(n.id)
        rep.check(not reads, rule, rel, fn.short, fn.node.lineno, ', '.join(sorted(reads)),
                  f'memoised {name} reads mutable module state {sorted(reads)}',
                  f'{name} reads no mutable global')
        # call sites: the cached result is only read
        for q, g in eff.funcs.items():
            wq = eff.walks[q]
            for e in wq.events:
                if e.kind != 'call' or src(e.node.func) != name:
                    continue
                bound = [n_ for n_, ds in wq.defs.items() for d in ds
                         if d[0] == 'value' and d[1] is e.node]
                bad_uses = []
                ann = src(fn.node.returns) if fn.node.returns is not None else ''
                immutable = ann in ('int', 'float', 'bool', 'str') or ann.startswith('Tuple[') \
                    or ann.startswith('tuple[')
                rc_ = index.find_class(ann.strip("'\"").split('[')[0].split('.')[-1]) if ann else None
                if rc_ is not None:
                    decos_ = [src(d_) for d_ in rc_.node.decorator_list]
                    immutable = any('frozen=True' in d_ for d_ in decos_) or \
                        any(b_.endswith('Enum') for b_ in rc_.bases)
                # the cached object itself returned to the caller (`return cached(..)`): a
                # mutable result becomes storage shared by everyone who asks
                if not immutable:
                    for x in wq.events:
                        if x.kind == 'return' and x.value is e.node:
                            bad_uses.append(src(x.stmt)[:80] + '  (returns the cached object)')
                for bn in bound:
                    if not immutable:
                        for d_ in wq.defs.get(bn, []):
                            if d_[0] == 'aug':
                                # `x -= c` on an array / list updates the cached object itself
                                bad_uses.append(src(d_[1]) + '  (in-place update)')
                    for x in wq.events:
                        root = None
                        if x.kind in ('store', 'augstore', 'attrstore', 'delete'):
                            t = x.target
                            while isinstance(t, (ast.Subscript, ast.Attribute)):
                                t = t.value
                            root = t.id if isinstance(t, ast.Name) else None
                            if root == bn:
                                bad_uses.append(src(x.stmt))
                        if x.kind == 'call' and isinstance(x.node.func, ast.Attribute):
                            t = x.node.func.value
                            while isinstance(t, (ast.Subscript, ast.Attribute)):
                                t = t.value
                            from ..guards import MUTATORS
                            if isinstance(t, ast.Name) and t.id == bn and \
                                    x.node.func.attr in MUTATORS:
                                bad_uses.append(src(x.node))
                        if x.kind == 'return' and x.value is not None and \
                                isinstance(x.value, ast.Name) and x.value.id == bn:
                            # returning the cached object hands out shared storage
                            if not any(g is v for r in index.registries.values()
                                       for v in r.values()) or True:
                                bad_uses.append(src(x.stmt) + '  (returns the cached object)')
                    # elements bound by iteration over the cached result
                if not immutable:
                    for t_ in eff.mutations_of(q, e.node):
                        if not any(t_.startswith(b_[:40]) for b_ in bad_uses):
                            bad_uses.append(t_)
                rep.check(not bad_uses, rule, g.relpath, g.short, e.line, src(e.node)[:80],
                          f'the memoised result of {name} is modified or handed out: '
                          f'{bad_uses[:2]} -- later calls would see the change',
                          f'{g.short}: result of {name} only read')



def shared_class_attributes(index: RepoIndex, rep, rule: str, only=None) -> None:
    """a class-level attribute bound to a mutable display (`colors: Set[Color] = {Color.NONE}`)
    is one object for all instances: a method that updates it in place through `self`
    (`self.colors |= ..`, `self.items.append(..)`) without ever assigning the attribute on the
    instance makes every instance -- every space, every environment -- share and grow it"""
    n = 0
    for mod in index.modules.values():
        if not mod.relpath.startswith('gym_gridverse/'):
            continue
        for c in mod.classes.values():
            if only is not None and c.name not in only:
                continue
            shared = {}
            for st in c.node.body:
                tg = st.target if isinstance(st, ast.AnnAssign) else (
                    st.targets[0] if isinstance(st, ast.Assign) and len(st.targets) == 1
                    else None)
                v = getattr(st, 'value', None)
                if isinstance(tg, ast.Name) and isinstance(
                        v, (ast.Set, ast.List, ast.Dict, ast.ListComp, ast.SetComp,
                            ast.DictComp)) or (
                        isinstance(tg, ast.Name) and isinstance(v, ast.Call) and
                        src(v.func) in ('set', 'list', 'dict')):
                    shared[tg.id] = st
            for attr, st in sorted(shared.items()):
                n += 1
                assigned = False
                updates = []
                for m in c.methods.values():
                    for x in ast.walk(m.node):
                        if isinstance(x, (ast.Assign, ast.AnnAssign)):
                            tgs = x.targets if isinstance(x, ast.Assign) else [x.target]
                            if any(src(t) == f'self.{attr}' for t in tgs):
                                assigned = True
                        if isinstance(x, ast.AugAssign) and src(x.target) == f'self.{attr}':
                            updates.append(x)
                        if isinstance(x, ast.Call) and isinstance(x.func, ast.Attribute) and \
                                src(x.func.value) == f'self.{attr}' and x.func.attr in (
                                    'add', 'update', 'append', 'extend', 'insert', 'remove',
                                    'discard', 'pop', 'clear', 'setdefault', '__setitem__'):
                            updates.append(x)
                bad = updates if not assigned else []
                rep.check(not bad, rule, mod.relpath, f'{c.name}.{attr}', st.lineno,
                          src(st)[:100],
                          f'`{c.name}.{attr}` is a class-level {type(st.value).__name__.lower()} '
                          f'updated in place through self (line '
                          f'{bad[0].lineno if bad else 0}: `{src(bad[0])[:60] if bad else ""}`) '
                          f'and never assigned on the instance: all {c.name} objects share it, '
                          f'so what one declares leaks into the others',
                          f'{c.name}.{attr} not shared between instances')
    rep.holds(rule, 'class-level mutable attributes', f'{n} checked')


def shared_mutable_constants(index: RepoIndex, rep, rule: str) -> None:
    """a module-level object of a mutable class of the package (Transform, Agent, Grid, State,
    a grid object) is only ever *read through* (`_TOP_LEFT.position`): when the object itself
    is stored into a state, passed to a constructor or returned, every state built that way
    shares it, and the in-place dynamics of one state move the others (and the next reset)"""
    mutable = set()
    for mod in index.modules.values():
        if not mod.relpath.startswith('gym_gridverse/'):
            continue
        for c in mod.classes.values():
            decs = [src(d) for d in c.node.decorator_list]
            frozen = any('frozen=True' in d for d in decs)
            is_enum = any(b.split('.')[-1] in ('Enum', 'IntEnum', 'Flag') for b in c.bases)
            if not frozen and not is_enum:
                mutable.add(c.name)
    n_consts = 0
    for mod in index.modules.values():
        if not mod.relpath.startswith('gym_gridverse/'):
            continue
        consts = {}
        for name, vals in mod.assigns.items():
            if len(vals) == 1 and isinstance(vals[0], ast.Call) and \
                    isinstance(vals[0].func, ast.Name) and vals[0].func.id in mutable and \
                    not name.endswith('_registry'):
                consts[name] = vals[0].func.id
        if not consts:
            continue
        parents = {}
        for n in ast.walk(mod.tree):
            for ch in ast.iter_child_nodes(n):
                parents[id(ch)] = n
        for name, cname in sorted(consts.items()):
            n_consts += 1
            flows = []
            for n in ast.walk(mod.tree):
                if isinstance(n, ast.Name) and n.id == name and isinstance(n.ctx, ast.Load):
                    p = parents.get(id(n))
                    if isinstance(p, ast.Attribute) and p.value is n:
                        # read through -- unless it is a mutator call on the shared object
                        continue
                    if isinstance(p, ast.Compare):
                        continue
                    flows.append(n)
            rep.check(not flows, rule, mod.relpath, name,
                      flows[0].lineno if flows else 1,
                      f'{name} = {cname}(..)',
                      f'the module-level {cname} `{name}` is handed on as an object '
                      f'(line {flows[0].lineno if flows else 0}: `'
                      f'{src(parents.get(id(flows[0]), flows[0]))[:80] if flows else ""}`): every '
                      f'state built with it shares one mutable {cname}, so moving or turning one '
                      f'agent in place moves the others and shifts where later resets start',
                      f'{name} only read through')
    rep.holds(rule, 'module-level mutable objects', f'{n_consts} module-level objects of mutable '
              f'package classes checked')


def registry_write_once(index: RepoIndex, rep, rule: str) -> None:
    """the function registries are looked up by name at every call of a shipped component
    (`visibility_function_registry['raytracing']`), so a name that is bound is never bound
    again: in FunctionRegistry every store of an entry happens only when the name is absent
    (ValueError otherwise), and no other method or function of the package stores, deletes or
    updates entries"""
    from ..guards import (MUTATORS, parse_guard, prop_implies, show, strip_iter)
    rel = 'gym_gridverse/utils/registry.py'
    cls = index.cls(rel, 'FunctionRegistry')
    n = 0
    for mname, m in sorted(cls.methods.items()):
        w = walk_function(m.node)
        me = m.node.args.args[0].arg if m.node.args.args else 'self'
        for e in w.events:
            tgt = None
            if e.kind in ('store', 'augstore', 'delete'):
                tgt = e.target
            elif e.kind == 'call' and isinstance(e.node.func, ast.Attribute) and \
                    e.node.func.attr in MUTATORS | {'__setitem__', '__delitem__'} and \
                    src(e.node.func.value) in (me, f'{me}.data'):
                rep.violation(rule, rel, m.short, e.line, src(e.node)[:100],
                              f'{m.short} updates the registry in place (`{src(e.node)[:60]}`): '
                              f'a registered name can come to denote another function')
                n += 1
                continue
            if not (isinstance(tgt, ast.Subscript) and src(tgt.value) in (me, f'{me}.data')):
                continue
            n += 1
            key = src(tgt.slice)
            g = w.expand_formula(strip_iter(e.guard), stop=[key])
            absent = [parse_guard(f'{key} not in {me}.data'), parse_guard(f'{key} not in {me}')]
            ok = e.kind == 'store' and any(prop_implies(g, a) is None for a in absent)
            rep.check(ok, rule, rel, m.short, e.line, src(e.stmt)[:100],
                      f'{m.short} stores `{src(tgt)}` without the name being absent on every '
                      f'path (guard: `{show(strip_iter(e.guard))[:120]}`): registering again '
                      f'replaces a function that environments which already exist look up by '
                      f'name at every call', f'{m.short}: entries written once')
    if n == 0:
        raise AnalysisError('FunctionRegistry: no store of an entry found (outside the grammar)')
    # nobody else writes an entry
    for mod in index.modules.values():
        if not mod.relpath.startswith('gym_gridverse/') or mod.relpath == rel:
            continue
        for x in ast.walk(mod.tree):
            t = None
            if isinstance(x, (ast.Assign, ast.AugAssign, ast.Delete)):
                ts = x.targets if isinstance(x, (ast.Assign, ast.Delete)) else [x.target]
                for t_ in ts:
                    if isinstance(t_, ast.Subscript) and \
                            src(t_.value).split('.')[-1].endswith('_function_registry'):
                        t = t_
            if isinstance(x, ast.Call) and isinstance(x.func, ast.Attribute) and \
                    x.func.attr in (MUTATORS - {'register'}) | {'__setitem__'} and \
                    src(x.func.value).split('.')[-1].endswith('_function_registry'):
                t = x
            if t is not None:
                rep.violation(rule, mod.relpath, '<module>', x.lineno, src(x)[:100],
                              f'`{src(x)[:80]}` writes a function registry directly: a '
                              f'registered name can come to denote another function')
    rep.holds(rule, 'registry entries written only by register', f'{n} store(s)')


def one_object_per_cell(index: RepoIndex, rep, rule: str) -> None:
    """every place that fills grid cells from an object factory calls the factory once per cell:
    `Grid.from_shape` builds rows and cells by two nested comprehensions with the call in the
    innermost element; the drawing helpers store `factory()` directly into the cell inside the
    per-cell loop.  A row built once and replicated, or an object created once and stored into
    several cells, is one mutable object (a Door!) living in several cells."""
    rep.rule(rule, 'cells filled from an object factory get one object each (no object is '
             'placed in two cells)', floor=3)
    fs = index.func(GRID, 'Grid.from_shape')
    w = walk_function(fs.node)
    fac = next((a.arg for a in fs.params() if 'factory' in a.arg.lower()), None)
    if fac is None:
        raise AnalysisError('Grid.from_shape lost its factory parameter')
    rets = [e for e in w.events if e.kind == 'return' and e.value is not None]
    ok = bool(rets)
    got = ''
    for r in rets:
        v = w.expand(r.value)
        got = src(v)[:120]
        rows = v.args[0] if isinstance(v, ast.Call) and src(v.func) == 'Grid' and \
            len(v.args) == 1 else None
        good = isinstance(rows, ast.ListComp) and isinstance(rows.elt, ast.ListComp) and \
            any(isinstance(n, ast.Call) and src(n.func) == fac for n in ast.walk(rows.elt.elt)) \
            and not any(isinstance(n, ast.Call) and src(n.func) == fac
                        for g in rows.generators + rows.elt.generators for n in ast.walk(g.iter))
        ok = ok and good
    rep.check(ok, rule, GRID, 'Grid.from_shape', fs.node.lineno, got,
              f'Grid.from_shape does not call `{fac}()` once per cell (rows or objects are '
              f'replicated): cells would share one object, so opening one door opens another',
              'from_shape: one object per cell')
    design = index.module('gym_gridverse/design.py')
    n = 0
    for fn in design.functions.values():
        fp = [a.arg for a in fn.params() if 'factory' in a.arg.lower()]
        if not fp:
            continue
        w2 = walk_function(fn.node)
        for e in w2.events:
            if e.kind != 'call' or src(e.node.func) not in fp:
                continue
            n += 1
            st = e.stmt
            direct = isinstance(st, ast.Assign) and st.value is e.node and \
                len(st.targets) == 1 and isinstance(st.targets[0], ast.Subscript) and bool(e.loops)
            rep.check(direct, rule, design.relpath, fn.name, e.line, src(st)[:100],
                      f'{fn.name} does not store `{src(e.node)}` straight into one cell per '
                      f'iteration: the object could end up in several cells',
                      f'{fn.name}: one object per drawn cell')
    if n < 2:
        raise AnalysisError('design.py: fewer than 2 factory calls found (anchor moved)')


def run(index: RepoIndex, rep) -> None:
    rep.rule('C03.R1', 'copy before mutate: the transition runs on fast_copy(state) (a deep '
             'copy) and that copy is returned; functional_step only uses transition_with_copy',
             floor=5)
    rep.rule('C03.R2', 'read-only components: empty may-mutate summaries', floor=70)
    rep.rule('C03.R3', 'the observation grid that receives Hidden() stores is fresh at depth 2',
             floor=4)
    rep.rule('C03.R4', 'memoised helpers are pure, hashable-keyed, and their results only read',
             floor=5)
    rep.rule('C03.R5', 'equality and hashing are structural and agree; hashes are not '
             'memoised', floor=8)
    rep.rule('C03.R6', 'registered components are not wrapped by caching decorators; state '
             'classes use the default copy protocol (or a __reduce__ that rebuilds every '
             'constructor argument)', floor=50)
    eff = Effects(index)

    # ---------------------------------------------------------------- R1
    f = index.func(TRANS, 'transition_with_copy')
    w = walk_function(f.node)
    ps = [a.arg for a in f.node.args.args]
    tfp, sp, ap = ps[0], ps[1], ps[2]
    calls = [e for e in w.events if e.kind == 'call' and src(e.node.func) == tfp]
    rep.check(len(calls) == 1, 'C03.R1', TRANS, 'transition_with_copy', f.node.lineno,
              '; '.join(src(c.node) for c in calls),
              f'the in-place transition is invoked {len(calls)} times', 'one transition call')
    copy_name = None
    if calls:
        a0 = calls[0].node.args[0] if calls[0].node.args else None
        ok = isinstance(a0, ast.Name) and a0.id != sp
        d = w.single_def(a0.id) if ok else None
        from ..view import deep_copy_of
        ok = ok and d is not None and d[0] == 'value' and \
            deep_copy_of(index, f.module, d[1], sp)
        rep.check(bool(ok), 'C03.R1', TRANS, 'transition_with_copy', calls[0].line,
                  src(calls[0].node),
                  f'the transition mutates `{src(a0) if a0 is not None else None}`, which is '
                  f'not a fresh `fast_copy({sp})`: the caller\'s state would be modified or '
                  f'share components with the result', 'transition on the copy')
        copy_name = a0.id if isinstance(a0, ast.Name) else None
        a1 = calls[0].node.args[1] if len(calls[0].node.args) > 1 else None
        rep.check(a1 is not None and src(a1) == ap, 'C03.R1', TRANS, 'transition_with_copy',
                  calls[0].line, src(calls[0].node), 'the action is not passed unchanged',
                  'action unchanged')
    rets = [e for e in w.events if e.kind == 'return' and e.value is not None]
    rep.check(len(rets) == 1 and copy_name is not None and src(rets[0].value) == copy_name,
              'C03.R1', TRANS, 'transition_with_copy', f.node.lineno,
              '; '.join(src(r.stmt) for r in rets),
              'transition_with_copy does not return the copied-and-transitioned state',
              'returns the copy')
    fc = index.func(FAST, 'fast_copy')
    b = fc.body()
    xp = fc.node.args.args[0].arg
    good = {f'pickle.loads(pickle.dumps({xp}))', f'copy.deepcopy({xp})', f'deepcopy({xp})',
            f'pickle.loads(pickle.dumps({xp}, protocol=pickle.HIGHEST_PROTOCOL))',
            f'pickle.loads(pickle.dumps({xp}, pickle.HIGHEST_PROTOCOL))'}
    from ..inline import pure_body_expr as _pbe
    from ..view import deep_copy_of as _dco
    _fe = _pbe(fc.node)
    rep.check((_fe is not None and (src(_fe) in good or _dco(index, fc.module, _fe, xp))),
              'C03.R1', FAST, 'fast_copy', fc.node.lineno, src(b[-1]),
              'fast_copy is not a deep copy (pickle round trip / copy.deepcopy): the copy '
              'would share mutable components with the original', 'fast_copy is deep')
    from ..view import step_wiring
    sw = step_wiring(index)
    fs = sw['func']
    tcs = sw['tcalls']
    okc = len(tcs) == 1 and sw['copy'] is not None and sw['copy_deep']
    rep.check(okc, 'C03.R1', GW, 'GridWorld.functional_step', fs.node.lineno,
              '; '.join(src(e.node) for e in tcs) or 'functional_step',
              'functional_step runs the in-place transition on something other than one fresh '
              f'fast_copy of its input state (mutated: `{sw["copy"]}` = `{sw["copy_def"]}`)',
              'no direct in-place transition')
    # the returned next state is that copy, on every path (never the input handed back)
    from .wiring import step_on_callers_state
    step_on_callers_state(index, rep, 'C03.R1')
    from .wiring import records_as_given
    records_as_given(index, rep, 'C03.R1')

    # ---------------------------------------------------------------- R2
    def check_ro(fn: Func, allowed: Set[str], label: str):
        s = eff.summary(fn)
        bad = sorted(s.mut_params - allowed)
        sites = [f'{p}: line {l} `{t}`' for p in bad for l, t in s.mut_sites.get(p, [])[:2]]
        gw_ = sorted(s.global_writes - {'_gv_rng', '_gv_debug'})
        rep.check(not bad and not gw_, 'C03.R2', fn.relpath, fn.short,
                  (s.mut_sites.get(bad[0], [(fn.node.lineno, '')])[0][0] if bad
                   else fn.node.lineno),
                  '; '.join(sites) or ', '.join(gw_) or fn.short,
                  f'{label} {fn.short} may modify its argument(s) {bad} '
                  f'{("/ module state " + str(gw_)) if gw_ else ""}: ' + '; '.join(sites),
                  f'{fn.short} read-only')

    for role, floor in (('reward', 13), ('terminating', 7), ('visibility', 4),
                        ('observation', 5)):
        for name, fn in sorted(index.registry(role, floor).items()):
            check_ro(fn, set(), f'{role} function')
            for nname, nf in eff.nested.get(fn.qualname, {}).items():
                check_ro(nf, set(), f'helper of {role} function {name}')
    vis_mod = index.module('gym_gridverse/envs/visibility_functions.py')
    for name, fn in vis_mod.functions.items():
        if name.startswith('_partially_occluded'):
            # the flood fill marks its own fresh visibility array, never the grid
            check_ro(fn, {fn.node.args.args[0].arg} if name.endswith('make_visible') else set(),
                     'visibility helper')
    for rel, name in READ_ONLY_FUNCS:
        if name.endswith(('.__eq__', '.__hash__')):
            # generated by @dataclass when absent: nothing to read
            cn = name.split('.')[0]
            c_ = index.module(rel).classes.get(cn)
            if c_ is not None and name.split('.')[1] not in c_.methods and \
                    any(src(d).startswith('dataclass') for d in c_.node.decorator_list):
                rep.holds('C03.R2', f'{rel}:{name}', 'generated by @dataclass')
                continue
        fn = index.func(rel, name)
        allowed = set()
        check_ro(fn, allowed, 'read-only function')
    for mod in index.modules.values():
        if mod.relpath.startswith('gym_gridverse/representations/'):
            for c in mod.classes.values():
                for mn in ('convert', 'space'):
                    if mn in c.methods:
                        check_ro(c.methods[mn], set(), 'representation')
            for fn in mod.functions.values():
                if fn.name.endswith('_convert') or fn.name.endswith('_space'):
                    check_ro(fn, set(), 'representation function')

    # ---------------------------------------------------------------- R4 (model-independent:
    # decided before the slice / rotation models, which may refuse a rewritten grid)
    memo_rules(index, rep, 'C03.R4', eff)

    # ---------------------------------------------------------------- R3
    geo = Geometry(index)
    pipe = Pipeline(index, geo)
    from ..obsmodel import SubgridUnmodelled
    try:
        sub = Subgrid(index)
    except SubgridUnmodelled as ex:
        for e_, t_ in ex.shared:
            rep.violation('C03.R3', GRID, 'Grid.subgrid', e_.line, t_,
                          f'Grid.subgrid can return its own row lists (`{t_}`): masking an '
                          f'observation would write Hidden into the state')
        raise
    sf = sub.func
    rep.check(not sub.aliasing_returns, 'C03.R3', GRID, 'Grid.subgrid', sf.node.lineno,
              '; '.join(t for _, t in sub.aliasing_returns) or 'Grid.subgrid',
              'Grid.subgrid can return storage that is not rebuilt (itself / its rows): '
              'masking an observation would write Hidden into the state',
              'subgrid always rebuilds')
    rep.check(sub.fresh_outer and sub.fresh_rows, 'C03.R3', GRID, 'Grid.subgrid',
              sf.node.lineno, src(sub.rows_expr)[:100],
              'the slice shares its outer list or rows with the grid', 'slice fresh at depth 2')
    src_grid, area_e, rot_e = pipe.decompose_grid()
    if getattr(pipe, 'state_grid_shortcut', None):
        rep.violation('C03.R3', OBS, 'from_visibility', pipe.func.node.lineno,
                      f'S.grid if {pipe.state_grid_shortcut}',
                      f'when `{pipe.state_grid_shortcut}` the observation grid is the state\'s '
                      f'own grid turned by the heading -- for FORWARD the very same rows -- and '
                      f'the masking writes Hidden() into the state')
    rep.holds('C03.R3', f'{OBS}:from_visibility:{pipe.func.node.lineno}',
              f'masked grid = fresh slice `{src(src_grid)}.subgrid(..)` rotated')
    for o, m in sorted(geo.grid_rot.items()):
        rep.holds('C03.R3', f'{GRID}:{geo.grid_rot_name[o]}',
                  f'rotation {o}: fresh_outer={m.fresh_outer} fresh_rows={m.fresh_rows} '
                  f'(applied to the fresh slice, so aliasing the operand is harmless)')
    gm = index.func(GRID, 'Grid.__mul__')
    wm = walk_function(gm.node)
    st = [e for e in wm.events if e.kind in ('store', 'attrstore', 'augstore')]
    rep.check(not st, 'C03.R3', GRID, 'Grid.__mul__', gm.node.lineno,
              '; '.join(src(e.stmt) for e in st) or 'Grid.__mul__',
              'Grid.__mul__ writes to its operand', 'rotation does not write')
    # the state's cells are only referenced: nothing in from_visibility stores into S.*
    wv = pipe.walk
    bad = [e for e in wv.events if e.kind in ('store', 'attrstore', 'augstore')
           and src(wv.expand(e.target, pipe.ren, stop=[pipe.grid_name])).startswith('S.')]
    rep.check(not bad, 'C03.R3', OBS, 'from_visibility', pipe.func.node.lineno,
              '; '.join(src(e.stmt) for e in bad) or 'from_visibility',
              'from_visibility stores into the state', 'state only referenced')


    # ---------------------------------------------------------------- R7
    rep.rule('C03.R7', 'no default argument is a constructed object: it would be one instance '
             'shared by every call, hence by every state it is stored into', floor=1)
    n_fn = 0
    for fn_ in index.all_functions(PKG):
        n_fn += 1
        a_ = fn_.node.args
        for d_ in list(a_.defaults) + [k for k in a_.kw_defaults if k is not None]:
            if isinstance(d_, (ast.Call, ast.List, ast.Dict, ast.Set, ast.ListComp,
                               ast.DictComp, ast.SetComp)):
                rep.violation('C03.R7', fn_.relpath, fn_.short, d_.lineno, src(d_),
                              f'default argument `{src(d_)[:60]}` of {fn_.short} is evaluated '
                              f'once at import: every call that uses it stores the same object '
                              f'(two states, or a state and its successor, would share a '
                              f'mutable component)')
    rep.holds('C03.R7', 'scan', f'{n_fn} functions: no constructed default argument')

    one_object_per_cell(index, rep, 'C03.R8')
    shared_mutable_constants(index, rep, 'C03.R8')
    # ... nor do the factories put anything consumable (an iterator) or altered into the
    # keyword arguments they bind
    from .c17 import factory_rules
    factory_rules(index, rep, 'C03.R9')
    rep.rule('C03.R10', 'registered component names are bound once: what an existing '
             'environment looks up by name cannot change when another environment registers '
             'its own functions', floor=2)
    registry_write_once(index, rep, 'C03.R10')
    shared_class_attributes(index, rep, 'C03.R8')
    # a composite keeps its parts between calls: they are a list, not an iterator a call consumes
    rep.rule('C03.R9', 'what a configured composite keeps between calls is not consumed by a '
             'call: its parts are materialised, one per configured entry (C17.R6)', floor=3)
    from .c17 import composite_parts
    composite_parts(index, rep, 'C03.R9')
    # ---------------------------------------------------------------- R6
    component_decorators(index, rep, 'C03.R6')
    copy_protocol(index, rep, 'C03.R6')

    # ---------------------------------------------------------------- R5
    eq_hash(index, rep, 'C03.R5', eff)


def component_decorators(index: RepoIndex, rep, rule: str) -> None:
    """registered components are plain functions: no caching / wrapping decorator"""
    for role, reg in sorted(index.registries.items()):
        for name, fn in sorted(reg.items()):
            decs = [src(d) for d in fn.node.decorator_list]
            extra = [d for d in decs if not d.split('(')[0].endswith('_registry.register')]
            rep.check(not extra, rule, fn.relpath, name, fn.node.lineno,
                      '; '.join('@' + d for d in decs),
                      f'{role} function {name} is wrapped by {extra}: a memoising / wrapping '
                      f'decorator makes its answer depend on earlier calls (states are mutable '
                      f'and compare by value, Box contents excluded)',
                      f'{role} {name}: no wrapper')
    # no module-level rebinding of a registered component to a wrapped version
    for mod in index.modules.values():
        if not mod.relpath.startswith(PKG):
            continue
        names = {n for r in index.registries.values() for n, f in r.items() if f.module is mod}
        for n in names & set(mod.assigns):
            rep.violation(rule, mod.relpath, n, getattr(mod.assigns[n][0], 'lineno', 1),
                          f'{n} = {src(mod.assigns[n][0])[:60]}',
                          f'registered component {n} is rebound at module level (wrapped?)')


PICKLE_HOOKS = ('__reduce__', '__reduce_ex__', '__getstate__', '__setstate__', '__copy__',
                '__deepcopy__', '__getnewargs__', '__getnewargs_ex__')


def copy_protocol(index: RepoIndex, rep, rule: str) -> None:
    """classes that make up a state either use the default pickling protocol, or their
    __reduce__ rebuilds every constructor argument of every concrete subclass"""
    n = 0
    for rel in ('gym_gridverse/grid_object.py', GRID, 'gym_gridverse/agent.py',
                'gym_gridverse/state.py', 'gym_gridverse/observation.py', GEOMF):
        mod = index.module(rel)
        for c in mod.classes.values():
            n += 1
            hooks = [h for h in PICKLE_HOOKS if index.method(c, h) is not None]
            if not hooks:
                rep.holds(rule, f'{rel}:{c.name}', 'default copy/pickle protocol')
                continue
            ok, why = True, ''
            for h in hooks:
                m = index.method(c, h)
                if h != '__reduce__':
                    ok, why = False, f'{c.name} customises {h} (defined in {m.cls.name})'
                    break
                init = index.method(c, '__init__')
                params = [a.arg for a in init.node.args.args[1:]] if init is not None else []
                w = walk_function(m.node)
                rets = [e.value for e in w.events if e.kind == 'return' and e.value is not None]
                good = False
                if len(rets) == 1 and isinstance(rets[0], ast.Tuple) and len(rets[0].elts) >= 2 \
                        and isinstance(rets[0].elts[1], ast.Tuple):
                    args = rets[0].elts[1].elts
                    stored = {}
                    if init is not None:
                        for x in ast.walk(init.node):
                            if isinstance(x, ast.Assign) and len(x.targets) == 1 and \
                                    isinstance(x.targets[0], ast.Attribute) and \
                                    src(x.targets[0].value) == 'self' and \
                                    isinstance(x.value, ast.Name):
                                stored[x.value.id] = x.targets[0].attr
                    good = len(args) == len(params) and all(
                        src(a) == f'self.{stored.get(p_, p_)}' for a, p_ in zip(args, params))
                if not good:
                    ok = False
                    why = (f'{c.name} is rebuilt by {m.cls.name}.__reduce__, which does not pass '
                           f'its constructor arguments {params}: a copied state loses them '
                           f'(e.g. the colour of an exit)')
                    break
            rep.check(ok, rule, rel, c.name, c.node.lineno, ', '.join(hooks), why,
                      f'{c.name}: copy protocol rebuilds all fields')
    if n < 15:
        raise AnalysisError(f'copy protocol rule saw {n} classes, floor is 15')


def eq_hash(index: RepoIndex, rep, rule: str, eff) -> None:
    for rel, cname in (('gym_gridverse/grid_object.py', 'GridObject'), (GRID, 'Grid'),
                       ('gym_gridverse/agent.py', 'Agent')):
        c = index.cls(rel, cname)
        hs = c.methods.get('__hash__')
        if hs is not None:
            sm = eff.summary(hs)
            rep.check(not sm.mut_params, rule, rel, f'{cname}.__hash__', hs.node.lineno,
                      '; '.join(t for _, t in sm.mut_sites.get('self', [])[:2]) or '__hash__',
                      f'{cname}.__hash__ stores into the object (a memoised hash goes stale when '
                      f'a cell object is mutated in place, e.g. a door opened by ACTUATE, and '
                      f'travels with copies): equal objects would hash differently',
                      f'{cname}.__hash__ not memoised')
    for rel, cname, ignore in (('gym_gridverse/grid_object.py', 'GridObject', set()),
                               (GRID, 'Grid', {'shape', 'area'}),
                               ('gym_gridverse/agent.py', 'Agent', set())):
        c = index.cls(rel, cname)
        eq, hs = c.methods.get('__eq__'), c.methods.get('__hash__')
        decs_ = [src(d) for d in c.node.decorator_list]
        dc_ = [d for d in decs_ if d.startswith('dataclass')]
        if eq is None and hs is None and dc_ and 'eq=False' not in dc_[0] and \
                ('frozen=True' in dc_[0] or 'unsafe_hash=True' in dc_[0]):
            # generated structural equality and hash over the same fields; fields excluded
            # from comparison are excluded from the hash as well
            rep.holds(rule, f'{rel}:{cname}', f'{cname} is a dataclass with generated eq/hash')
            continue
        if eq is None or hs is None:
            rep.violation(rule, rel, cname, c.node.lineno, cname,
                          f'{cname} lacks __eq__ or __hash__: equal copies would not hash alike')
            continue

        def fields(fn: Func) -> Set[str]:
            out = set()
            me = fn.node.args.args[0].arg
            for n in ast.walk(fn.node):
                if isinstance(n, ast.Attribute) and isinstance(n.value, ast.Name) \
                        and n.value.id == me:
                    out.add(n.attr)
                if isinstance(n, ast.Subscript) and isinstance(n.value, ast.Name) \
                        and n.value.id == me:
                    out.add('objects')
            return {('objects' if a in ('objects', '__getitem__') else a) for a in out} - ignore

        fe, fh = fields(eq), fields(hs)
        rep.check(fh <= fe and bool(fh), rule, rel, f'{cname}.__hash__', hs.node.lineno,
                  f'hash reads {sorted(fh)}, eq compares {sorted(fe)}',
                  f'{cname}.__hash__ reads {sorted(fh - fe)} which __eq__ does not compare: '
                  f'equal objects may hash differently', f'{cname} hash subset of eq')
        rep.check(fe <= fh | ignore, rule, rel, f'{cname}.__eq__', eq.node.lineno,
                  f'hash reads {sorted(fh)}, eq compares {sorted(fe)}',
                  f'{cname}.__eq__ compares {sorted(fe - fh)} which __hash__ ignores',
                  f'{cname} eq fields hashed')
        for fn in (eq, hs):
            ident = [src(n) for n in ast.walk(fn.node)
                     if (isinstance(n, ast.Call) and src(n.func) == 'id')
                     or (isinstance(n, ast.Compare) and any(isinstance(o, (ast.Is, ast.IsNot))
                                                            for o in n.ops)
                         and not any(src(x) in ('None', 'NotImplemented')
                                     for x in [n.left] + n.comparators))]
            rep.check(not ident, rule, rel, fn.short, fn.node.lineno,
                      '; '.join(ident) or fn.short,
                      f'{fn.short} uses identity ({ident}): a copied state would not equal / '
                      f'hash like its original', f'{fn.short} structural')
    for rel, cname in ((GEOMF, 'Position'), (GEOMF, 'Area'), (GEOMF, 'Shape'),
                       (GEOMF, 'Transform'), ('gym_gridverse/state.py', 'State'),
                       ('gym_gridverse/observation.py', 'Observation')):
        c = index.cls(rel, cname)
        decs = [src(d) for d in c.node.decorator_list]
        dc = [d for d in decs if d.startswith('dataclass')]
        ok = bool(dc) and 'eq=False' not in dc[0] and \
            not ('__eq__' in c.methods or '__hash__' in c.methods)
        hashable = bool(dc) and ('frozen=True' in dc[0] or 'unsafe_hash=True' in dc[0])
        rep.check(ok and hashable, rule, rel, cname, c.node.lineno, '; '.join(decs),
                  f'{cname} is not a dataclass with generated structural equality and hash',
                  f'{cname} dataclass eq/hash')
