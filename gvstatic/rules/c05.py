"""C05 -- observations are sound.  (C07 reuses `frame_consistency`.)"""
from __future__ import annotations

import ast
import itertools
from typing import Dict, List, Optional, Tuple

from ..affine import Aff, NonAffine, aff_of
from ..core import AnalysisError, src
from ..geom import GRID, A, GeoInterp, Geometry, P
from ..guards import atoms_of, f_not, formula_of, show, strip_iter, walk_function
from ..index import RepoIndex
from ..inteval import CannotEval, ev
from ..obsmodel import OBS, Pipeline, Subgrid

EXPLANATION = (
    'Symbolic frame-consistency proof of the slice-then-rotate pipeline of '
    'from_visibility: for each of the four headings the world cell shown at view cell '
    '(i, j) is derived from the extracted Area branch of Orientation.__mul__, Position + '
    'Area, the row/column order and bounds of Grid.subgrid and the index map of the grid '
    'rotation chosen by _grid_rotation_functions, and proved equal -- as affine forms, hence '
    'for every area, position and cell -- to p + M(o)·(A.ymin + i, A.xmin + j); plus '
    'structural rules on padding (two-sided bounds, Hidden outside), masking (only Hidden() '
    'is stored, exactly where the visibility array is false, index order (y, x)), the '
    'observation agent and the four wrappers.')
TRUSTED = ['range/list-comprehension semantics used by the subgrid abstraction',
           'C18: the extracted matrices are rotations (checked there)']

VIS = 'gym_gridverse/envs/visibility_functions.py'


class _Repl(ast.NodeTransformer):
    def __init__(self, mp):
        self.mp = mp

    def visit(self, node):
        s = src(node) if isinstance(node, ast.expr) else None
        if s in self.mp:
            return ast.Name(self.mp[s], ast.Load())
        return super().visit(node)


def geo_expr(e: ast.AST) -> ast.AST:
    import copy
    mp = {'S.agent.transform': 'T', 'S.agent': 'T'}
    e = _Repl(mp).visit(copy.deepcopy(e))
    # S.agent.position / .orientation became T.position / T.orientation through `S.agent`
    return e


def frame_consistency(index: RepoIndex, rep, rule: str, geo: Geometry, pipe: Pipeline,
                      sub: Subgrid) -> None:
    """C05.R1 / C07.R1: obligations per heading"""
    from .c18 import mul_returns_operand
    mul_returns_operand(index, rep, rule)
    gi = GeoInterp(geo)
    src_grid, area_e, rot_e = pipe.decompose_grid()
    if getattr(pipe, 'state_grid_shortcut', None):
        rep.violation(rule, OBS, 'from_visibility', pipe.func.node.lineno,
                      f'S.grid if {pipe.state_grid_shortcut}',
                      f'when `{pipe.state_grid_shortcut}` the view is not a slice but the '
                      f'state\'s own grid turned by the heading (for FORWARD the very same '
                      f'rows): hiding a cell of the observation hides it in the world')
    fn = pipe.func
    rep.check(src(src_grid) == 'S.grid', rule, OBS, 'from_visibility', fn.node.lineno,
              src(pipe.grid_def), f'the slice is taken from `{src(src_grid)}`, not from the '
              f"state's grid", 'slice source')
    cell_r, cell_c = sub.cell_index()
    u, v = sub.outer_var, sub.inner_var
    envuv = {u: Aff.sym('u'), v: Aff.sym('v')}
    try:
        fr = aff_of(ast.parse(cell_r, mode='eval').body, lambda e: envuv.get(src(e)))
        fc = aff_of(ast.parse(cell_c, mode='eval').body, lambda e: envuv.get(src(e)))
    except NonAffine as e:
        raise AnalysisError(f'Grid.subgrid cell index not affine: {e}')
    _, u0, u1 = sub.outer_range
    _, v0, v1 = sub.inner_range
    for o in geo.orients:
        T = ('T', P('py', 'px'), ('O', o))
        try:
            omod = index.module(OBS)
            B = gi.eval(geo_expr(area_e), {'T': T, 'area': A()}, omod)
            rot = gi.eval(geo_expr(rot_e), {'T': T, 'area': A()}, omod)
        except AnalysisError as e:
            # not a verdict: the expression is outside what the pose algebra interprets
            raise AnalysisError(f'view area / rotation expression cannot be interpreted in '
                                f'the pose algebra: {e}')
        if B[0] == 'X' or rot[0] == 'X':
            raise AnalysisError(f'view area / rotation expression cannot be interpreted in the '
                                f'pose algebra: `{src(area_e)}` -> {str(B)[:60]}')
        if B[0] != 'A' or rot[0] != 'O':
            rep.violation(rule, OBS, 'from_visibility', fn.node.lineno, src(pipe.grid_def),
                          f'`{src(area_e)}` is not an area or `{src(rot_e)}` not an orientation')
            return
        (bymin, bymax), (bxmin, bxmax) = B[1]
        mpB = {'ymin': bymin, 'ymax': bymax, 'xmin': bxmin, 'xmax': bxmax}
        U0, U1, V0, V1 = (x.subst(mpB) for x in (u0, u1, v0, v1))
        Hs, Ws = U1 - U0 + 1, V1 - V0 + 1
        m = geo.grid_rot[rot[1]]
        for msg in getattr(m, 'special_bad', []):
            rep.violation(rule, 'gym_gridverse/grid.py', geo.grid_rot_name[rot[1]],
                          index.func('gym_gridverse/grid.py',
                                     geo.grid_rot_name[rot[1]]).node.lineno,
                          geo.grid_rot_name[rot[1]],
                          f'heading {o}: the view is rotated by {geo.grid_rot_name[rot[1]]}, and '
                          f'{msg}: a one-row or one-column view shows its cells in the wrong '
                          f'order')
        dims = {'H': Hs, 'W': Ws}
        rho, gam = m.r.subst(dims), m.c.subst(dims)
        uu, vv = U0 + rho, V0 + gam
        wy = fr.subst({'u': uu, 'v': vv})
        wx = fc.subst({'u': uu, 'v': vv})
        vy, vx = Aff.sym('ymin') + Aff.sym('i'), Aff.sym('xmin') + Aff.sym('j')
        M = geo.M[o]
        ey = Aff.sym('py') + M[0].subst({'y': vy, 'x': vx})
        ex = Aff.sym('px') + M[1].subst({'y': vy, 'x': vx})
        rep.check(wy == ey and wx == ex, rule, OBS, 'from_visibility', fn.node.lineno,
                  src(pipe.grid_def),
                  f'heading {o}: view cell (i, j) shows world cell ({wy}, {wx}); the cell at the '
                  f"agent's pose is p + M({o})·(A.ymin+i, A.xmin+j) = ({ey}, {ex})",
                  f'frame {o}: ({wy}, {wx})')
        fr_, fc_ = m.nr.subst(dims), m.nc.subst(dims)
        eh = Aff.sym('ymax') - Aff.sym('ymin') + 1
        ew = Aff.sym('xmax') - Aff.sym('xmin') + 1
        rep.check(fr_ == eh and fc_ == ew, rule, OBS, 'from_visibility', fn.node.lineno,
                  src(pipe.grid_def),
                  f'heading {o}: observation shape is ({fr_}, {fc_}), the view area has '
                  f'({eh}, {ew})', f'shape {o}')


def _pad_text(index: RepoIndex, sub: Subgrid, p: ast.AST, depth: int = 3) -> str:
    """the padding value as the library's own callers get it: `factory()` for a parameter
    `factory` whose default is `Hidden` denotes Hidden() provided no call site in the package
    passes anything else (directly, or through a parameter with the same default)"""
    if not (isinstance(p, ast.Call) and isinstance(p.func, ast.Name) and not p.args
            and not p.keywords):
        return src(p)
    name = p.func.id

    def default_of(fn, pname):
        d = fn.param_defaults().get(pname)
        return src(d) if d is not None else None

    def passes_only_hidden(fn, pname, d_) -> bool:
        if d_ < 0 or default_of(fn, pname) != 'Hidden':
            return False
        for g in index.all_functions():
            for n in ast.walk(g.node):
                if isinstance(n, ast.Call) and isinstance(n.func, ast.Attribute) and \
                        n.func.attr == fn.name:
                    for k in n.keywords:
                        if k.arg != pname:
                            continue
                        v = src(k.value)
                        if v == 'Hidden':
                            continue
                        gp = [a.arg for a in g.node.args.args + g.node.args.kwonlyargs]
                        if isinstance(k.value, ast.Name) and v in gp and \
                                passes_only_hidden(g, v, d_ - 1):
                            continue
                        return False
        return True
    f = sub.func
    params = [a.arg for a in f.node.args.args + f.node.args.kwonlyargs]
    if name in params and passes_only_hidden(f, name, depth):
        return 'Hidden()'
    return src(p)


def _contains_takes_pairs(index: RepoIndex) -> bool:
    """Area.contains has the duck-typing form that also unpacks a (y, x) pair"""
    from ..normalise import duck_pair_versions
    f = index.func('gym_gridverse/geometry.py', 'Area.contains')
    return duck_pair_versions(f.node) is not None


def padding(index: RepoIndex, rep, rule: str, sub: Subgrid) -> None:
    """C05.R2 / C07.R3: the in-grid test of Grid.subgrid is two-sided on both axes"""
    f = sub.func
    fl = f.node.lineno
    G = 'gym_gridverse/grid.py'
    for msg in getattr(sub, 'mismatches', []):
        rep.violation(rule, G, 'Grid.subgrid', fl, sub.spelling[:80],
                      f'Grid.subgrid ({sub.spelling[:60]}) is not the documented slice: {msg}')
    cell_r, cell_c = sub.cell_index()
    rep.check(src(sub.inside_val).startswith('self.objects[') or src(sub.inside_val).startswith('self['),
              rule, G, 'Grid.subgrid', fl, src(sub.inside_val),
              'in-grid cells of a slice are not the very objects of this grid', 'same object')
    if sub.cond is None:
        rep.violation(rule, G, 'Grid.subgrid', fl, src(sub.inside_val),
                      'cells are read without any in-grid test: no Hidden padding')
        return
    badpad = [src(p) for p in sub.pad_vals if _pad_text(index, sub, p) != 'Hidden()']
    rep.check(sub.pad_val is not None and not badpad, rule, G,
              'Grid.subgrid', fl, src(sub.pad_val) if sub.pad_val is not None else '',
              f'cells outside the grid are padded with `{badpad[:1]}`, not Hidden()',
              'pad Hidden')
    # compare the condition with 0 <= row < H and 0 <= col < W at small points
    test = sub.test
    bad = None
    npts = 0

    def call(e, env):
        if src(e.func) == 'len' and len(e.args) == 1:
            return env.get(src(e))
        if isinstance(e.func, ast.Attribute) and e.func.attr == 'contains' \
                and src(e.func.value) == 'self.area' and len(e.args) == 1 \
                and isinstance(e.args[0], ast.Call) and len(e.args[0].args) == 2:
            a, b = (ev(x, env, call) for x in e.args[0].args)
            return 0 <= a <= env['self.area.ymax'] and 0 <= b <= env['self.area.xmax']
        if isinstance(e.func, ast.Attribute) and e.func.attr == 'contains' \
                and src(e.func.value) == 'self.area' and len(e.args) == 1 \
                and isinstance(e.args[0], ast.Tuple) and len(e.args[0].elts) == 2 \
                and _contains_takes_pairs(index):
            # a (y, x) pair, which Area.contains unpacks itself (judged by C01.R3)
            a, b = (ev(x, env, call) for x in e.args[0].elts)
            return 0 <= a <= env['self.area.ymax'] and 0 <= b <= env['self.area.xmax']
        return NotImplemented

    ap = sub.area_param
    if getattr(sub, 'n_returns', 1) > 1:
        # several return paths selected by the position of the area: enumerate small areas
        spans = [(lo, hi) for lo in range(-2, 4) for hi in range(lo, 5)]
        sizes = [(1, 1), (2, 3), (3, 2)]
    else:
        spans = [None]
        sizes = list(itertools.product((1, 2, 3), repeat=2))
    points = []
    for (H, W), ys_, xs_ in itertools.product(sizes, spans, spans):
        if ys_ is None:
            cells_ = itertools.product(range(-3, 6), repeat=2)
            ab = {}
        else:
            cells_ = itertools.product(range(ys_[0], ys_[1] + 1), range(xs_[0], xs_[1] + 1))
            ab = {f'{ap}.ymin': ys_[0], f'{ap}.ymax': ys_[1], f'{ap}.xmin': xs_[0],
                  f'{ap}.xmax': xs_[1], f'{ap}.height': ys_[1] - ys_[0] + 1,
                  f'{ap}.width': xs_[1] - xs_[0] + 1}
        for y, x in cells_:
            points.append((H, W, y, x, ab))
    for H, W, y, x, ab in points:
        if True:
            env = {sub.outer_var: y, sub.inner_var: x,
                   'self.area.height': H, 'self.area.width': W,
                   'self.shape.height': H, 'self.shape.width': W,
                   'self.shape.as_tuple[0]': H, 'self.shape.as_tuple[1]': W,
                   'self.shape[0]': H, 'self.shape[1]': W,
                   'len(self.objects)': H, 'len(self.objects[0])': W,
                   'self.area.ymax': H - 1, 'self.area.xmax': W - 1,
                   'self.area.ymin': 0, 'self.area.xmin': 0}
            env.update(ab)
            try:
                got = bool(ev(test, env, call))
                r = ev(ast.parse(cell_r, mode='eval').body, env, call)
                c = ev(ast.parse(cell_c, mode='eval').body, env, call)
            except CannotEval as e:
                raise AnalysisError(f'Grid.subgrid in-grid test outside the grammar: {e}')
            want = 0 <= r < H and 0 <= c < W
            npts += 1
            if got != want and bad is None:
                bad = (H, W, y, x, got)
    rep.check(bad is None, rule, G, 'Grid.subgrid', fl, src(test),
              'in-grid test of the slice is not `0 <= row < height and 0 <= col < width`: '
              + (f'grid {bad[0]}x{bad[1]}, cell ({bad[2]}, {bad[3]}) is treated as '
                 f'{"inside" if bad[4] else "outside"}' if bad else ''),
              f'two-sided bounds, {npts} points')


def masking(index: RepoIndex, rep, rule: str, pipe: Pipeline) -> None:
    """C05.R3: the only stores into the observation grid are Hidden(), exactly where the
    visibility array is false, over all positions of the grid"""
    w = pipe.walk
    g = pipe.grid_name
    fn = pipe.func
    n_mask = 0
    for e in w.events:
        root = None
        if e.kind in ('store', 'augstore', 'attrstore', 'delete'):
            t = e.target
            while isinstance(t, (ast.Subscript, ast.Attribute)):
                t = t.value
            root = t.id if isinstance(t, ast.Name) else None
        elif e.kind == 'call' and isinstance(e.node.func, ast.Attribute):
            t = e.node.func.value
            while isinstance(t, (ast.Subscript, ast.Attribute)):
                t = t.value
            if isinstance(t, ast.Name) and t.id == g and \
                    e.node.func.attr not in ('positions', 'contains', 'y_coordinates',
                                             'x_coordinates'):
                rep.violation(rule, OBS, 'from_visibility', e.line, src(e.node),
                              f'the observation grid is modified/consulted through '
                              f'`{src(e.node.func)}` besides the masking loop')
            continue
        if root != g:
            continue
        ok_target = e.kind == 'store' and isinstance(e.target, ast.Subscript) \
            and src(e.target.value) == g
        if not ok_target:
            rep.violation(rule, OBS, 'from_visibility', e.line, src(e.stmt),
                          'the observation grid is written by something other than a cell store')
            continue
        pos = src(e.target.slice)
        val_ok = e.value is not None and src(e.value) == 'Hidden()'
        loop_ok = bool(e.loops) and src(e.loops[-1][0]) == pos and \
            src(e.loops[-1][1]) in (f'{g}.area.positions()', f"{g}.area.positions('all')")
        yx = None
        extra_parts = []
        if not loop_ok and e.loops and src(e.loops[-1][0]) == pos and \
                isinstance(e.loops[-1][1], ast.Name):
            # the loop runs over a list collected beforehand:  [p for p in positions() if C]
            d_ = w.single_def(e.loops[-1][1].id)
            lc_ = d_[1] if d_ is not None and d_[0] == 'value' else None
            if isinstance(lc_, ast.ListComp) and len(lc_.generators) == 1 and \
                    isinstance(lc_.generators[0].target, ast.Name) and \
                    src(lc_.elt) == lc_.generators[0].target.id and \
                    src(lc_.generators[0].iter) in (f'{g}.area.positions()',
                                                    f"{g}.area.positions('all')") and \
                    d_[2] > pipe.grid_def_order:
                import copy
                from ..inline import _Rename
                loop_ok = True
                ren_ = _Rename({lc_.generators[0].target.id: pos})
                for c_ in lc_.generators[0].ifs:
                    extra_parts.append(w.expand_formula(
                        formula_of(ren_.visit(copy.deepcopy(c_))), stop=[g, pipe.vis_name, pos]))
        only_hidden = False

        def _unint(x: ast.AST) -> ast.AST:
            # int(y) of a numpy integer index is the same index
            if isinstance(x, ast.Call) and src(x.func) == 'int' and len(x.args) == 1 and \
                    not x.keywords and isinstance(x.args[0], ast.Name):
                return x.args[0]
            return x
        if isinstance(e.target.slice, ast.Tuple) and len(e.target.slice.elts) == 2 and \
                any(_unint(x) is not x for x in e.target.slice.elts):
            e.target.slice = ast.Tuple([_unint(x) for x in e.target.slice.elts], ast.Load())
        if not loop_ok and e.loops and isinstance(e.target.slice, ast.Tuple) and \
                len(e.target.slice.elts) == 2 and \
                src(e.loops[-1][0]) == ast.unparse(e.target.slice):
            # the loop visits exactly the cells where the visibility is false:
            # np.argwhere(np.logical_not(V)) (optionally .tolist()), zip(*np.nonzero(..))
            it_ = src(_strip_bool_casts(w.expand(e.loops[-1][1], stop=[g, pipe.vis_name])))
            V_ = pipe.vis_name
            negs = (f'np.logical_not({V_})', f'~{V_}', f'np.invert({V_})')
            forms = [f'np.argwhere({n_})' for n_ in negs] + \
                [f'np.argwhere({n_}).tolist()' for n_ in negs] + \
                [f'zip(*np.nonzero({n_}))' for n_ in negs] + \
                [f'zip(*np.where({n_}))' for n_ in negs] + \
                [f'np.transpose(np.nonzero({n_}))' for n_ in negs] + \
                [f'np.transpose(np.nonzero({n_})).tolist()' for n_ in negs]
            if it_ in forms:
                loop_ok = only_hidden = True
                yx = tuple(ast.unparse(x) for x in e.target.slice.elts)
        if not loop_ok and len(e.loops) >= 2 and isinstance(e.target.slice, ast.Tuple) and \
                len(e.target.slice.elts) == 2:
            # nested loops over all rows and all columns of the observation grid
            ty, tx = (src(x) for x in e.target.slice.elts)
            its = {src(t): src(it) for t, it in e.loops[-2:]}
            rows = (f'{g}.area.y_coordinates()', f'range({g}.shape.height)',
                    f'range({g}.area.height)')
            cols = (f'{g}.area.x_coordinates()', f'range({g}.shape.width)',
                    f'range({g}.area.width)')
            if its.get(ty) in rows and its.get(tx) in cols:
                loop_ok, yx = True, (ty, tx)
        conj = w.expand_formula(strip_iter(e.guard), stop=[g, pipe.vis_name])
        parts = list(conj[1:]) if conj[0] == 'and' else ([] if conj == ('true',) else [conj])
        for xp in extra_parts:
            parts += list(xp[1:]) if xp[0] == 'and' else ([] if xp == ('true',) else [xp])
        vis_parts, other = [], []
        for p in parts:
            neg = p[0] == 'not'
            a = p[1] if neg else p
            if a[0] == 'atom' and isinstance(a[1], ast.Subscript) and \
                    src(a[1].value) == pipe.vis_name:
                vis_parts.append((neg, a[1]))
            elif a[0] == 'atom' and isinstance(a[1], ast.Compare) and \
                    src(a[1].left) == f'{pipe.vis_name}.shape':
                continue   # fall-through of the visibility shape check
            else:
                other.append(p)
        guard_ok = len(vis_parts) == 1 and vis_parts[0][0] and not other and \
            src(vis_parts[0][1].slice) in ((f'({pos}.y, {pos}.x)', f'{pos}.yx',
                                            f'({pos}.yx[0], {pos}.yx[1])') if yx is None
                                           else (f'({yx[0]}, {yx[1]})',))
        if only_hidden:
            # the iteration itself selects the invisible cells: the store must be unconditional
            # (up to the fall-through of the shape check)
            guard_ok = not vis_parts and not other
        if not guard_ok and not only_hidden:
            # semantic reading: the store happens exactly when the cell is not visible and no
            # earlier check of the function raised
            from ..guards import f_and as _and, parse_guard, prop_equiv
            idx_t = f'{pos}.y, {pos}.x' if yx is None else f'{yx[0]}, {yx[1]}'
            raises_ = [w.expand_formula(strip_iter(x.guard), stop=[g, pipe.vis_name])
                       for x in w.events if x.kind == 'raise' and x.order < e.order
                       and not x.loops]
            want_f = _and(parse_guard(f'not {pipe.vis_name}[{idx_t}]'),
                          *[f_not(r_) for r_ in raises_])
            full = conj
            for xp in extra_parts:
                full = _and(full, xp)
            try:
                guard_ok = prop_equiv(full, want_f) is None
            except AnalysisError:
                guard_ok = False
        reason = []
        if not val_ok:
            reason.append(f'stores `{src(e.value) if e.value is not None else None}` instead of Hidden()')
        if not loop_ok:
            reason.append('is not inside a loop over all positions of the observation grid')
        if not guard_ok:
            reason.append(f'is guarded by `{show(conj)}`, not by `not visibility[pos.y, pos.x]`')
        rep.check(not reason, rule, OBS, 'from_visibility', e.line, src(e.stmt),
                  'store into the observation grid ' + '; '.join(reason), 'masking store')
        n_mask += 1
    pm = getattr(pipe, 'pure_mask', None)
    if pm is not None and n_mask == 0:
        # the masked copy is the only thing returned; the visibility it consults must be the
        # array the visibility function returned for this view
        rep.check(pm[2] == pipe.vis_name, rule, OBS, 'from_visibility', fn.node.lineno,
                  src(pm[3])[:160], f'the view is masked by `{pm[2]}`, not by the visibility '
                  f'computed for it (`{pipe.vis_name}`)', 'masking by a pure pass')
        return
    if n_mask == 0:
        elsewhere = [e for e in w.events if e.kind == 'store' and e.value is not None
                     and 'Hidden()' in src(e.value)]
        if elsewhere:
            # Hidden() is stored, but not into the local observation grid the pipeline model
            # knows (the rows are built and masked before the grid exists, ...): not a verdict
            raise AnalysisError('from_visibility masks through '
                                f'`{src(elsewhere[0].stmt)[:60]}`: outside the grammar of the '
                                'masking rule')
        rep.violation(rule, OBS, 'from_visibility', fn.node.lineno, 'from_visibility',
                      'no masking store: invisible cells are not overwritten with Hidden()')


def run(index: RepoIndex, rep) -> None:
    rep.rule('C05.R7', 'row and column quantities are not exchanged when slicing, masking and building the view (axis typing, E14)', floor=1)
    from ..axes import axis_rule
    axis_rule(index, rep, 'C05.R7', ('gym_gridverse/grid.py', 'gym_gridverse/geometry.py', 'gym_gridverse/envs/observation_functions.py', 'gym_gridverse/envs/visibility_functions.py'), floor=20)
    # what is shown is the object of the world cell: no memo between the world and the view
    # may be keyed on grids / grid objects, whose equality ignores identity and Box contents
    # (C03.R4; decided before the slice model, which may refuse a rewritten subgrid)
    rep.rule('C05.R6', 'observation and visibility functions are plain functions (no '
             'memoising wrapper: states compare by value, Box contents excluded)', floor=9)
    from ..effects import Effects
    from .c03 import memo_rules
    eff_ = Effects(index)
    memo_rules(index, rep, 'C05.R6', eff_, only_rel='gym_gridverse/grid.py')
    # the grid a visibility function is given is the observation being built: it is only masked
    # afterwards, by from_visibility; a visibility function that rearranges it (rows reversed
    # through a Grid that shares them) makes the observation show cells in the wrong places
    rep.rule('C05.R8', 'visibility functions (and their helpers) leave the grid they are given '
             'untouched (C03.R2)', floor=4)
    for name, fn in sorted(index.registry('visibility', 4).items()):
        for f_ in [fn] + list(eff_.nested.get(fn.qualname, {}).values()):
            sm = eff_.summary(f_)
            gp = f_.node.args.args[0].arg if f_.node.args.args else ''
            sites = [f'line {l} `{t}`' for l, t in sm.mut_sites.get(gp, [])[:2]]
            rep.check(gp not in sm.mut_params, 'C05.R8', f_.relpath, f_.short, f_.node.lineno,
                      '; '.join(sites) or f_.short,
                      f'visibility function {f_.short} may modify the grid it is given '
                      f'({"; ".join(sites)}): the observation built from that grid shows cells '
                      f'where they are not', f'{f_.short} leaves its grid alone')
    geo = Geometry(index)
    pipe = Pipeline(index, geo)
    sub = Subgrid(index)
    rep.rule('C05.R9', 'the environment shows what its observation function computed: '
             'GridWorld.functional_observation returns the result of the configured '
             'observation function for the state it was given, unchanged', floor=2)
    from .wiring import observation_passthrough
    observation_passthrough(index, rep, 'C05.R9')
    from .wiring import records_as_given
    records_as_given(index, rep, 'C05.R9', ('Observation',))
    rep.rule('C05.R1', 'frame consistency of slice->rotate for the four headings, symbolic in '
             'area, position and cell; observation shape equals the view shape', floor=9)
    rep.rule('C05.R2', 'Grid.subgrid: the very object under a two-sided in-grid test, Hidden() '
             'outside', floor=3)
    rep.rule('C05.R3', 'masking only hides: the only stores into the observation grid are '
             'Hidden() under `not visibility[pos.y, pos.x]` over all positions', floor=1)
    rep.rule('C05.R4', 'observation agent is Agent(Position(-area.ymin, -area.xmin), FORWARD, '
             "the state's held item)", floor=3)
    rep.rule('C05.R5', 'each observation wrapper delegates to from_visibility with the '
             'like-named visibility function; fully_transparent is all-ones of the grid shape',
             floor=5)
    rep.rule('C05.R6', 'observation and visibility functions are plain functions (no '
             'memoising wrapper: states compare by value, Box contents excluded)', floor=9)
    from .c03 import component_decorators
    component_decorators(index, _Only(rep, ('observation', 'visibility')), 'C05.R6')
    frame_consistency(index, rep, 'C05.R1', geo, pipe, sub)
    padding(index, rep, 'C05.R2', sub)
    masking(index, rep, 'C05.R3', pipe)
    agent_rule(index, rep, 'C05.R4', pipe)
    wrappers(index, rep, 'C05.R5')


def pose_coherence(index: RepoIndex, rep, rule: str) -> None:
    """Agent keeps one copy of its pose: either `transform` is stored and position /
    orientation are properties over it, or position and orientation are stored and
    `transform` is a property computed from them.  A pose stored twice goes stale as soon as
    the dynamics assign agent.position, and the view is cut out around the old pose."""
    AG = 'gym_gridverse/agent.py'
    c = index.cls(AG, 'Agent')
    stored = set()
    for mn in ('__init__', '__post_init__'):
        m = c.methods.get(mn)
        if m is not None:
            for e in walk_function(m.node).events:
                if e.kind == 'attrstore' and src(e.target).startswith('self.'):
                    stored.add(src(e.target)[5:])
    for st in c.node.body:          # dataclass-style fields
        if isinstance(st, ast.AnnAssign) and isinstance(st.target, ast.Name):
            stored.add(st.target.id)
    pose = stored & {'transform', 'position', 'orientation'}

    def prop_returns(name: str) -> str:
        m = c.methods.get(name)
        if m is None or not m.is_property():
            return ''
        w = walk_function(m.node)
        rets = [src(w.expand(e.value)) for e in w.events if e.kind == 'return' and e.value is not None]
        return rets[0] if len(rets) == 1 else ''

    def setter_writes(name: str) -> str:
        m = c.methods.get(name + '.setter')
        if m is None:
            return ''
        w = walk_function(m.node)
        st = [src(e.target) for e in w.events if e.kind == 'attrstore']
        return st[0] if len(st) == 1 else ''
    if pose == {'transform'}:
        ok = prop_returns('position') == 'self.transform.position' and \
            prop_returns('orientation') == 'self.transform.orientation' and \
            setter_writes('position') == 'self.transform.position' and \
            setter_writes('orientation') == 'self.transform.orientation'
        how = 'transform stored; position / orientation are views of it'
    elif pose == {'position', 'orientation'}:
        ok = prop_returns('transform') in ('Transform(self.position, self.orientation)',
                                           'Transform(position=self.position, '
                                           'orientation=self.orientation)')
        how = 'position and orientation stored; transform computed on every read'
    else:
        ok, how = False, f'stored separately: {sorted(pose)}'
    rep.check(ok, rule, AG, 'Agent', c.node.lineno, how,
              f'the agent does not keep a single copy of its pose ({how}): after the dynamics '
              f'assign agent.position / agent.orientation the transform used to cut the view '
              f'would be stale', 'one copy of the pose')


def held_item_kept(index: RepoIndex, rep, rule: str) -> None:
    """the Agent constructor stores the held item it is given: the observation's agent is
    always built through it, the state's held item is assigned directly, so a constructor that
    filters its argument (only holdable objects, only keys) reports another item than the state
    holds.  Every alternative value other than the parameter itself must be reachable only when
    the parameter is None."""
    from ..guards import (f_and, f_not, formula_of, parse_guard, prop_implies, show,
                          strip_iter)
    AG = 'gym_gridverse/agent.py'
    c = index.cls(AG, 'Agent')
    init = c.methods.get('__init__')
    if init is None:
        raise AnalysisError('anchor vanished: Agent.__init__')
    ps = [a.arg for a in init.node.args.args]
    if len(ps) < 4:
        raise AnalysisError('Agent.__init__ does not take (position, orientation, grid_object)')
    gp = ps[3]
    w = walk_function(init.node)
    stores = [e for e in w.events if e.kind == 'attrstore' and
              src(e.target) == 'self.grid_object']
    if not stores:
        raise AnalysisError('Agent.__init__ does not store self.grid_object')

    def alts(e, g):
        if isinstance(e, ast.IfExp):
            t = formula_of(e.test)
            yield from alts(e.body, f_and(g, t))
            yield from alts(e.orelse, f_and(g, f_not(t)))
        else:
            yield e, g
    is_none = parse_guard(f'{gp} is None')
    for e in stores:
        for val, g in alts(w.expand(e.value), strip_iter(e.guard)):
            if src(val) == gp:
                rep.holds(rule, f'{AG}:Agent.__init__:{e.line}', f'keeps `{gp}`')
                continue
            bad = prop_implies(g, is_none)
            rep.check(bad is None, rule, AG, 'Agent.__init__', e.line, src(e.stmt)[:160],
                      f'the held item given to Agent(..) is replaced by `{src(val)}` when '
                      f'`{show(g)[:100]}`, not only when it is None: the observation (whose agent '
                      f'is built by this constructor) reports another item than the state holds',
                      'held item stored as given')


def _view_position_counterexample(p: ast.AST):
    """(area, value, expected) at the first constant area where `Position(a, b)` written with
    integer arithmetic on the area's bounds differs from (-ymin, -xmin); None when it cannot
    be folded or agrees everywhere tried"""
    if not (isinstance(p, ast.Call) and src(p.func) == 'Position' and len(p.args) == 2
            and not p.keywords):
        return None

    class Cannot(Exception):
        pass

    def ev(e, a):
        ymin, ymax, xmin, xmax = a
        t = src(e)
        table = {'area.ymin': ymin, 'area.ymax': ymax, 'area.xmin': xmin, 'area.xmax': xmax,
                 'area.height': ymax - ymin + 1, 'area.width': xmax - xmin + 1}
        if t in table:
            return table[t]
        if isinstance(e, ast.Constant) and type(e.value) is int:
            return e.value
        if isinstance(e, ast.UnaryOp) and isinstance(e.op, (ast.USub, ast.UAdd)):
            v = ev(e.operand, a)
            return -v if isinstance(e.op, ast.USub) else v
        if isinstance(e, ast.BinOp) and isinstance(e.op, (ast.Add, ast.Sub, ast.Mult,
                                                          ast.FloorDiv, ast.Mod)):
            l, r = ev(e.left, a), ev(e.right, a)
            if isinstance(e.op, (ast.FloorDiv, ast.Mod)) and r == 0:
                raise Cannot
            return {ast.Add: l + r, ast.Sub: l - r, ast.Mult: l * r,
                    ast.FloorDiv: l // r if r else 0, ast.Mod: l % r if r else 0}[type(e.op)]
        raise Cannot
    for a in ((-6, 0, -3, 3), (-2, 2, -2, 2), (-3, 1, -1, 4), (0, 4, 0, 2), (-1, 0, -5, 1)):
        try:
            got = (ev(p.args[0], a), ev(p.args[1], a))
        except Cannot:
            return None
        want = (-a[0], -a[2])
        if got != want:
            return (f'Area(({a[0]}, {a[1]}), ({a[2]}, {a[3]}))', got, want)
    return None


def agent_rule(index, rep, rule, pipe: Pipeline) -> None:
    pose_coherence(index, rep, rule)
    held_item_kept(index, rep, rule)
    a = pipe.agent_expr
    fn = pipe.func
    if not (isinstance(a, ast.Call) and src(a.func) == 'Agent'):
        rep.violation(rule, OBS, 'from_visibility', fn.node.lineno, src(a),
                      'the observation agent is not built by Agent(..)')
        return
    names = ['position', 'orientation', 'grid_object']
    args: Dict[str, ast.AST] = dict(zip(names, a.args))
    for k in a.keywords:
        args[k.arg] = k.value
    p = args.get('position')
    ok = False
    if isinstance(p, ast.Call) and src(p.func) == 'Position' and len(p.args) == 2:
        env = {'area.ymin': Aff.sym('ymin'), 'area.xmin': Aff.sym('xmin'),
               'area.ymax': Aff.sym('ymax'), 'area.xmax': Aff.sym('xmax'),
               'area.ys[0]': Aff.sym('ymin'), 'area.xs[0]': Aff.sym('xmin')}
        try:
            py, px = (aff_of(x, lambda e: env.get(src(e))) for x in p.args)
            ok = py == -Aff.sym('ymin') and px == -Aff.sym('xmin')
            read = True
        except NonAffine:
            read = False
    else:
        read = False
    if p is not None and not read:
        # any other spelling (`-Position(area.ymin, area.xmin)`, a static helper of Agent, a
        # method of Area applied to the origin): its denotation in the pose algebra
        try:
            gi_ = GeoInterp(Geometry(index))
            pv = gi_.eval(p, {'area': A('a')}, fn.module)
        except Exception as ex_:      # noqa: BLE001
            # integer arithmetic on the bounds of the area the algebra does not read (`//`):
            # folded at constant areas -- a disagreement with (-ymin, -xmin) at one of them is
            # a counterexample; agreement at all of them decides nothing
            bad_at = _view_position_counterexample(p)
            if bad_at is not None:
                rep.violation(rule, OBS, 'from_visibility', fn.node.lineno, src(p),
                              f"the agent's view position `{src(p)[:80]}` is {bad_at[1]} for the "
                              f"area {bad_at[0]}, not (-area.ymin, -area.xmin) = {bad_at[2]}: the "
                              f"agent is reported on a cell of the view that is not its own")
                return
            raise AnalysisError(f'from_visibility: the agent\'s view position `{src(p)[:80]}` '
                                f'is not readable in the pose algebra ({str(ex_)[:80]})')
        if not (isinstance(pv, tuple) and pv and pv[0] == 'P'):
            raise AnalysisError(f'from_visibility: the agent\'s view position `{src(p)[:80]}` '
                                f'does not denote a position ({str(pv)[:60]})')
        ok = pv == ('P', (-Aff.sym('aymin'), -Aff.sym('axmin')))
    rep.check(ok, rule, OBS, 'from_visibility', fn.node.lineno, src(p) if p is not None else '',
              "the agent's view position is not (-area.ymin, -area.xmin), the view cell of the "
              "agent's own world cell", 'agent position')
    o = args.get('orientation')
    em = index.enum_member(o) if o is not None else None
    rep.check(em == ('Orientation', 'FORWARD'), rule, OBS, 'from_visibility', fn.node.lineno,
              src(o) if o is not None else '', 'the observation agent does not face FORWARD',
              'agent orientation')
    h = args.get('grid_object')
    rep.check(h is not None and src(h) == 'S.agent.grid_object', rule, OBS, 'from_visibility',
              fn.node.lineno, src(h) if h is not None else '',
              "the observation does not report the state's held item unchanged", 'held item')
    # the visibility function sees the agent-frame grid and the same view position
    call = pipe.vis_calls[0].node
    w = pipe.walk
    a0 = src(w.expand(call.args[0], pipe.ren, stop=[pipe.grid_name])) if call.args else ''
    a1 = w.expand(call.args[1], pipe.ren) if len(call.args) > 1 else None
    rep.check(a0 == pipe.grid_name and a1 is not None and p is not None and src(a1) == src(p),
              rule, OBS, 'from_visibility', call.lineno, src(call),
              'the visibility function is not called on (observation grid, agent view '
              'position)', 'visibility args')


def _strip_bool_casts(e: ast.AST) -> ast.AST:
    """np.asarray(X[, dtype=bool]) / np.array(X, dtype=bool) / X.astype(bool) -> X: a view of
    the same mask as booleans (the masking loop tests truthiness either way)"""
    import copy

    class T(ast.NodeTransformer):
        def visit_Call(self, n: ast.Call):
            self.generic_visit(n)
            f = src(n.func)
            kw = {k.arg: src(k.value) for k in n.keywords}
            boolish = ('bool', 'np.bool_', 'numpy.bool_')
            if f in ('np.asarray', 'np.array', 'np.asanyarray', 'numpy.asarray') and \
                    len(n.args) == 1 and set(kw) <= {'dtype'} and \
                    kw.get('dtype', 'bool') in boolish:
                return n.args[0]
            if isinstance(n.func, ast.Attribute) and n.func.attr == 'astype' and \
                    len(n.args) == 1 and not n.keywords and src(n.args[0]) in boolish:
                return n.func.value
            return n
    return T().visit(copy.deepcopy(e))


def wrappers(index, rep, rule) -> None:
    obs = index.registry('observation', 5)
    vis = index.registry('visibility', 4)
    for name, f in sorted(obs.items()):
        if name == 'from_visibility':
            continue
        w = walk_function(f.node)
        rets = [e for e in w.events if e.kind == 'return']
        ps = f.params()
        state = ps[0].arg
        ok = False
        why = 'does not return from_visibility(state, area=area, visibility_function=' \
              f"visibility_function_registry['{name}'], rng=rng)"
        if len(rets) == 1 and rets[0].value is not None:
            r = w.expand(rets[0].value)
            if not (isinstance(r, ast.Call) and src(r.func) == 'from_visibility'):
                # a shared one-expression helper (`_from_registered_visibility(name, ..)`) is
                # read through, with this wrapper's arguments in place of its parameters
                from ..inline import inline_pure_exprs
                from ..pinned_names import FUNCTIONS, METHODS
                r = inline_pure_exprs(index, f.module, f.cls, r,
                                      keep=tuple(FUNCTIONS | METHODS))
            if isinstance(r, ast.Call) and src(r.func) == 'from_visibility':
                kw = {k.arg: src(k.value) for k in r.keywords}
                pos = [src(a) for a in r.args]
                vf = kw.get('visibility_function', '')
                # a module-level constant bound once to a registry entry, or the registered
                # function itself, denotes the same function as the lookup by name
                vnode = next((k.value for k in r.keywords if k.arg == 'visibility_function'),
                             None)
                for _ in range(3):
                    if isinstance(vnode, ast.Name):
                        from ..consteval import module_constant
                        mc = module_constant(f.module, vnode.id)
                        if mc is not None:
                            vnode = mc
                            continue
                    break
                if isinstance(vnode, (ast.Name, ast.Attribute)):
                    tgt = index.resolve_callee(f.module, vnode, None)
                    keys = [k_ for k_, v_ in vis.items() if v_ is tgt]
                    if len(keys) == 1:
                        vf = f"visibility_function_registry['{keys[0]}']"
                elif vnode is not None:
                    vf = src(vnode)
                ok = pos[:1] == [state] and kw.get('area') == 'area' and kw.get('rng') == 'rng' \
                    and vf in (f"visibility_function_registry['{name}']",
                               f'visibility_function_registry["{name}"]')
                if vf.startswith('visibility_function_registry[') and not ok:
                    why = f'delegates with {kw} / {pos}'
                key = vf[len('visibility_function_registry['):-1].strip('\'"')
                if ok and key not in vis:
                    ok, why = False, f'visibility function `{key}` is not registered'
        rep.check(ok, rule, OBS, name, f.node.lineno,
                  src(rets[0].value) if rets and rets[0].value is not None else name,
                  f'observation function {name} {why}', f'wrapper {name}')
    # the function obtained by name is the one built for the requested view area
    fac = index.func(OBS, 'factory')
    from .c17 import memo_key_of_decorator
    for d in fac.node.decorator_list:
        dn = src(d.func if isinstance(d, ast.Call) else d)
        if dn in ('functools.lru_cache', 'lru_cache', 'functools.cache', 'cache'):
            continue
        mk = memo_key_of_decorator(index, fac, d)
        if mk is None:
            raise AnalysisError(f'{OBS}: factory is wrapped by `{dn}`, a decorator outside the '
                                f'grammar of the factory rules')
        rep.check(mk[0], rule, OBS, 'factory', fac.node.lineno, f'@{dn}: key {mk[1]}',
                  f'the observation factory is memoised on `{mk[1]}`, which leaves out '
                  f'{"; ".join(mk[2])}: an environment asking for another view area observes '
                  f'through the area of the first', 'observation factory memo key')
    ft = vis.get('fully_transparent')
    if ft is None:
        raise AnalysisError('visibility function fully_transparent vanished')
    w = walk_function(ft.node)
    rets = [src(w.expand(e.value, {ft.params()[0].arg: 'G'})) for e in w.events
            if e.kind == 'return' and e.value is not None]
    from ..guards import dims_of

    def _all_true(t: str) -> bool:
        """np.ones(<grid shape>, dtype=bool) / np.full(<grid shape>, True[, dtype=bool])"""
        try:
            e = ast.parse(t, mode='eval').body
        except SyntaxError:
            return False
        if not (isinstance(e, ast.Call) and src(e.func) in ('np.ones', 'numpy.ones', 'np.full',
                                                            'numpy.full') and e.args):
            return False
        dims = dims_of(e.args[0])
        if dims is None and src(e.args[0]) in ('G.shape', 'tuple(G.shape)'):
            dims = None         # a Shape is a dataclass, not a tuple: not a numpy shape
        if dims not in (['G.shape.height', 'G.shape.width'], ['G.area.height', 'G.area.width']):
            return False
        kw = {k.arg: src(k.value) for k in e.keywords}
        rest = [src(a_) for a_ in e.args[1:]]
        boolish = ('bool', 'np.bool_', 'numpy.bool_')
        if src(e.func).endswith('ones'):
            dt = kw.get('dtype', rest[0] if rest else None)
            return dt in boolish and set(kw) <= {'dtype'} and len(rest) <= 1
        fill = kw.get('fill_value', rest[0] if rest else None)
        dt = kw.get('dtype', rest[1] if len(rest) > 1 else 'bool')
        return fill == 'True' and dt in boolish and set(kw) <= {'dtype', 'fill_value'}
    rep.check(len(rets) == 1 and _all_true(rets[0]), rule, VIS, 'fully_transparent',
              ft.node.lineno, '; '.join(rets),
              'fully_transparent visibility is not an all-true array of the grid shape',
              'fully transparent')


class _Only:
    """forwards rule instances of the given registry roles only"""

    def __init__(self, rep, roles):
        self.rep, self.roles = rep, roles

    def check(self, cond, rule, file, function, line, construct, reason, detail=''):
        if any(detail.startswith(r) for r in self.roles) or not cond and \
                any(reason.startswith(r) for r in self.roles):
            return self.rep.check(cond, rule, file, function, line, construct, reason, detail)
        return cond

    def violation(self, *a, **k):
        return self.rep.violation(*a, **k)
