"""C04 -- the stateful interface mirrors the functional one; observations are never stale."""
from __future__ import annotations

import ast
from typing import List

from ..core import AnalysisError, src
from ..guards import (Event, GuardWalk, f_and, f_not, formula_of, show, strip_iter,
                      walk_function)
from ..index import PKG, RepoIndex

EXPLANATION = (
    'Typestate rules over InnerEnv._state / InnerEnv._observation decided on every path of '
    'the four anchored methods (guard walk: every store/return/raise with its dominating '
    'guard): each write of the state comes from exactly one call of the functional '
    'interface and is followed on every path by invalidating the memoised observation; the '
    'observation property computes once, only when the memo is empty, from the current '
    'state; the state property raises before the first reset; nothing outside inner_env.py '
    'writes the two fields (other than invalidating); the functional methods of GridWorld '
    'touch neither field; OuterEnv delegates and converts.')
TRUSTED = ['Python attribute/property semantics', 'C02 for equality of the random streams']

INNER = 'gym_gridverse/envs/inner_env.py'
GW = 'gym_gridverse/envs/gridworld.py'
OUTER = 'gym_gridverse/outer_env.py'


def conj(f) -> List:
    f = strip_iter(f)
    if f == ('true',):
        return []
    return list(f[1:]) if f[0] == 'and' else [f]


def fkey(f) -> str:
    return show(f)


def implies_syntactic(strong, weak) -> bool:
    """every conjunct of `weak` occurs in `strong`"""
    s = {fkey(x) for x in conj(strong)}
    return all(fkey(x) in s for x in conj(weak))


def self_attr_store(e: Event, attr: str) -> bool:
    return e.kind == 'attrstore' and isinstance(e.target, ast.Attribute) \
        and e.target.attr == attr and src(e.target.value) == 'self'


def none_truth(f, term: str):
    """truth of a guard as a function of `term is None`: {True: b1, False: b0}; None when the
    guard depends on anything else"""
    def ev(f, isnone: bool):
        k = f[0]
        if k == 'true':
            return True
        if k == 'false':
            return False
        if k == 'iter':
            return True
        if k == 'not':
            return not ev(f[1], isnone)
        if k == 'and':
            return all(ev(x, isnone) for x in f[1:])
        if k == 'or':
            return any(ev(x, isnone) for x in f[1:])
        if k == 'atom':
            e = f[1]
            if isinstance(e, ast.Compare) and len(e.ops) == 1 and \
                    isinstance(e.ops[0], (ast.Is, ast.IsNot, ast.Eq, ast.NotEq)):
                l, r = e.left, e.comparators[0]
                for a, b in ((l, r), (r, l)):
                    if src(a) == term and isinstance(b, ast.Constant) and b.value is None:
                        return isnone == isinstance(e.ops[0], (ast.Is, ast.Eq))
            raise KeyError(show(f))
        raise KeyError(show(f))
    try:
        return {True: ev(f, True), False: ev(f, False)}
    except KeyError:
        return None


def gexp(w: GuardWalk, g):
    return w.expand_formula(strip_iter(g))


def _falls_off(fn: ast.FunctionDef) -> bool:
    """the body can end without a return / raise"""
    def ends(stmts) -> bool:
        if not stmts:
            return True
        last = stmts[-1]
        if isinstance(last, (ast.Return, ast.Raise)):
            return False
        if isinstance(last, ast.If):
            return ends(last.body) or ends(last.orelse)
        return True
    return ends(fn.body)


def outer_step_argument(index: RepoIndex, given_action: bool) -> str:
    """text of what OuterEnv.step hands to inner_env.step, over its own parameter, when the
    caller gives an Action (True) or something else -- an index (False): the definition of the
    parameter selected by the `isinstance(<param>, Action)` tests on the way"""
    from ..guards import expand_under
    oc = index.cls(OUTER, 'OuterEnv')
    m = oc.methods.get('step')
    if m is None:
        raise AnalysisError('anchor vanished: OuterEnv.step')
    w = walk_function(m.node)
    p = m.node.args.args[1].arg
    calls = [e for e in w.events if e.kind == 'call' and src(e.node.func) == 'self.inner_env.step']
    if len(calls) != 1 or len(calls[0].node.args) != 1:
        raise AnalysisError('OuterEnv.step does not call inner_env.step(<action>) exactly once')

    def at(a: ast.AST):
        t = src(a)
        if t in (f'isinstance({p}, Action)',):
            return given_action
        return None
    arg = calls[0].node.args[0]
    if isinstance(arg, ast.Name) and arg.id == p:
        # the parameter itself: its last re-binding before the call on the selected path
        from ..guards import strip_iter, truth_under
        live = [d for d in w.defs.get(p, []) if d[0] == 'value' and d[2] < calls[0].order
                and truth_under(strip_iter(d[3]), at) is True]
        undecided = [d for d in w.defs.get(p, []) if d[0] == 'value' and d[2] < calls[0].order
                     and truth_under(strip_iter(d[3]), at) is None]
        if undecided:
            raise AnalysisError('OuterEnv.step re-binds its action under a condition outside '
                                'the grammar')
        return src(live[-1][1]) if live else p
    return src(expand_under(w, arg, at))


def _setters(cls) -> tuple:
    """public methods that store their own parameter as the state (`set_state(state)`): step /
    reset written through them are read with them inlined"""
    out = set()
    for mname, m in cls.methods.items():
        if mname.startswith('__') or m.node.decorator_list:
            continue
        w0 = walk_function(m.node)
        ps0 = [a.arg for a in m.node.args.args[1:]]
        st0 = [e for e in w0.events if self_attr_store(e, '_state')]
        if st0 and all(e.value is not None and isinstance(w0.expand(e.value), ast.Name)
                       and w0.expand(e.value).id in ps0 for e in st0):
            out.add(mname)
    return tuple(sorted(out))


def step_installs(index: RepoIndex, rep, rule: str) -> None:
    """what an action does to a door or a box reaches the environment: InnerEnv.step stores
    component 0 of its functional_step call on every path that returns, and
    GridWorld.functional_step returns the very copy its transition call modified"""
    from ..view import step_wiring, view
    cls = index.cls(INNER, 'InnerEnv')
    m = cls.methods.get('step')
    if m is None:
        raise AnalysisError('anchor vanished: InnerEnv.step')
    node, w, _ = view(index, m, cross=_setters(cls))
    st = [e for e in w.events if self_attr_store(e, '_state')]
    fcalls = [e for e in w.events if e.kind == 'call'
              and src(e.node.func) == 'self.functional_step']
    if not st or not fcalls:
        raise AnalysisError('InnerEnv.step: no store of _state from functional_step (written '
                            'through helpers the view does not inline)')
    normal = [x for x in w.events if x.kind == 'return' and x.order > fcalls[0].order]
    guards = [x.guard for x in normal] + ([('true',)] if _falls_off(node) or not normal else [])
    for gd in guards:
        rep.check(any(implies_syntactic(gd, e.guard) for e in st), rule, INNER, m.short,
                  st[0].line, src(st[0].stmt),
                  f'{m.short} stores the new state only when '
                  f'`{show(strip_iter(st[0].guard))}`: an opened box whose content is another '
                  f'box compares equal to the closed one and would never open',
                  'step installs the new state')
    sw = step_wiring(index)
    # the action that is checked, applied and rewarded is the one that was given: neither step
    # re-interprets it (`action = Action(action)` decodes an integer by enum value, while the
    # adapters decode by position in the environment's action space)
    for fn_, ap_ in ((m, m.node.args.args[1].arg if len(m.node.args.args) > 1 else ''),
                     (sw['func'], sw['action'])):
        wv = walk_function(fn_.node)
        reb = [d for d in wv.defs.get(ap_, []) if d[0] in ('value', 'unpack', 'aug')]
        rep.check(not reb, rule, fn_.relpath, fn_.short, fn_.node.lineno,
                  '; '.join(f'{ap_} = {src(d[1])[:60]}' if d[0] == 'value' else ap_
                            for d in reb) or fn_.short,
                  f'{fn_.short} rebinds its action parameter '
                  f'(`{src(reb[0][1])[:60] if reb and reb[0][0] == "value" else ap_}`): the action '
                  f'that reaches the dynamics is not the one the caller chose, so a door can '
                  f'open under an action that is not ACTUATE in that environment',
                  f'{fn_.short} action as given')
    w2, C = sw['walk'], sw['copy']
    rets = [e for e in w2.events if e.kind == 'return' and e.value is not None]
    first = [src(w2.expand(r.value.elts[0], stop=[C] if C else []))
             if isinstance(r.value, ast.Tuple) and r.value.elts else src(r.value) for r in rets]
    rep.check(bool(rets) and C is not None and all(f_ == C for f_ in first), rule, GW,
              'GridWorld.functional_step', sw['func'].node.lineno, '; '.join(first)[:120],
              f'functional_step returns `{"; ".join(first)[:80]}` as the next state, not the '
              f'copy `{C}` its transition modified on every path', 'functional_step returns the '
              'modified copy')


def state_machine(index: RepoIndex, rep, rule: str) -> None:
    """InnerEnv.reset / step: every write of _state is one functional_reset() / component 0
    of one functional_step(self.state, action), installed on every path and followed by the
    invalidation of the memoised observation; step returns that call's reward and flag
    (C04.R1; shared with the properties quantified over driven histories)"""
    from ..view import view
    cls = index.cls(INNER, 'InnerEnv')
    # private methods that are inlined into their callers are judged at the call sites
    # a public setter (`set_state(state)`: stores its own parameter and invalidates the memo)
    # is an entry point of its own; reset/step written through it are read with it inlined
    setters = set()
    for mname, m in cls.methods.items():
        if mname.startswith('__') or m.node.decorator_list:
            continue
        w0 = walk_function(m.node)
        ps0 = [a.arg for a in m.node.args.args[1:]]
        st0 = [e for e in w0.events if self_attr_store(e, '_state')]
        if st0 and all(e.value is not None and isinstance(w0.expand(e.value), ast.Name)
                       and w0.expand(e.value).id in ps0 for e in st0):
            setters.add(mname)
    cross = tuple(sorted(setters))
    inlined_somewhere = set()
    for mname, m in cls.methods.items():
        inlined_somewhere |= set(view(index, m, cross=cross)[2])
    writers = 0
    private_writers = []
    for mname, m in sorted(cls.methods.items()):
        if mname == '__init__':
            continue
        node, w, _ = view(index, m, cross=cross)
        st = [e for e in w.events if self_attr_store(e, '_state')]
        if not st:
            continue
        helper_only = (mname in inlined_somewhere and mname.startswith('_')) or \
            mname in setters
        if mname in setters:
            pass
        elif helper_only:
            private_writers.append(mname)
        else:
            writers += 1
        fcalls = [e for e in w.events if e.kind == 'call'
                  and src(e.node.func) in ('self.functional_reset', 'self.functional_step')]
        if not helper_only:
            rep.check(len(fcalls) == 1 and not fcalls[0].loops, rule, INNER, m.short,
                      m.node.lineno, '; '.join(src(c.node) for c in fcalls),
                      f'{m.short} calls the functional interface {len(fcalls)} times (a second '
                      f'call consumes randomness and desynchronises the trajectory)',
                      'one functional call')
        params = [a.arg for a in m.node.args.args[1:]]
        for e in st:
            v = w.expand(e.value) if e.value is not None else None
            vs = src(v) if v is not None else 'None'
            ok = vs == 'self.functional_reset()'
            if not ok and isinstance(v, ast.Subscript) and isinstance(v.value, ast.Call) \
                    and src(v.value.func) == 'self.functional_step' and src(v.slice) == '0':
                a = [src(x) for x in v.value.args]
                ok = len(a) == 2 and a[0] in ('self.state', 'self._state') and a[1] in params \
                    and not v.value.keywords
            if not helper_only:
                rep.check(ok, rule, INNER, m.short, e.line, src(e.stmt),
                          f'_state is assigned `{vs}`, not the result of functional_reset() / '
                          f'component 0 of functional_step(self.state, <action>)',
                          'state source')
            inv = [x for x in w.events if self_attr_store(x, '_observation')
                   and x.order > e.order and x.value is not None and src(x.value) == 'None'
                   and implies_syntactic(e.guard, x.guard)]
            exits = [x for x in w.events if x.kind in ('return', 'raise')
                     and x.order > e.order and (not inv or x.order < inv[0].order)]
            rep.check(bool(inv) and not [x for x in exits if inv and x.order < inv[0].order]
                      and bool(inv), rule, INNER, m.short, e.line, src(e.stmt),
                      f'{m.short}: a path from the write of _state reaches the exit without '
                      f'`self._observation = None` (stale observation)', 'invalidation')
        # the result of the functional call is installed on every path that returns normally:
        # a store under a condition (`if next_state != self._state:` -- equality ignores the
        # content of boxes) keeps the old state although the dynamics produced another one
        if fcalls and not helper_only:
            normal = [x for x in w.events if x.kind == 'return' and x.order > fcalls[0].order]
            guards = [x.guard for x in normal] or [('true',)]
            if not _falls_off(node) and not normal:
                guards = []
            elif _falls_off(node) and normal:
                guards.append(('true',))
            for gd in guards:
                covered = any(implies_syntactic(gd, e.guard) for e in st)
                rep.check(covered, rule, INNER, m.short, st[0].line, src(st[0].stmt),
                          f'{m.short}: the state returned by the functional call is stored only '
                          f'when `{show(strip_iter(st[0].guard))}`; on the other paths the '
                          f'environment keeps its old state (states that compare equal need not '
                          f'be the same: equality ignores what a box contains)',
                          'state installed on every path')
        # step-like: returns (reward, done) of the same call
        if fcalls and src(fcalls[0].node.func) == 'self.functional_step' and not helper_only:
            rets = [e for e in w.events if e.kind == 'return' and e.value is not None]
            call_s = src(w.expand(fcalls[0].node))
            good = f'({call_s}[1], {call_s}[2])'
            for r in rets:
                rs = src(w.expand(r.value))
                rep.check(rs == good, rule, INNER, m.short, r.line, src(r.stmt),
                          f'{m.short} returns `{rs}`, not (reward, flag) = components 1, 2 of '
                          f'the functional_step call', 'step result')
            rep.check(bool(rets), rule, INNER, m.short, m.node.lineno, m.short,
                      f'{m.short} does not return the reward and flag', 'step returns')
    # a writer does not run another writer: `step` that calls `self.reset()` (auto-reset after
    # a terminal step) replaces the successor state by a fresh initial state
    wnames = [mn for mn, m_ in cls.methods.items() if mn != '__init__' and any(
        self_attr_store(e_, '_state') for e_ in walk_function(m_.node).events)]
    for mn in wnames:
        if mn in setters:
            continue
        wm = walk_function(cls.methods[mn].node)
        for e_ in wm.events:
            if e_.kind == 'call' and isinstance(e_.node.func, ast.Attribute) and \
                    src(e_.node.func.value) == 'self' and e_.node.func.attr in wnames and \
                    e_.node.func.attr != mn and e_.node.func.attr not in setters and \
                    not (e_.node.func.attr.startswith('_') and
                         e_.node.func.attr in inlined_somewhere):
                rep.violation(rule, INNER, f'InnerEnv.{mn}', e_.line, src(e_.node),
                              f'InnerEnv.{mn} also runs `{src(e_.node)}`, which replaces the '
                              f'state on its own: the state after this call is not the '
                              f'successor of the state before it (objects vanish, appear and '
                              f'move between two consecutive states)')
    if writers < 2:
        raise AnalysisError(f'InnerEnv: {writers} methods write _state, floor is 2 (reset, step)')
    # a private writer is an internal step of reset/step: nobody else may call it
    for pw in private_writers:
        for mod in index.modules.values():
            for n in ast.walk(mod.tree):
                if isinstance(n, ast.Attribute) and n.attr == pw and \
                        not (mod.relpath == INNER and src(n.value) == 'self'):
                    rep.violation(rule, mod.relpath, '<module>', n.lineno, src(n),
                                  f'the internal state setter {pw} is used outside '
                                  f'InnerEnv.reset/step (the state would change without a '
                                  f'functional call)')



def outer_delegation(index: RepoIndex, rep, rule: str, strict: bool = True) -> None:
    if not strict:
        # registered under another property: a step the reader cannot decide is left to the
        # checks that own it (C04.R5, C20.R1), not turned into an analysis error here
        try:
            outer_delegation(index, rep, rule, True)
        except AnalysisError as err:
            rep.undecided(rule, f'{OUTER}:OuterEnv.step', str(err)[:160])
        return
    """OuterEnv.reset / step delegate to the inner environment exactly once and return its
    answer (C04.R5)"""
    from ..view import view
    oc = index.cls(OUTER, 'OuterEnv')
    m = oc.methods.get('reset')
    if m is None:
        raise AnalysisError('anchor vanished: OuterEnv.reset')
    node, w, _ = view(index, m)
    calls = [src(w.expand(e.node)) for e in w.events if e.kind == 'call']
    rep.check(calls.count('self.inner_env.reset()') == 1 and len(calls) == 1, rule, OUTER,
              'OuterEnv.reset', m.node.lineno, '; '.join(calls),
              'OuterEnv.reset does not delegate to inner_env.reset() exactly once',
              'delegate reset')
    m = oc.methods.get('step')
    if m is None:
        raise AnalysisError('anchor vanished: OuterEnv.step')
    node, w, _ = view(index, m)
    p = [a.arg for a in m.node.args.args[1:]]
    rets = [src(w.expand(e.value)) for e in w.events if e.kind == 'return' and e.value is not None]
    calls = [src(w.expand(e.node)) for e in w.events if e.kind == 'call']
    want = f'self.inner_env.step({p[0]})' if p else ''
    tup = f'({want}[0], {want}[1])'
    if p and not (rets in ([want], [tup]) and calls == [want]):
        # an index accepted as well as an Action (`if not isinstance(action, Action): action =
        # self.action_space.int_to_action(action)`): read for a caller that gives an Action
        wo = walk_function(m.node)
        arg_a = outer_step_argument(index, True)
        arg_i = outer_step_argument(index, False)
        inner = [e for e in wo.events if e.kind == 'call'
                 and src(e.node.func) == 'self.inner_env.step']
        others = [src(e.node) for e in wo.events if e.kind == 'call' and e not in inner
                  and not src(e.node.func).startswith('isinstance')]
        rets_o = [e for e in wo.events if e.kind == 'return' and e.value is not None]
        same_call = len(rets_o) == 1 and src(wo.expand(rets_o[0].value, stop=[p[0]])) in (
            src(inner[0].node), f'({src(inner[0].node)}[0], {src(inner[0].node)}[1])')
        if arg_a == p[0] and same_call and \
                arg_i == f'self.action_space.int_to_action({p[0]})' and \
                others == [f'self.action_space.int_to_action({p[0]})']:
            rets, calls = [want], [want]
    rep.check(rets in ([want], [tup]) and calls == [want], rule, OUTER, 'OuterEnv.step',
              m.node.lineno, '; '.join(rets),
              f'OuterEnv.step does not return inner_env.step(action) of exactly one call',
              'delegate step')


def run(index: RepoIndex, rep) -> None:
    from ..view import view
    rep.rule('C04.R1', 'every write of _state comes from one functional_reset()/'
             'functional_step(self.state, action) call and is followed on every path by '
             '_observation = None; step returns that call\'s reward and flag', floor=5)
    rep.rule('C04.R2', 'observation property: computes only when the memo is None, one '
             'functional_observation(self.state) call stored into the memo, returns the memo',
             floor=4)
    rep.rule('C04.R3', 'state property raises when _state is None, else returns _state', floor=2)
    rep.rule('C04.R4', 'who may write: nothing outside inner_env.py assigns _state; '
             '_observation may only be assigned None elsewhere; functional methods touch '
             'neither field', floor=5)
    rep.rule('C04.R5', 'OuterEnv delegates reset/step and converts state/observation', floor=6)

    rep.rule('C04.R6', 'the seed alone decides the trajectory: every call that may draw '
             'forwards the environment\'s generator (C02.R3), and GridWorld hands states and '
             'observations through unchanged', floor=20)
    from .c02 import rng_forwarding
    from .wiring import observation_passthrough, reset_passthrough, step_on_callers_state
    rng_forwarding(index, rep, 'C04.R6')
    reset_passthrough(index, rep, 'C04.R6')
    observation_passthrough(index, rep, 'C04.R6')
    step_on_callers_state(index, rep, 'C04.R6')
    cls = index.cls(INNER, 'InnerEnv')
    # ---------------------------------------------------------------- R1
    state_machine(index, rep, 'C04.R1')

    # ---------------------------------------------------------------- R2
    m = cls.methods.get('observation')
    if m is None or not m.is_property():
        raise AnalysisError('anchor vanished: InnerEnv.observation property')
    node, w, _ = view(index, m)
    MEMO = 'self._observation'
    calls = [e for e in w.events if e.kind == 'call'
             and src(e.node.func) == 'self.functional_observation']
    rep.check(len(calls) == 1 and not calls[0].loops, 'C04.R2', INNER, 'InnerEnv.observation',
              m.node.lineno, '; '.join(src(c.node) for c in calls),
              f'the observation property calls functional_observation {len(calls)} times',
              'one call')
    for c in calls:
        a = [src(w.expand(x)) for x in c.node.args]
        rep.check(a in (['self.state'], ['self._state']) and not c.node.keywords, 'C04.R2',
                  INNER, 'InnerEnv.observation', c.line, src(c.node),
                  f'functional_observation is called on `{a}`, not on the current state',
                  'observes current state')
        g = gexp(w, c.guard)
        t = none_truth(g, MEMO)
        rep.check(t == {True: True, False: False}, 'C04.R2', INNER, 'InnerEnv.observation',
                  c.line, src(c.node),
                  f'the observation is computed under `{show(g)}`, not exactly when the memo is '
                  f'None (recomputing consumes randomness / returns a different observation)',
                  'lazy')
    stores = [e for e in w.events if self_attr_store(e, '_observation')]
    call_s = src(w.expand(calls[0].node)) if calls else ''
    rep.check(len(stores) == 1 and calls and src(w.expand(stores[0].value)) == call_s
              and none_truth(gexp(w, stores[0].guard), MEMO) == {True: True, False: False},
              'C04.R2', INNER, 'InnerEnv.observation', m.node.lineno,
              '; '.join(src(s_.stmt) for s_ in stores),
              'the computed observation is not stored into the memo exactly once, when the memo '
              'is empty', 'memoised')
    for r in [e for e in w.events if e.kind == 'return']:
        rs = src(w.expand(r.value)) if r.value is not None else 'None'
        t = none_truth(gexp(w, r.guard), MEMO)
        after_store = bool(stores) and r.order > stores[0].order
        if rs == MEMO:
            # the memo is returned either where it is known to be set, or after it was filled
            ok = (t is not None and not t[True]) or after_store
        else:
            # the freshly computed value, which is also the one stored
            ok = rs == call_s and bool(stores) and after_store and \
                t is not None and not t[False]
        rep.check(ok, 'C04.R2', INNER, 'InnerEnv.observation', r.line,
                  src(r.stmt), f'the observation property returns `{rs}` under '
                  f'`{show(gexp(w, r.guard))}`: not the memoised observation', 'returns memo')
    for e in w.events:
        if self_attr_store(e, '_state'):
            rep.violation('C04.R2', INNER, 'InnerEnv.observation', e.line, src(e.stmt),
                          'reading the observation writes the state')

    # ---------------------------------------------------------------- R3
    m = cls.methods.get('state')
    if m is None or not m.is_property():
        raise AnalysisError('anchor vanished: InnerEnv.state property')
    node, w, _ = view(index, m)
    raises = [e for e in w.events if e.kind == 'raise']
    rets = [e for e in w.events if e.kind == 'return']
    ST = 'self._state'
    rep.check(any(none_truth(gexp(w, e.guard), ST) == {True: True, False: False}
                  for e in raises),
              'C04.R3', INNER, 'InnerEnv.state', m.node.lineno,
              '; '.join(src(e.stmt) for e in raises) or 'no raise',
              'asking for the state before the first reset does not raise', 'guard')
    rep.check(len(rets) >= 1 and all(
        r.value is not None and src(w.expand(r.value)) == ST
        and none_truth(gexp(w, r.guard), ST) == {True: False, False: True} for r in rets),
        'C04.R3', INNER, 'InnerEnv.state', m.node.lineno,
        '; '.join(src(e.stmt) for e in rets),
        'the state property does not return _state exactly when it is set', 'returns state')

    # reading the state is a read: no store (dropping the memoised observation here would make
    # every `step` -- which evaluates `self.state` before the action is checked -- and every
    # read between steps resample the observation), no call that modifies the environment
    stores = [e for e in w.events if e.kind in ('store', 'attrstore', 'augstore', 'delete')]
    rep.check(not stores, 'C04.R3', INNER, 'InnerEnv.state', m.node.lineno,
              '; '.join(src(e.stmt) for e in stores) or 'InnerEnv.state',
              'reading the state modifies the environment '
              f'(`{src(stores[0].stmt) if stores else ""}`): the memoised observation would be '
              'recomputed (consuming randomness) although the state did not change',
              'state read is pure')
    # ---------------------------------------------------------------- R4
    n_scanned = 0
    for mod in index.modules.values():
        for node in ast.walk(mod.tree):
            targets = []
            if isinstance(node, ast.Assign):
                targets = [(t, node.value) for t in node.targets]
            elif isinstance(node, (ast.AugAssign, ast.AnnAssign)):
                targets = [(node.target, node.value)]
            flat = []
            for t, v in targets:
                if isinstance(t, (ast.Tuple, ast.List)):
                    flat += [(x, None) for x in t.elts]
                else:
                    flat.append((t, v))
            for t, v in flat:
                if not isinstance(t, ast.Attribute) or t.attr not in ('_state', '_observation'):
                    continue
                n_scanned += 1
                if mod.relpath == INNER:
                    continue
                if t.attr == '_state':
                    # other classes may have their own `_state`; only environments matter
                    if _is_env_receiver(t.value):
                        rep.violation('C04.R4', mod.relpath, '<module>', node.lineno,
                                      src(node), 'the state of an environment is assigned '
                                      'outside inner_env.py (bypasses invalidation)')
                    continue
                ok = v is not None and src(v) == 'None'
                rep.check(ok, 'C04.R4', mod.relpath, '<module>', node.lineno, src(node),
                          'the memoised observation is assigned something other than None '
                          'outside inner_env.py', 'external invalidation only')
    rep.holds('C04.R4', 'scan', f'{n_scanned} assignments of _state/_observation scanned in '
              f'{len(index.modules)} modules')
    gw = index.cls(GW, 'GridWorld')
    for mname in ('functional_reset', 'functional_step', 'functional_observation'):
        m = gw.methods.get(mname)
        if m is None:
            raise AnalysisError(f'anchor vanished: GridWorld.{mname}')
        w = walk_function(m.node)
        bad = [e for e in w.events if e.kind in ('attrstore', 'augstore', 'store')
               and src(e.target).startswith('self.')]
        reads = [n for n in ast.walk(m.node) if isinstance(n, ast.Attribute)
                 and src(n) in ('self._state', 'self.state', 'self._observation',
                                'self.observation')]
        rep.check(not bad and not reads, 'C04.R4', GW, f'GridWorld.{mname}', m.node.lineno,
                  '; '.join(src(e.stmt) for e in bad) or '; '.join(src(n) for n in reads),
                  f'functional method {mname} reads or writes the environment\'s own '
                  f'state/observation fields', f'functional {mname}')

    # ---------------------------------------------------------------- R5
    oc = index.cls(OUTER, 'OuterEnv')
    for prop, rep_attr, inner in (('state', 'state_representation', 'state'),
                                  ('observation', 'observation_representation', 'observation')):
        m = oc.methods.get(prop)
        if m is None:
            raise AnalysisError(f'anchor vanished: OuterEnv.{prop}')
        node, w, _ = view(index, m)
        rets = [e for e in w.events if e.kind == 'return' and e.value is not None]
        want = f'self.{rep_attr}.convert(self.inner_env.{inner})'
        REP = f'self.{rep_attr}'
        rep.check(len(rets) >= 1 and all(
            src(w.expand(r.value)) == want
            and none_truth(gexp(w, r.guard), REP) == {True: False, False: True} for r in rets),
            'C04.R5', OUTER, f'OuterEnv.{prop}', m.node.lineno,
            '; '.join(src(r.stmt) for r in rets),
            f'OuterEnv.{prop} does not return {want}', f'convert {prop}')
        if prop == 'state':
            obs_reads = [n for n in ast.walk(node) if isinstance(n, ast.Attribute)
                         and n.attr == 'observation'
                         and src(w.expand(n.value)) == 'self.inner_env']
            rep.check(not obs_reads, 'C04.R5', OUTER, 'OuterEnv.state', m.node.lineno,
                      '; '.join(src(n) for n in obs_reads) or 'OuterEnv.state',
                      'reading the state also reads inner_env.observation, which generates (and '
                      'memoises) an observation: a pure state read consumes randomness',
                      'state read does not touch the observation')
        raises = [e for e in w.events if e.kind == 'raise']
        rep.check(any(none_truth(gexp(w, e.guard), REP) == {True: True, False: False}
                      for e in raises),
                  'C04.R5', OUTER, f'OuterEnv.{prop}', m.node.lineno,
                  '; '.join(src(e.stmt) for e in raises) or 'no raise',
                  f'OuterEnv.{prop} does not raise when the representation is missing',
                  f'raise {prop}')
    outer_delegation(index, rep, 'C04.R5')


def _is_env_receiver(e: ast.AST) -> bool:
    s = src(e)
    return s == 'self' or 'env' in s.lower()
