"""C06 -- hidden cells carry no information (occlusion is non-interfering and monotone)."""
from __future__ import annotations

import ast
from typing import Dict, List, Optional

from ..core import AnalysisError, src
from ..geom import Geometry
from ..guards import (atoms_of, f_not, formula_of, show, strip_iter, walk_function)
from ..index import Func, RepoIndex
from ..obsmodel import Pipeline
from . import c05

EXPLANATION = (
    'Structural necessary conditions of non-interference and monotonicity decided on the '
    'visibility functions: (R1) a grid cell is consulted only through `.blocks_vision`; (R2) '
    'that read happens only after the cell has been revealed -- in the flood fill the store '
    '`visibility[p] = True` dominates the read for the same p, in the ray loops the cell is '
    'counted with the current light before the light is updated, the light being the first '
    'operand of the short-circuit, and the registered defaults are absolute counts with '
    'threshold 1; (R3) blocks_vision occurs only negated in the conditions that propagate '
    'visibility, neighbour generators do not read the grid and use offsets in {-1,0,1}; (R4) '
    'the origin is revealed unconditionally and every ray starts lit; (R5) the stochastic '
    'variant has the same counting loop and thresholds a half-open uniform sample strictly '
    'below counts_num/counts_den; (R6) invisible cells are overwritten with Hidden (C05.R3). '
    'The relational statement itself (replace a hidden cell, compare observations) is a '
    'consequence of R1-R2 and R6 and is not separately explored.')
TRUSTED = ['numpy: rng.random samples [0, 1); nan_to_num(0/0) = 0',
           'C19.R1-R2: rays start at the origin and stay inside the area']

VIS = 'gym_gridverse/envs/visibility_functions.py'


def _cells_only_opacity(fn: ast.AST, objects_attr: ast.AST, parents) -> bool:
    """`G.objects` is iterated by a comprehension (`for row in G.objects for obj in row`, or
    indexed `G.objects[y][x]`) and every cell obtained is used only as `<cell>.blocks_vision`"""
    par = parents.get(id(objects_attr))
    # indexed twice, then .blocks_vision
    if isinstance(par, ast.Subscript) and par.value is objects_attr:
        p2 = parents.get(id(par))
        if isinstance(p2, ast.Subscript) and p2.value is par:
            p3 = parents.get(id(p2))
            return isinstance(p3, ast.Attribute) and p3.attr == 'blocks_vision'
        return False
    # iterated row by row inside one comprehension
    if isinstance(par, ast.comprehension) and par.iter is objects_attr and \
            isinstance(par.target, ast.Name):
        comp = parents.get(id(par))
        if not isinstance(comp, (ast.ListComp, ast.GeneratorExp, ast.SetComp)):
            return False
        row = par.target.id
        # the cells: the row iterated by a later generator of the same comprehension, or by a
        # comprehension nested in its element (`[[f(o) for o in row] for row in G.objects]`)
        cells = [g.target.id for c_ in ast.walk(comp)
                 if isinstance(c_, (ast.ListComp, ast.GeneratorExp, ast.SetComp))
                 for g in c_.generators
                 if isinstance(g.iter, ast.Name) and g.iter.id == row
                 and isinstance(g.target, ast.Name)]
        if len(cells) != 1:
            return False
        for n in ast.walk(comp):
            if isinstance(n, ast.Name) and isinstance(n.ctx, ast.Load):
                pn = parents.get(id(n))
                if n.id == cells[0] and not (isinstance(pn, ast.Attribute)
                                             and pn.attr == 'blocks_vision'):
                    return False
                if n.id == row and not (isinstance(pn, ast.comprehension) and pn.iter is n):
                    return False
        return True
    return False


def grid_reads(f: Func, gname: str) -> List[ast.AST]:
    """all uses of the grid parameter with their parent chain classification"""
    parents: Dict[int, ast.AST] = {}
    for n in ast.walk(f.node):
        for ch in ast.iter_child_nodes(n):
            parents[id(ch)] = n
    bad = []
    for n in ast.walk(f.node):
        if isinstance(n, ast.Name) and n.id == gname and isinstance(n.ctx, ast.Load):
            p = parents.get(id(n))
            if isinstance(p, ast.Subscript) and p.value is n:
                pp = parents.get(id(p))
                if isinstance(pp, ast.Attribute) and pp.attr == 'blocks_vision' and \
                        isinstance(p.ctx, ast.Load):
                    continue
                bad.append(pp if pp is not None else p)
            elif isinstance(p, ast.Attribute) and p.attr in ('shape', 'area'):
                continue
            elif isinstance(p, ast.Attribute) and p.attr == 'objects' and \
                    _cells_only_opacity(f.node, p, parents):
                continue   # the rows are scanned, and each cell only asked for its opacity
            elif isinstance(p, ast.Call) and n in p.args:
                continue   # passed on to a helper (analysed itself)
            else:
                bad.append(p if p is not None else n)
    return bad


RAY_SOURCES: Dict[str, str] = {}


RAY_ARRAYS: Dict[str, tuple] = {}


def ray_loops(node: ast.AST):
    """every `for ray in rays: ... for pos in ray: ...` nest"""
    out = []
    for n in ast.walk(node):
        if isinstance(n, ast.For):
            inner = [s for s in n.body if isinstance(s, ast.For)]
            if len(inner) == 1 and isinstance(inner[0].iter, ast.Name) and \
                    src(inner[0].iter) == src(n.target):
                out.append((n, inner[0]))
    return out


def ray_loop(node: ast.AST):
    """the `for ray in rays: light = True; for pos in ray: ...` nest of a ray-tracing function:
    the one that consults the cells when there are several (a separate nest may count the
    totals, which do not depend on the grid)"""
    nests = ray_loops(node)
    reading = [x for x in nests if any(isinstance(n, ast.Attribute) and n.attr == 'blocks_vision'
                                       for n in ast.walk(x[0]))]
    if len(reading) == 1:
        return reading[0]
    if len(nests) == 1:
        return nests[0]
    return None, None


def _total_counter(index, f: Func, call: ast.Call, pname: str, gname: str) -> bool:
    """`call` invokes a module helper h(position, area, ..) that returns a zero array in which
    every cell of every ray of the fan from `position` over `area` is counted once per ray"""
    if not isinstance(call.func, ast.Name) or call.keywords or len(call.args) < 2:
        return False
    h = f.module.functions.get(call.func.id)
    if h is None or [src(a) for a in call.args[:2]] != [pname, f'{gname}.area']:
        return False
    ps = [a.arg for a in h.node.args.args]
    outer, inner = ray_loop(h.node)
    if outer is None or len(ps) < 2:
        return False
    w = walk_function(h.node)
    if src(w.expand(outer.iter)) not in (
            f'cached_compute_rays_fancy({ps[0]}, {ps[1]})', f'cached_compute_rays({ps[0]}, {ps[1]})',
            f'compute_rays_fancy({ps[0]}, {ps[1]})', f'compute_rays({ps[0]}, {ps[1]})'):
        return False
    pos = src(inner.target)
    inner_ids = {id(n) for n in ast.walk(inner)}
    cnt = [e for e in w.events if e.kind in ('augstore', 'store', 'attrstore', 'call')
           and id(e.node) in inner_ids and e.kind != 'call']
    if len(cnt) != 1 or cnt[0].kind != 'augstore' or not isinstance(cnt[0].node.op, ast.Add) or \
            src(cnt[0].value) != '1' or not isinstance(cnt[0].target, ast.Subscript) or \
            src(w.expand(cnt[0].target.slice, stop=[pos])) not in (f'({pos}.y, {pos}.x)', f'{pos}.yx'):
        return False
    from ..guards import prop_equiv
    if prop_equiv(w.expand_formula(strip_iter(cnt[0].guard), stop=[pos]), ('true',)) is not None:
        return False
    if any(isinstance(n, (ast.Break, ast.Continue)) for n in ast.walk(outer)):
        return False
    arr = src(cnt[0].target.value)
    d = w.single_def(arr)
    if d is None or d[0] != 'value' or not (isinstance(d[1], ast.Call)
                                            and src(d[1].func) == 'np.zeros'):
        return False
    rets = [e for e in w.events if e.kind == 'return' and e.value is not None]
    return len(rets) == 1 and src(rets[0].value) == arr


def unprefix_(t: str) -> str:
    """drop the prefixes the helper inliner gives to a helper's locals, and the conversion of
    a counter kept as nested lists into an integer array (`np.array(counts, dtype=int)`)"""
    import re
    t = re.sub(r'_[A-Za-z_]+?\d+_(?=[A-Za-z_])', '', t)
    return re.sub(r'np\.(?:as)?array\((\w+)(?:, dtype=(?:int|np\.int64|np\.int_))?\)', r'\1', t)


def _opacity_tables_to_cells(node: ast.FunctionDef, gname: str) -> ast.FunctionDef:
    """`T = [[E(obj) for obj in row] for row in G.objects]` ... `T[y][x]` with `y, x = pos.yx`
    (or pos.y / pos.x) reads E of the cell G[pos]: the lookup is replaced by that expression, and
    `bool(<cell>.blocks_vision)` by the flag itself (it is only ever tested)"""
    import copy
    tables: Dict[str, Tuple[str, ast.AST]] = {}
    stores: Dict[str, int] = {}
    for n in ast.walk(node):
        if isinstance(n, ast.Name) and isinstance(n.ctx, ast.Store):
            stores[n.id] = stores.get(n.id, 0) + 1
    for n in ast.walk(node):
        if isinstance(n, ast.Assign) and len(n.targets) == 1 and \
                isinstance(n.targets[0], ast.Name) and stores.get(n.targets[0].id) == 1 and \
                isinstance(n.value, ast.ListComp) and len(n.value.generators) == 1 and \
                src(n.value.generators[0].iter) == f'{gname}.objects' and \
                isinstance(n.value.generators[0].target, ast.Name) and \
                isinstance(n.value.elt, ast.ListComp) and len(n.value.elt.generators) == 1 and \
                src(n.value.elt.generators[0].iter) == n.value.generators[0].target.id and \
                isinstance(n.value.elt.generators[0].target, ast.Name) and \
                not n.value.generators[0].ifs and not n.value.elt.generators[0].ifs:
            tables[n.targets[0].id] = (n.value.elt.generators[0].target.id, n.value.elt.elt)
    if not tables:
        return node
    # coordinates of a position: `y, x = pos.yx`
    coord: Dict[str, Tuple[str, str]] = {}
    for n in ast.walk(node):
        if isinstance(n, ast.Assign) and len(n.targets) == 1 and \
                isinstance(n.targets[0], ast.Tuple) and len(n.targets[0].elts) == 2 and \
                all(isinstance(t, ast.Name) for t in n.targets[0].elts) and \
                isinstance(n.value, ast.Attribute) and n.value.attr == 'yx':
            a, b = (t.id for t in n.targets[0].elts)
            if stores.get(a) == 1 and stores.get(b) == 1:
                coord[a] = (src(n.value.value), 'y')
                coord[b] = (src(n.value.value), 'x')

    def axis_of(e: ast.AST):
        if isinstance(e, ast.Name) and e.id in coord:
            return coord[e.id]
        if isinstance(e, ast.Attribute) and e.attr in ('y', 'x'):
            return (src(e.value), e.attr)
        return None

    class T(ast.NodeTransformer):
        def visit_Subscript(self, n: ast.Subscript):
            self.generic_visit(n)
            if isinstance(n.ctx, ast.Load) and isinstance(n.value, ast.Subscript) and \
                    isinstance(n.value.value, ast.Name) and n.value.value.id in tables:
                ay, ax = axis_of(n.value.slice), axis_of(n.slice)
                if ay and ax and ay[0] == ax[0] and (ay[1], ax[1]) == ('y', 'x'):
                    var, elt = tables[n.value.value.id]
                    cell = ast.parse(f'{gname}[{ay[0]}]', mode='eval').body

                    class S(ast.NodeTransformer):
                        def visit_Name(self, m):
                            return copy.deepcopy(cell) if m.id == var else m

                        def visit_Call(self, m):
                            self.generic_visit(m)
                            if src(m.func) == 'bool' and len(m.args) == 1 and \
                                    not m.keywords and \
                                    isinstance(m.args[0], ast.Attribute) and \
                                    m.args[0].attr == 'blocks_vision':
                                return m.args[0]
                            return m
                    return S().visit(copy.deepcopy(elt))
            return n

        def visit_Call(self, n: ast.Call):
            self.generic_visit(n)
            if src(n.func) == 'bool' and len(n.args) == 1 and not n.keywords and \
                    isinstance(n.args[0], ast.Attribute) and n.args[0].attr == 'blocks_vision':
                return n.args[0]
            return n
    return ast.fix_missing_locations(T().visit(node))


def _arr_of(t: ast.Subscript) -> ast.AST:
    """the counter a cell store writes: A of `A[y, x]` and of `A[y][x]`"""
    return t.value.value if isinstance(t.value, ast.Subscript) else t.value


NARROW_DTYPES = {'np.uint8', 'np.int8', 'np.uint16', 'np.int16', 'bool', 'np.bool_', "'uint8'",
                 "'int8'", "'uint16'", "'int16'", "'bool'", 'np.ubyte', 'np.byte', 'np.short',
                 'np.ushort', 'np.float16', "'float16'", 'np.half'}


def _sized_counters(index, rep, f: Func, rule: str) -> None:
    """counters whose element type is computed from a size (`np.min_scalar_type(h * w)`),
    possibly in a helper of another module: the size is folded at view shapes with 256 or more
    rays ((H+1)(W+1): 15x15, 7x31) and must reach the number of rays"""
    from ..view import view
    node, w, _ = view(index, f)
    gname = f.node.args.args[0].arg
    for n in ast.walk(node):
        if not (isinstance(n, ast.Call) and src(n.func).split('.')[-1] in (
                'zeros', 'empty', 'full', 'ones')):
            continue
        dt = next((k.value for k in n.keywords if k.arg == 'dtype'),
                  n.args[1] if len(n.args) > 1 and src(n.func).split('.')[-1] != 'full'
                  else None)
        if dt is None:
            continue
        dte = w.expand(dt)
        if not (isinstance(dte, ast.Call) and src(dte.func).split('.')[-1] == 'min_scalar_type'
                and len(dte.args) == 1):
            continue
        size = dte.args[0]
        bad = None
        for H, W in ((15, 15), (7, 31), (31, 7)):
            def ev(e):
                if isinstance(e, ast.Constant) and isinstance(e.value, int):
                    return e.value
                t = src(e) if isinstance(e, (ast.Attribute, ast.Subscript)) else ''
                if t.endswith('.height') or t.endswith('.shape[0]') or t.endswith('as_tuple[0]'):
                    return H
                if t.endswith('.width') or t.endswith('.shape[1]') or t.endswith('as_tuple[1]'):
                    return W
                if isinstance(e, ast.BinOp) and isinstance(e.op, (ast.Add, ast.Sub, ast.Mult)):
                    a, b = ev(e.left), ev(e.right)
                    if a is None or b is None:
                        return None
                    return a + b if isinstance(e.op, ast.Add) else (
                        a - b if isinstance(e.op, ast.Sub) else a * b)
                return None
            v = ev(size)
            if v is None:
                rep.undecided(rule, f'{VIS}:{f.name}:{n.lineno}',
                              f'counter sized by `{src(size)[:60]}`: not a polynomial in the '
                              f'grid shape the rule folds')
                bad = None
                break
            if v < (H + 1) * (W + 1) and v < 256 <= (H + 1) * (W + 1):
                bad = (H, W, v)
                break
        if bad:
            rep.violation(rule, VIS, f.name, n.lineno, src(n)[:100],
                          f'a ray counter is sized by `{src(size)[:60]}` = {bad[2]} for a '
                          f'{bad[0]}x{bad[1]} view, but the fan has ({bad[0]}+1)({bad[1]}+1) = '
                          f'{(bad[0] + 1) * (bad[1] + 1)} rays through the origin cell: the count '
                          f'wraps and the agent\'s own cell is reported hidden')


def _narrow_counters(rep, node: ast.FunctionDef, name: str, rule: str = 'C06.R4') -> None:
    """whatever the counting loop looks like (per cell, per ray with fancy indexing,
    `np.add.at`): an array that is incremented holds up to one count per ray of the fan -- the
    origin cell lies on all (H+1)(W+1) of them -- so an 8/16-bit or boolean element type wraps
    (silently, for numpy arrays) and the agent's own cell drops to a count of 0"""
    arrays = {}
    for n in ast.walk(node):
        if isinstance(n, ast.Assign) and len(n.targets) == 1 and \
                isinstance(n.targets[0], ast.Name) and isinstance(n.value, ast.Call) and \
                src(n.value.func).split('.')[-1] in ('zeros', 'empty', 'full', 'ones',
                                                     'zeros_like', 'array'):
            dts = [src(k.value) for k in n.value.keywords if k.arg == 'dtype'] + \
                [src(a) for a in n.value.args[1:2]]
            narrow = [t for t in dts if t in NARROW_DTYPES]
            if narrow:
                arrays[n.targets[0].id] = (n.value, narrow)
    for n in ast.walk(node):
        arr = None
        if isinstance(n, ast.AugAssign) and isinstance(n.op, ast.Add):
            t = n.target
            while isinstance(t, ast.Subscript):
                t = t.value
            arr = t.id if isinstance(t, ast.Name) else None
        elif isinstance(n, ast.Call) and src(n.func) in ('np.add.at', 'numpy.add.at') and n.args \
                and isinstance(n.args[0], ast.Name):
            arr = n.args[0].id
        if arr in arrays:
            call, narrow = arrays.pop(arr)
            rep.violation(rule, VIS, name, call.lineno, src(call),
                          f'the ray counter `{unprefix_(arr)}` has element type {narrow}: it '
                          f'cannot hold one count per ray of the fan (the count of the origin '
                          f'cell wraps at 256 rays, e.g. a 15x15 view), so the agent\'s own cell '
                          f'or a fully lit cell can be reported hidden')


def check_ray_function(index, rep, f: Func) -> Optional[ast.For]:
    name = f.name
    gname = f.node.args.args[0].arg
    from ..inline import inlined_function
    from ..view import new_imported_helpers
    # helpers of other modules that the pinned tree did not have (the counting loop moved to
    # envs/utils.py) are read where they are called, like module-local ones
    node, inl = inlined_function(index, f, cross=set(new_imported_helpers(index, f)))
    node = _opacity_tables_to_cells(node, gname)
    _narrow_counters(rep, node, name)
    _sized_counters(index, rep, f, 'C06.R4')
    outer, inner = ray_loop(node)
    if outer is None:
        # rays counted some other way (vectorised, library call): not a verdict
        raise AnalysisError(f'{name}: no `for ray in rays: ... for pos in ray:` loop nest '
                            f'(the ray counting is outside the grammar of C06.R2)')
    if any(isinstance(n, ast.Break) for n in ast.walk(inner)):
        # `if opaque: break` is the light going out: read as an explicit flag
        from ..normalise import break_to_flag
        new = break_to_flag(inner, '__lit')
        if new is None:
            raise AnalysisError(f'{name}: the walk along a ray leaves the loop in a way outside '
                                f'the grammar of C06.R2')
        i = outer.body.index(inner)
        outer.body[i:i + 1] = new
        inner = new[1]
    w = walk_function(node)
    # rays come from the cached fan of the grid's area at the given position
    pname = f.node.args.args[1].arg
    rays_ex = w.expand(outer.iter)
    rays_src = src(rays_ex)
    from ..bounds import is_fan_callee
    ok = isinstance(rays_ex, ast.Call) and not rays_ex.keywords and \
        [src(a) for a in rays_ex.args] == [pname, f'{gname}.area'] and \
        is_fan_callee(f.module, w, rays_ex.func)
    if ok and not isinstance(rays_ex.func, ast.Name):
        # a table entry: the variants are compared by the table and key they use
        rays_src = unprefix_(rays_src)
    elif ok:
        d_ = w.single_def(rays_ex.func.id) if w.defs.get(rays_ex.func.id) else None
        if d_ is not None:
            rays_src = unprefix_(src(d_[1])) + rays_src[len(rays_ex.func.id):]
    RAY_SOURCES[name] = rays_src
    rep.check(bool(ok), 'C06.R4', VIS, name, outer.lineno, rays_src,
              'the rays are not the fan from the agent position over the grid area',
              f'{name}: rays from the origin')
    # R4: each ray starts lit
    pre = [s for s in outer.body if s is not inner]
    lit = [s for s in pre if isinstance(s, ast.Assign) and len(s.targets) == 1
           and isinstance(s.targets[0], ast.Name) and src(s.value) == 'True']
    light = lit[0].targets[0].id if lit else None
    rep.check(len(lit) == 1 and outer.body.index(lit[0]) < outer.body.index(inner), 'C06.R4',
              VIS, name, outer.lineno, '; '.join(src(s) for s in pre),
              'a ray does not start lit (`light = True` before walking the ray)',
              f'{name}: ray starts lit')
    if light is None:
        return outer
    from ..guards import (f_and, parse_guard, prop_assignments, prop_equiv, prop_truth)
    pos = src(inner.target)
    inner_ids = {id(n) for n in ast.walk(inner)}
    BV = f'{gname}[{pos}].blocks_vision'

    def norm(f):
        return w.expand_formula(strip_iter(f), stop=[pos, light])
    # counting events of the inner loop: `array[pos.y, pos.x] += v`
    counts = []
    for e in w.events:
        if e.kind == 'augstore' and id(e.node) in inner_ids and \
                isinstance(e.target, ast.Subscript):
            idx = src(w.expand(e.target.slice, stop=[pos]))
            if idx in (f'({pos}.y, {pos}.x)', f'{pos}.yx', f'({pos}.yx[0], {pos}.yx[1])'):
                counts.append(e)
            elif isinstance(e.target.value, ast.Subscript):
                # rows of a nested list: counts[y][x]
                iy = src(w.expand(e.target.value.slice, stop=[pos]))
                if (iy, idx) in ((f'{pos}.y', f'{pos}.x'), (f'{pos}.yx[0]', f'{pos}.yx[1]')):
                    counts.append(e)
    # updates of the light inside the inner loop, in order
    upds = [d for d in w.defs.get(light, []) if d[0] == 'value'
            and id(d[1]) in inner_ids]
    upd_order = min((d[2] for d in upds), default=None)
    L = parse_guard(light)
    # everything is stated relative to the condition of reaching the walk along a ray
    base_defs = [d for d in w.defs.get(light, []) if d[0] == 'value' and id(d[1]) not in inner_ids]
    base = norm(base_defs[0][3]) if base_defs else ('true',)
    lit_counts = []
    for e in counts:
        v = e.value
        g = norm(e.guard)
        if isinstance(e.node.op, ast.Add) and src(v) in (f'int({light})', light,
                                                         f'bool({light})'):
            eff = f_and(g, L)
        elif isinstance(e.node.op, ast.Add) and src(v) == '1':
            eff = g
        else:
            continue
        if prop_equiv(f_and(base, eff), f_and(base, L)) is None:
            lit_counts.append(e)
    rep.check(len(lit_counts) >= 1 and upd_order is not None and
              all(e.order < upd_order for e in lit_counts), 'C06.R2', VIS, name,
              inner.lineno, '; '.join(src(s) for s in inner.body)[:300],
              'the cell is not counted with the current light before the light is updated: '
              'the opacity of a cell would decide its own visibility', f'{name}: count before update')
    for e in lit_counts:
        rep.holds('C06.R2', f'{VIS}:{name}:{e.line}', f'lit count `{src(e.stmt)}`')
    # the counters hold up to one count per ray of the fan ((H+1)(W+1) or 360 rays through the
    # origin cell): an 8/16-bit or boolean array wraps or saturates and the agent's own cell
    # drops to a count of 0
    NARROW = {'np.uint8', 'np.int8', 'np.uint16', 'np.int16', 'bool', 'np.bool_', "'uint8'",
              "'int8'", "'uint16'", "'int16'", "'bool'", 'np.ubyte', 'np.byte', 'np.short',
              'np.ushort', 'np.float16', "'float16'", 'np.half'}
    for e in counts:
        arr = _arr_of(e.target)
        if not isinstance(arr, ast.Name):
            continue
        for d in w.defs.get(arr.id, []):
            if d[0] == 'value' and isinstance(d[1], ast.Call):
                dts = [src(k.value) for k in d[1].keywords if k.arg == 'dtype'] + \
                    [src(a) for a in d[1].args[1:2]]
                narrow = [t for t in dts if t in NARROW]
                rep.check(not narrow, 'C06.R4', VIS, name, d[1].lineno, src(d[1]),
                          f'the ray counter `{arr.id}` has element type {narrow}: it cannot hold '
                          f'one count per ray of the fan (the count of the origin cell wraps), so '
                          f'the agent\'s own cell or a fully lit cell can be reported hidden',
                          f'{name}: counter `{unprefix_(arr.id)}` wide enough')
    totals = [e for e in counts if isinstance(e.node.op, ast.Add) and src(e.value) == '1'
              and prop_equiv(f_and(base, norm(e.guard)), base) is None]
    den = src(_arr_of(totals[0].target)) if totals else None
    if den is None:
        # a second nest over the same fan that counts every cell of every ray
        for o2, i2 in ray_loops(node):
            if o2 is outer or src(w.expand(o2.iter)) != rays_src or \
                    any(isinstance(n, (ast.Break, ast.Continue)) for n in ast.walk(o2)):
                continue
            p2 = src(i2.target)
            ids2 = {id(n) for n in ast.walk(i2)}
            ev2 = [e for e in w.events if e.kind in ('augstore', 'store', 'attrstore')
                   and id(e.node) in ids2]
            if len(ev2) == 1 and ev2[0].kind == 'augstore' and \
                    isinstance(ev2[0].node.op, ast.Add) and src(ev2[0].value) == '1' and \
                    isinstance(ev2[0].target, ast.Subscript) and \
                    src(w.expand(ev2[0].target.slice, stop=[p2])) in (f'({p2}.y, {p2}.x)',
                                                                       f'{p2}.yx') and \
                    prop_equiv(w.expand_formula(strip_iter(ev2[0].guard), stop=[p2]),
                               ('true',)) is None:
                den = src(ev2[0].target.value)
    if den is None:
        # the totals do not depend on the grid: they may come from a (memoised) helper that
        # counts every cell of every ray of the same fan
        for n_, ds in w.defs.items():
            for d in ds:
                if d[0] == 'value' and isinstance(d[1], ast.Call) and \
                        _total_counter(index, f, d[1], pname, gname):
                    den = n_
    RAY_ARRAYS[name] = (src(_arr_of(lit_counts[0].target)) if lit_counts else None, den)
    if upds:
        # the light after the cell, as a function of (light, opacity of the cell)
        bad = None
        alts = []
        for d in upds:
            val = w.expand(d[1], stop=[pos, light])
            alts.append((norm(d[3]), formula_of(val)))
        want = parse_guard(f'{light} and not {BV}')
        for asg in prop_assignments(want, base, *[x for a in alts for x in a]):
            if not prop_truth(base, asg):
                continue
            new = asg[light]
            for g, v in alts:
                if prop_truth(g, asg):
                    new = prop_truth(v, asg)
            if new != prop_truth(want, asg) and bad is None:
                bad = asg
        rep.check(bad is None, 'C06.R3', VIS, name, upds[0][1].lineno,
                  '; '.join(f'{light} = {src(d[1])}' for d in upds),
                  f'after a cell the light is not `light and not cell.blocks_vision` '
                  f'(differs when {bad}): opacity must only ever darken the ray (monotone)',
                  f'{name}: light update polarity')
    return outer


def run(index: RepoIndex, rep) -> None:
    rep.rule('C06.R8', 'each name of an observation / visibility function denotes its own '
             'function: closures made in a loop (aliases, wrappers) bind the loop variable at '
             'definition time', floor=1)
    from .wiring import late_binding_closures
    late_binding_closures(index, rep, 'C06.R8', (
        'gym_gridverse/envs/observation_functions.py',
        'gym_gridverse/envs/visibility_functions.py',
        'gym_gridverse/utils/raytracing.py', 'gym_gridverse/utils/registry.py'))
    rep.rule('C06.R1', 'visibility functions consult cells only through .blocks_vision', floor=4)
    rep.rule('C06.R2', 'opacity is read only after the cell is revealed', floor=6)
    rep.rule('C06.R3', 'positive polarity: blocks_vision only negated; neighbour offsets in '
             '{-1,0,1} and grid-free', floor=5)
    rep.rule('C06.R4', 'the origin is visible; every ray starts lit', floor=6)
    rep.rule('C06.R5', 'stochastic variant: same rays and counting loop, strict threshold of '
             'a half-open sample', floor=4)
    rep.rule('C06.R6', 'invisible cells are overwritten with Hidden (C05.R3)', floor=1)
    vis = index.registry('visibility', 4)
    mod = index.module(VIS)

    # ---- R1
    for name, f in sorted(mod.functions.items()):
        if name == 'factory':
            continue
        ps = [a.arg for a in f.node.args.args]
        gname = 'grid' if 'grid' in ps else None
        if gname is None:
            continue
        bad = grid_reads(f, gname)
        rep.check(not bad, 'C06.R1', VIS, name, bad[0].lineno if bad else f.node.lineno,
                  '; '.join(src(b)[:60] for b in bad) or name,
                  f'{name} consults the grid through {[src(b)[:50] for b in bad]}: hidden cells '
                  f'could leak more than their opacity', f'{name}: cells read via blocks_vision')

    # ---- flood fill
    mv = mod.functions.get('_partially_occluded_make_visible')
    po = vis.get('partially_occluded')
    if mv is None or po is None:
        raise AnalysisError('anchor vanished: partially_occluded / its flood-fill helper')
    w = walk_function(mv.node)
    vp, gp, pp, np_ = [a.arg for a in mv.node.args.args[:4]]
    stores = [e for e in w.events if e.kind == 'store' and src(e.target.value) == vp]
    reads = [e for e in w.events if e.kind == 'load' and src(e.node.value) == gp]
    want_guard = f'({gp}.area.contains({pp}) and not ({vp}[{pp}.y, {pp}.x]))'
    ok = len(stores) == 1 and src(w.expand(stores[0].target.slice)) == f'({pp}.y, {pp}.x)' and \
        src(stores[0].value) == 'True'
    rep.check(ok, 'C06.R4', VIS, mv.name, mv.node.lineno,
              '; '.join(src(e.stmt) for e in stores),
              'the flood fill does not mark exactly the visited position visible',
              'flood fill marks the position')
    from ..guards import parse_guard, prop_assignments, prop_equiv, prop_implies, prop_truth
    if stores:
        gf = w.expand_formula(strip_iter(stores[0].guard))
        wit = prop_equiv(gf, parse_guard(want_guard))
        rep.check(wit is None, 'C06.R4', VIS, mv.name, stores[0].line, show(gf),
                  f'a position is revealed under `{show(gf)}`, not exactly when it is inside '
                  f'the area and not yet visible (differs when {wit})', 'reveal guard')
    for r in reads:
        dom = [s_ for s_ in stores if s_.order < r.order and
               src(w.expand(s_.target.slice)) == f'({src(r.node.slice)}.y, {src(r.node.slice)}.x)'
               and prop_implies(w.expand_formula(strip_iter(r.guard)),
                                w.expand_formula(strip_iter(s_.guard))) is None]
        rep.check(bool(dom), 'C06.R2', VIS, mv.name, r.line, src(r.node),
                  f'`{src(r.node)}.blocks_vision` is read before that cell is marked visible: '
                  f'a hidden cell\'s opacity would influence the view', 'read after reveal')
    rec = [e for e in w.events if e.kind == 'call' and src(e.node.func) == mv.name]
    BV = f'{gp}[{pp}].blocks_vision'
    for e in rec:
        gf = w.expand_formula(strip_iter(e.guard))
        # expansion is antitone in the opacity of the current cell and depends on it
        anti, depends = True, False
        for asg in prop_assignments(gf, parse_guard(BV)):
            if asg[BV]:
                continue
            lo = prop_truth(gf, asg)
            hi = prop_truth(gf, dict(asg, **{BV: True}))
            if hi and not lo:
                anti = False
            if lo != hi:
                depends = True
        rep.check(anti and depends, 'C06.R3', VIS, mv.name, e.line, show(gf),
                  'the flood fill expands under a condition in which blocks_vision is not '
                  'purely negated (making a cell transparent could hide another)',
                  'expansion polarity')
        a = e.node.args
        rep.check(len(a) == 4 and src(a[0]) == vp and src(a[1]) == gp and src(a[3]) == np_
                  and e.loops and src(e.loops[-1][1]) == f'{np_}({pp})'
                  and src(a[2]) == src(e.loops[-1][0]), 'C06.R3', VIS, mv.name, e.line,
                  src(e.node), 'the recursion does not visit the neighbours of the current '
                  'position with the same arrays', 'recursion over neighbours')
    if not rec:
        rep.violation('C06.R3', VIS, mv.name, mv.node.lineno, mv.name,
                      'the flood fill does not expand')
    from ..posenum import positions_of
    for name, f in sorted(mod.functions.items()):
        if not name.startswith('_partially_occluded_next_positions'):
            continue
        p = f.node.args.args[0].arg
        wn = walk_function(f.node)
        rets = [e for e in wn.events if e.kind == 'return' and e.value is not None]
        cells = None
        why = ''
        if len(rets) == 1:
            try:
                cells = positions_of(f.module, wn.expand(rets[0].value),
                                     {f'{p}.y': 0, f'{p}.x': 0})
            except AnalysisError as e:
                # neighbour offsets the enumerator cannot read are not a verdict
                raise AnalysisError(f'{name}: neighbour offsets outside the grammar: {e}')
        ok = cells is not None and len(cells) >= 2 and \
            all(dy in (-1, 0, 1) and dx in (-1, 0, 1) for dy, dx in cells)
        rep.check(ok, 'C06.R3', VIS, name,
                  f.node.lineno, src(f.node.body[-1])[:160],
                  f'neighbour generator {name} reads something other than its position or '
                  f'steps further than one cell (offsets {cells}; {why}): visibility would '
                  f'not follow a chain of adjacent cells', f'{name}: adjacent, grid-free')
    # partially_occluded: fills from the given position, combines by OR
    # (read in normal form: an allocate-and-fill helper extracted later is read through; the
    # flood fill itself stays a call)
    from ..view import view as _view0
    w = _view0(index, po, keep=(mv.name,))[1]
    gp2, pp2 = [a.arg for a in po.node.args.args[:2]]
    calls = [e for e in w.events if e.kind == 'call' and src(e.node.func) == mv.name]
    ok = len(calls) >= 1 and all(src(c.node.args[1]) == gp2 and src(c.node.args[2]) == pp2
                                 for c in calls)
    rep.check(ok, 'C06.R4', VIS, 'partially_occluded', po.node.lineno,
              '; '.join(src(c.node)[:80] for c in calls),
              'the flood fills do not start at the agent position on the given grid',
              'fills start at the origin')
    # the rays of the ray-traced views start at the agent's own cell (C19.R2's ray model)
    from .c19 import RT, ray_model
    cr0 = index.func(RT, 'compute_ray')
    from ..index import Func as _Func
    from ..view import view as _view
    cr = _Func(cr0.name, cr0.module, _view(index, cr0)[0], cr0.cls)
    crw = walk_function(cr.node)
    crp = [a.arg for a in cr.node.args.args]
    rm = ray_model(cr, crw, crp[0], crp[1])
    rep.check(rm['samples'] and rm['rounding'], 'C06.R4', RT, 'compute_ray', cr.node.lineno,
              (rm['sample_text'] or rm['cell_text'])[:200],
              'a ray does not start at the cell it is cast from (samples are not origin + '
              'i*step*(sin, cos)): the agent\'s own cell need not be visible',
              'rays start at the origin cell')
    filled = {src(c.node.args[0]) for c in calls if c.node.args}
    rets = [e for e in w.events if e.kind == 'return' and e.value is not None]
    for r in rets:
        ex = w.expand(r.value)
        ok = isinstance(ex, ast.BinOp) and isinstance(ex.op, ast.BitOr) or \
            (isinstance(ex, ast.Call) and src(ex.func) in ('np.logical_or',))
        if not ok and isinstance(ex, ast.Name):
            # an accumulator: starts all-False, only ever `|=` a filled array
            ds = w.defs.get(ex.id, [])
            init = [d for d in ds if d[0] == 'value']
            upd = [d[1] for d in ds if d[0] == 'aug']
            other = [e for e in w.events if e.kind in ('store', 'attrstore', 'augstore', 'delete')
                     and src(e.target).startswith(ex.id)]
            ok = len(init) == 1 and src(init[0][1].func if isinstance(init[0][1], ast.Call)
                                        else init[0][1]) == 'np.zeros' and bool(upd) and \
                all(isinstance(a, ast.AugAssign) and isinstance(a.op, ast.BitOr)
                    and src(a.value) in filled for a in upd) \
                and not other and len(ds) == 1 + len(upd)
        rep.check(ok, 'C06.R3', VIS, 'partially_occluded', r.line, src(r.stmt),
                  'the two flood fills are not combined by OR (monotone)', 'fills combined by OR')

    # ---- ray tracing
    rt = vis.get('raytracing')
    srt = vis.get('stochastic_raytracing')
    if rt is None or srt is None:
        raise AnalysisError('anchor vanished: raytracing / stochastic_raytracing')
    l1 = check_ray_function(index, rep, rt)
    l2 = check_ray_function(index, rep, srt)
    d = rt.param_defaults()
    ok = isinstance(d.get('absolute_counts'), ast.Constant) and d['absolute_counts'].value is True \
        and isinstance(d.get('threshold'), ast.Constant) and d['threshold'].value == 1
    rep.check(ok, 'C06.R2', VIS, 'raytracing', rt.node.lineno,
              f'absolute_counts={src(d["absolute_counts"]) if d.get("absolute_counts") is not None else None}, '
              f'threshold={src(d["threshold"]) if d.get("threshold") is not None else None}',
              'the registered defaults are not absolute counts with threshold 1 (a cell would '
              'need more than one lit ray, or none)', 'defaults: one lit ray suffices')
    w = walk_function(rt.node)
    rets = [e for e in w.events if e.kind == 'return' and e.value is not None]
    seen = set()

    def alts(e, g):
        if isinstance(e, ast.IfExp):
            t = formula_of(e.test)
            from ..guards import f_and
            yield from alts(e.body, f_and(g, t))
            yield from alts(e.orelse, f_and(g, f_not(t)))
        else:
            yield e, g
    import re

    unprefix = unprefix_
    from ..inline import inlined_function
    from ..view import new_imported_helpers
    w = walk_function(inlined_function(
        index, rt, cross=set(new_imported_helpers(index, rt)))[0])
    rets = [e for e in w.events if e.kind == 'return' and e.value is not None]
    for r in rets:
        # a single return is reached whenever the function returns at all: its own path
        # condition (validation raises of helpers) is not part of the decision
        g0 = ('true',) if len(rets) == 1 else strip_iter(r.guard)
        for ex, g in alts(w.expand(r.value), g0):
            seen.add((unprefix(show(g)), unprefix(src(ex))))
    num, den = (unprefix(x) if x else x for x in RAY_ARRAYS.get('raytracing', (None, None)))
    want = {('absolute_counts', f'{num} >= threshold'),
            ('not (absolute_counts)', f'{num} / {den} >= threshold')}
    rep.check(seen == want, 'C06.R2', VIS, 'raytracing', rt.node.lineno, str(sorted(seen)),
              'ray-traced visibility is not `lit count >= threshold` (monotone in the lit '
              'counts)', 'threshold on lit counts')
    # ---- R5 stochastic sibling
    rs = {RAY_SOURCES.get('raytracing'), RAY_SOURCES.get('stochastic_raytracing')}
    rep.check(len(rs) == 1 and None not in rs, 'C06.R5', VIS, 'stochastic_raytracing',
              srt.node.lineno, ' vs '.join(str(x) for x in rs),
              f'the stochastic variant traces {RAY_SOURCES.get("stochastic_raytracing")} but the '
              f'deterministic one {RAY_SOURCES.get("raytracing")}: it could show cells the '
              f'deterministic view cannot (or hide cells every ray reaches lit)',
              'same rays as the deterministic variant')
    snum, sden = (unprefix(x) if x else x
                  for x in RAY_ARRAYS.get('stochastic_raytracing', (None, None)))
    rep.check(l2 is not None and snum is not None and sden is not None, 'C06.R5', VIS,
              'stochastic_raytracing', srt.node.lineno, 'for ray in rays: ...',
              'the stochastic variant does not count lit rays and all rays per cell the way '
              'raytracing does', 'same counting loop')
    w = walk_function(inlined_function(
        index, srt, cross=set(new_imported_helpers(index, srt)))[0])
    rets = [e for e in w.events if e.kind == 'return' and e.value is not None]
    okr = False
    got = ''
    if len(rets) == 1:
        from ..inline import inline_pure_exprs
        ex0 = inline_pure_exprs(index, srt.module, None, w.expand(rets[0].value))
        ex = ast.parse(unprefix(src(ex0)), mode='eval').body
        got = src(ex)
        if not (isinstance(ex, ast.Compare) and len(ex.ops) == 1 and any(
                isinstance(x, ast.Call) and src(x.func) == 'rng.random'
                for x in (ex.left, ex.comparators[0]))):
            raise AnalysisError(f'stochastic_raytracing: `{got[:80]}` is not a comparison of one '
                                f'rng.random sample with the lit fraction (outside the grammar '
                                f'of C06.R5)')
        if isinstance(ex, ast.Compare) and len(ex.ops) == 1:
            l, r_, op = ex.left, ex.comparators[0], ex.ops[0]
            probs = f'np.nan_to_num({snum} / {sden})'

            def is_sample(e):
                return isinstance(e, ast.Call) and src(e.func) == 'rng.random'
            if is_sample(l) and src(r_) == probs and isinstance(op, ast.Lt):
                okr = True
            if is_sample(r_) and src(l) == probs and isinstance(op, ast.Gt):
                okr = True
    rep.check(okr, 'C06.R5', VIS, 'stochastic_raytracing', srt.node.lineno, got,
              f'stochastic visibility is `{got}`, not `rng.random(shape) < lit/total` with a '
              f'strict comparison: with `<=` a sample of exactly 0.0 shows cells no lit ray '
              f'reaches; a cell every ray reaches lit (probability 1) must always show',
              'strict threshold')
    rb = [d for d in w.defs.get('rng', []) if d[0] == 'value']
    rep.check(len(rb) == 1 and src(rb[0][1]) == 'get_gv_rng_if_none(rng)', 'C06.R5', VIS,
              'stochastic_raytracing', srt.node.lineno, 'rng rebinding',
              'the sample is not drawn from the supplied generator', 'sample from rng')

    # ---- R6
    geo = Geometry(index)
    pipe = Pipeline(index, geo)
    c05.masking(index, rep, 'C06.R6', pipe)
    rep.rule('C06.R7', 'each occluding observation function is from_visibility with its own '
             'visibility function and nothing else (C05.R5): what is shown is decided by the '
             'flood fill / the rays only', floor=4)
    c05.wrappers(index, rep, 'C06.R7')


def _conj(f) -> List:
    if f == ('true',):
        return []
    return list(f[1:]) if f[0] == 'and' else [f]
