"""C16 -- numeric representations are faithful: lossless, positional and well-separated."""
from __future__ import annotations

import ast
import re
from typing import Dict, List, Set

from ..affine import Aff, prove_ge0, find_counterexample
from ..core import AnalysisError, src
from ..guards import walk_function
from ..index import RepoIndex
from .c15 import OBSR, REPR, STATE, channels, facts_tsc, shapes_dtypes

EXPLANATION = (
    'Field agreement and channel separation decided statically: the default conversion '
    'encodes exactly the three fields GridObject.__eq__ compares; what state/observation '
    'equality compares (cells, position, orientation, held item) is covered by the keys of '
    'the dict representation; the entry for cell (y, x) is the per-object encoding of '
    'grid[y, x] placed at [y][x] and the agent marker is a single 1 at the agent cell '
    '(C15.R3); the three channel ranges of the no-overlap encoding are proved pairwise '
    'disjoint as affine forms and each channel is injective in its own variable '
    '(coefficient 1); the compact maps take consecutive values of one counter that starts '
    'at 0 and is incremented immediately after every store, over sorted types, '
    'range(num_states()) and sorted colours.')
TRUSTED = ['Box contents are excluded by can_be_represented_in_state', 'C15 for bounds']

GO = 'gym_gridverse/grid_object.py'


def registry_append_only(index: RepoIndex, rep, rule: str, eff=None) -> None:
    """type_index is the position of the class in the registry, so that list may only ever
    grow at its end: `register` appends its argument and nothing else, no other method of the
    registry class modifies the list (a `names()` that sorts in place renumbers every type
    after the first conversion), and no function of the package writes the module-level
    registry other than by calling `register`"""
    from ..effects import Effects
    eff = eff or Effects(index)
    cls = index.cls(GO, 'GridObjectRegistry')
    for mname, m in sorted(cls.methods.items()):
        sm = eff.summ.get(m.qualname)
        if sm is None:
            raise AnalysisError(f'no effect summary for {m.short}')
        me = m.node.args.args[0].arg if m.node.args.args else 'self'
        sites = sm.mut_sites.get(me, [])
        if mname == 'register':
            p = m.node.args.args[1].arg if len(m.node.args.args) > 1 else ''
            ok = len(sites) == 1 and sites[0][1].replace(' ', '') in (
                f'{me}.data.append({p})', f'{me}.append({p})')
            rep.check(ok, rule, GO, m.short, m.node.lineno, '; '.join(t for _, t in sites),
                      'register does more to the registry than append the new type at the end '
                      '(the type indices of the registered types would move)',
                      'register appends')
        else:
            rep.check(me not in sm.mut_params, rule, GO, m.short, m.node.lineno,
                      '; '.join(t for _, t in sites)[:120] or m.short,
                      f'{m.short} modifies the registry ({"; ".join(t for _, t in sites)[:80]}): '
                      f'type_index is the position in that list, so every later conversion '
                      f'numbers the types differently than the earlier ones',
                      f'{m.short} leaves the registry alone')
    for q, sm in sorted(eff.summ.items()):
        if 'grid_object_registry' in sm.global_writes:
            bad = [t for _, t in sm.global_sites if 'grid_object_registry' in t
                   and '.register(' not in t]
            f_ = eff.funcs[q]
            rep.check(not bad, rule, f_.module.relpath, f_.short, f_.node.lineno,
                      '; '.join(bad)[:120] or f_.short,
                      f'{f_.short} rewrites the grid-object registry ({"; ".join(bad)[:80]})',
                      f'{f_.short} registry writes')


def run(index: RepoIndex, rep) -> None:
    rep.rule('C16.R1', 'default encoding = the three fields GridObject equality compares',
             floor=2)
    rep.rule('C16.R2', 'representation keys cover what state/observation equality compares',
             floor=6)
    rep.rule('C16.R3', 'positional per-cell encoding and single agent marker (C15.R3)', floor=16)
    rep.rule('C16.R5', 'no-overlap: channel ranges pairwise disjoint, each channel injective',
             floor=6)
    rep.rule('C16.R6', 'compact: one counter from 0, every store followed by += 1, sorted '
             'iteration orders', floor=10)
    rep.rule('C16.R7', 'equal states hash alike: __hash__ reads what __eq__ compares, is '
             'structural and not memoised (C03.R5)', floor=8)
    from ..effects import Effects
    from .c03 import eq_hash
    eq_hash(index, rep, 'C16.R7', Effects(index))
    rep.rule('C16.R8', 'every encoding is computed by the shared per-object conversion from '
             'the representation\'s own type / colour sets (C15.R2): the same object gets the '
             'same triple in every cell and in every instance', floor=16)
    from .c15 import type_sets
    type_sets(index, rep, 'C16.R8')
    rep.rule('C16.R10', 'the member states the encodings are injective over are those whose '
             'every object -- cells and held item -- has a declared type and colour: the '
             'membership predicates cover each facet (C01.R3)', floor=20)
    from .c01 import membership
    membership(index, rep, 'C16.R10')
    rep.rule('C16.R9', 'the collections the compact encoding numbers hold each type / colour '
             'once (a repeated colour takes an index and leaves a gap) (C01.R3)', floor=8)
    from .c01 import space_sets
    space_sets(index, rep, 'C16.R9')
    # ---- R1
    eq = index.func(GO, 'GridObject.__eq__')
    me, other = [a.arg for a in eq.node.args.args]
    fields: Set[str] = set()
    # new helper methods (`self._identity() == other._identity()`) are read through; a
    # comparison of two tuples compares their components pairwise
    from ..inline import inline_methods_by_name, inline_pure_exprs, pure_body_expr
    from ..pinned_names import FUNCTIONS as _PF, METHODS as _PM
    eq_e = pure_body_expr(eq.node)
    if eq_e is not None:
        eq_e = inline_pure_exprs(index, eq.module, eq.cls, eq_e, keep=tuple(_PF | _PM))
        eq_e = inline_methods_by_name(index, eq_e, new_only=True)
    for n in ast.walk(eq_e if eq_e is not None else eq.node):
        if isinstance(n, ast.Compare) and len(n.ops) == 1 and isinstance(n.ops[0], ast.Eq):
            pairs = [(n.left, n.comparators[0])]
            if isinstance(n.left, ast.Tuple) and isinstance(n.comparators[0], ast.Tuple) and \
                    len(n.left.elts) == len(n.comparators[0].elts):
                pairs = list(zip(n.left.elts, n.comparators[0].elts))
            for l_, r_ in pairs:
                l, r = src(l_), src(r_)
                if l.startswith(f'{me}.') and r == l.replace(f'{me}.', f'{other}.', 1):
                    fields.add(l[len(me) + 1:])
                elif isinstance(n.left, ast.Tuple):
                    fields.add(f'<{l} == {r}>')      # a mismatched pair is not a field
    f = index.func(REPR, 'default_grid_object_representation_convert')
    cv, _ = channels(f, index)
    rep.check(fields == {'type_index()', 'state_index', 'color'}, 'C16.R1', GO,
              'GridObject.__eq__', eq.node.lineno, str(sorted(fields)),
              f'GridObject equality compares {sorted(fields)}, not (type, status, colour)',
              'eq fields')
    S = Aff.sym
    rep.check(cv == [S('t'), S('s'), S('c')], 'C16.R1', REPR, f.name, f.node.lineno, str(cv),
              f'the default encoding is {cv}, not the (type, status, colour) index triple: two '
              f'different objects could get the same encoding', 'default triple')
    hs = index.func(GO, 'GridObject.__hash__')
    b = hs.body()
    from ..view import value_text
    rep.check(value_text(index, hs) == 'hash((self.type_index(), self.state_index, '
              'self.color))', 'C16.R1', GO, 'GridObject.__hash__', hs.node.lineno, src(b[-1]),
              'GridObject hash is not over the same (type, status, colour) triple', 'hash triple')
    # every grid object compares by that triple: no subclass brings its own equality / hash
    # (the encodings cannot carry what a finer equality would distinguish)
    subs = index.subclasses('GridObject')
    if len(subs) < 8:
        raise AnalysisError(f'found {len(subs)} GridObject subclasses, floor is 8')
    for sc in subs:
        own = [mn for mn in ('__eq__', '__ne__', '__hash__') if mn in sc.methods]
        rep.check(not own, 'C16.R1', sc.module.relpath, sc.name, sc.node.lineno,
                  ', '.join(own) or sc.name,
                  f'{sc.name} defines its own {own}: objects the encodings cannot tell apart '
                  f'(same type, status, colour) would compare unequal, or equal ones hash apart',
                  f'{sc.name} inherits the triple equality')
    ti = index.func(GO, 'GridObject.type_index')
    b = ti.body()
    rep.check(value_text(index, ti) in ('grid_object_registry.index(cls)',
                                        'grid_object_registry.data.index(cls)'), 'C16.R1',
              GO, 'GridObject.type_index', ti.node.lineno, src(b[-1]),
              'type_index is not the position of the class in the registry (stable, unique)',
              'type index from registry')

    registry_append_only(index, rep, 'C16.R1')

    # ---- R2 keys
    for rel, fn, need in ((STATE, 'make_state_representation',
                           {'grid', 'agent_id_grid', 'agent', 'item'}),
                          (OBSR, 'make_observation_representation',
                           {'grid', 'agent_id_grid', 'item'})):
        f = index.func(rel, fn)
        kind = 'State' if rel == STATE else 'Observation'
        want_cls = {'grid': f'Grid{kind}Representation',
                    'agent_id_grid': f'AgentIDGrid{kind}Representation',
                    'agent': f'Agent{kind}Representation',
                    'item': f'Item{kind}Representation'}
        per_name = {'default': f'DefaultGridObject{kind}Representation',
                    'no-overlap': f'NoOverlapGridObject{kind}Representation',
                    'compact': f'CompactGridObject{kind}Representation'}
        from ..guards import expand_under, strip_iter, truth_under
        w = walk_function(f.node)
        np_, sp_ = [a.arg for a in f.node.args.args[:2]]
        n_dicts = 0
        for nm, gcls in sorted(per_name.items()):
            def atom_truth(e, nm=nm):
                if isinstance(e, ast.Compare) and len(e.ops) == 1 and \
                        isinstance(e.ops[0], (ast.Eq, ast.NotEq)):
                    l, r = e.left, e.comparators[0]
                    for a, b in ((l, r), (r, l)):
                        if src(a) == np_ and isinstance(b, ast.Constant):
                            return (b.value == nm) == isinstance(e.ops[0], ast.Eq)
                return None
            # a module-level table from names to per-object representation classes
            # (`TYPES[name]` inside try / except KeyError): for a fixed name the lookup is its
            # entry, and raises only when the name is not a key
            tables = {}
            for tn, tvals in f.module.assigns.items():
                tv = tvals[0] if len(tvals) == 1 else None
                if isinstance(tv, ast.Call) and src(tv.func).split('.')[-1] in (
                        'MappingProxyType', 'dict') and len(tv.args) == 1:
                    tv = tv.args[0]
                if isinstance(tv, ast.Dict) and tv.keys and all(
                        isinstance(k_, ast.Constant) and isinstance(k_.value, str)
                        for k_ in tv.keys):
                    tables[tn] = {k_.value: v_ for k_, v_ in zip(tv.keys, tv.values)}

            # helpers that look a name up in such a table: `for k, v in T.items(): if name ==
            # k: return v` followed by a raise, `return T[name]`, `try: return T[name] except
            # KeyError: raise ..`
            lookups = {}
            for hn, hf in f.module.functions.items():
                if len(hf.node.args.args) != 1:
                    continue
                hp = hf.node.args.args[0].arg
                body = [s_ for s_ in hf.node.body
                        if not (isinstance(s_, ast.Expr) and isinstance(s_.value, ast.Constant))]
                tname = None
                if len(body) == 2 and isinstance(body[0], ast.For) and \
                        isinstance(body[1], ast.Raise) and not body[0].orelse and \
                        isinstance(body[0].iter, ast.Call) and \
                        isinstance(body[0].iter.func, ast.Attribute) and \
                        body[0].iter.func.attr == 'items' and \
                        isinstance(body[0].iter.func.value, ast.Name) and \
                        isinstance(body[0].target, ast.Tuple) and len(body[0].target.elts) == 2 \
                        and len(body[0].body) == 1 and isinstance(body[0].body[0], ast.If) and \
                        not body[0].body[0].orelse and len(body[0].body[0].body) == 1 and \
                        isinstance(body[0].body[0].body[0], ast.Return):
                    kv, vv = (src(x) for x in body[0].target.elts)
                    t_ = body[0].body[0].test
                    if isinstance(t_, ast.Compare) and len(t_.ops) == 1 and \
                            isinstance(t_.ops[0], ast.Eq) and \
                            {src(t_.left), src(t_.comparators[0])} == {hp, kv} and \
                            src(body[0].body[0].body[0].value) == vv:
                        tname = body[0].iter.func.value.id
                else:
                    from ..inline import pure_body_expr
                    he = pure_body_expr(hf.node)
                    if isinstance(he, ast.Subscript) and isinstance(he.value, ast.Name) and \
                            src(he.slice) == hp:
                        tname = he.value.id
                if tname in tables:
                    lookups[hn] = tname

            def raises_(fm, nm=nm):
                if fm[0] != 'raises':
                    return None
                looks = [n_ for n_ in ast.walk(fm[2]) if isinstance(n_, ast.Subscript)
                         and isinstance(n_.value, ast.Name) and n_.value.id in tables
                         and src(n_.slice) == np_]
                body_calls = [n_ for b_ in fm[2].body for n_ in ast.walk(b_)
                              if isinstance(n_, ast.Call)]
                if len(looks) == 1 and not body_calls:
                    return nm not in tables[looks[0].value.id]
                return None

            class _Look(ast.NodeTransformer):
                def visit_Subscript(self, n_):
                    self.generic_visit(n_)
                    if isinstance(n_.value, ast.Name) and n_.value.id in tables and \
                            src(n_.slice) == np_ and nm in tables[n_.value.id]:
                        import copy as _cp
                        return _cp.deepcopy(tables[n_.value.id][nm])
                    return n_

                def visit_Call(self, n_):
                    self.generic_visit(n_)
                    if isinstance(n_.func, ast.Name) and n_.func.id in lookups and \
                            [src(a_) for a_ in n_.args] == [np_] and not n_.keywords and \
                            nm in tables[lookups[n_.func.id]]:
                        import copy as _cp
                        return _cp.deepcopy(tables[lookups[n_.func.id]][nm])
                    return n_
            outcome = None
            for e in w.events:
                if e.kind in ('return', 'raise') and \
                        truth_under(strip_iter(e.guard), atom_truth, raises_) is True:
                    outcome = e
                    break
            d = None
            if outcome is not None and outcome.kind == 'return' and outcome.value is not None:
                v = expand_under(w, outcome.value, atom_truth, other=raises_)
                v = ast.fix_missing_locations(_Look().visit(v))
                v = ast.parse(ast.unparse(v), mode='eval').body
                if isinstance(v, ast.Call) and src(v.func) == f'Dict{kind}Representation' and \
                        len(v.args) == 2 and src(v.args[0]) == sp_ and \
                        isinstance(v.args[1], ast.Dict):
                    d = v.args[1]
            if d is None:
                rep.violation('C16.R2', rel, fn, f.node.lineno, f'name={nm!r}',
                              f'{fn}({nm!r}, space) does not return Dict{kind}Representation('
                              f'space, {{...}})')
                continue
            n_dicts += 1
            keys = {k.value for k in d.keys if isinstance(k, ast.Constant)}
            cls = {k.value: src(v_.func) for k, v_ in zip(d.keys, d.values)
                   if isinstance(k, ast.Constant) and isinstance(v_, ast.Call)}
            args = {k.value: [src(a) for a in v_.args] for k, v_ in zip(d.keys, d.values)
                    if isinstance(k, ast.Constant) and isinstance(v_, ast.Call)}
            ok = need <= keys and all(cls.get(k) == want_cls[k] for k in need)
            rep.check(ok, 'C16.R2', rel, fn, d.lineno, str(sorted(keys)),
                      f'{fn}({nm!r}): keys {sorted(keys)} (classes {cls}) do not cover cells, '
                      f'agent position{", orientation" if "agent" in need else ""} and held '
                      f'item: two different {kind.lower()}s could have equal representations',
                      f'{fn} keys {nm}')
            okg = all(args.get(k) == [sp_, f'{gcls}({sp_})'] for k in ('grid', 'item'))
            rep.check(okg, 'C16.R2', rel, fn, d.lineno,
                      f'{nm}: {args.get("grid")}, {args.get("item")}',
                      f'{fn}({nm!r}): cells and held item are not encoded by {gcls} over the '
                      f'given space', f'{fn} per-object encoding {nm}')
        if n_dicts < 3:
            raise AnalysisError(f'{fn}: expected three representation dictionaries')

    # ---- R3 (shared with C15.R3)
    shapes_dtypes(index, rep, 'C16.R3', 'C16.R3')

    # ---- R5 no-overlap
    F = facts_tsc()
    f = index.func(REPR, 'no_overlap_grid_object_representation_convert')
    cv, _ = channels(f, index)
    if len(cv) != 3:
        raise AnalysisError('no-overlap convert does not have three channels')
    own = ['t', 's', 'c']
    lo = {'t': Aff.const(0), 's': Aff.const(0), 'c': Aff.const(0)}
    hi = {'t': S('T'), 's': S('S') - 1, 'c': S('C')}
    rng = []
    for ch, v in zip(cv, own):
        coef = ch.c.get(v, 0)
        others = {x for x in ch.symbols() if x in own and x != v}
        rep.check(coef in (1, -1) and not others, 'C16.R5', REPR, f.name, f.node.lineno,
                  f'{ch}', f'channel `{ch}` is not injective in its own index {v} (or depends '
                  f'on another index)', f'channel {v} injective')
        a, b = ch.subst({v: lo[v]}), ch.subst({v: hi[v]})
        rng.append((a, b) if coef >= 0 else (b, a))
    for i in range(3):
        for j in range(i + 1, 3):
            gap = rng[j][0] - rng[i][1] - 1
            gap2 = rng[i][0] - rng[j][1] - 1
            ok = prove_ge0(gap, F) or prove_ge0(gap2, F)
            wit = None if ok else find_counterexample(gap, F, ['T', 'S', 'C'], 0, 4)
            rep.check(ok, 'C16.R5', REPR, f.name, f.node.lineno,
                      f'ch{i} in [{rng[i][0]}, {rng[i][1]}], ch{j} in [{rng[j][0]}, {rng[j][1]}]',
                      f'no-overlap channels {i} and {j} can take the same value: ranges '
                      f'[{rng[i][0]}, {rng[i][1]}] and [{rng[j][0]}, {rng[j][1]}] '
                      f'(e.g. {wit})', f'channels {i},{j} disjoint')

    # ---- R6 compact counter
    for rel, kind in ((STATE, 'State'), (OBSR, 'Observation')):
        c = index.cls(rel, f'CompactGridObject{kind}Representation')
        init = c.methods['__init__']
        from ..view import view
        node, w, _inl = view(index, init, cross=('compact_grid_object_representation_maps',),
                             keep=('_sorted_object_types', '_sorted_colors'))
        # the source of fresh indices: a variable started at 0 and incremented right after
        # each use, or an itertools.count() read through next()
        counters = {}
        for nm, ds in w.defs.items():
            vals = [d for d in ds if d[0] == 'value']
            augs = [d for d in ds if d[0] == 'aug']
            if len(vals) == 1 and not vals[0][4] and len(ds) == len(vals) + len(augs):
                v = vals[0][1]
                if isinstance(v, ast.Constant) and v.value == 0 and augs:
                    counters[nm] = ('var', augs)
                elif isinstance(v, ast.Call) and (
                        src(v.func) in ('itertools.count', 'count') or
                        (isinstance(v.func, ast.Attribute) and v.func.attr == 'count' and
                         isinstance(v.func.value, ast.Name) and
                         any(m_.imports.get(v.func.value.id) == ('module', 'itertools')
                             for m_ in index.modules.values()))) \
                        and (not v.args or src(v.args[0]) == '0') and len(v.args) <= 1 \
                        and not v.keywords and not augs:
                    counters[nm] = ('iter', [])
        if not counters and enumerate_style(index, rep, c, init, node, w, rel):
            continue
        if not counters and not any(
                isinstance(n, ast.Constant) and n.value == 0 and isinstance(pa, ast.Assign)
                for pa in ast.walk(node) if isinstance(pa, ast.Assign) for n in [pa.value]):
            # no counter variable / iterator at all (index blocks by np.arange, ...): another
            # way of numbering, not a verdict
            raise AnalysisError(f'{c.name}.__init__: the compact indices are not drawn from a '
                                f'counter (outside the grammar of C16.R6)')
        rep.check(len(counters) == 1, 'C16.R6',
                  rel, f'{c.name}.__init__', init.node.lineno, str(sorted(counters)),
                  'the compact counter does not start at 0 (once, outside the loops)',
                  f'{c.name} counter from 0')
        if len(counters) != 1:
            continue
        cname, (ckind, incs) = next(iter(counters.items()))
        read = cname if ckind == 'var' else f'next({cname})'
        def bulk(e) -> bool:
            """`M[i, :n] = list(islice(counter, n))` with n = T.num_states() and
            i = T.type_index() for the loop variable T: the next n fresh indices, in order"""
            if ckind != 'iter' or not e.loops:
                return False
            v, t = e.value, e.target
            tv = src(e.loops[-1][0])
            if not (isinstance(v, ast.Call) and src(v.func) in ('list', 'tuple', 'np.array')
                    and len(v.args) == 1 and isinstance(v.args[0], ast.Call)
                    and src(v.args[0].func) in ('itertools.islice', 'islice')
                    and len(v.args[0].args) == 2 and src(v.args[0].args[0]) == cname):
                return False
            def here(x: ast.AST) -> str:
                # a local assigned once per loop body denotes the binding of this loop
                if isinstance(x, ast.Name):
                    ds = [d for d in w.defs.get(x.id, []) if d[0] == 'value'
                          and [src(l[0]) for l in d[4]] == [src(l[0]) for l in e.loops]
                          and [id(l[1]) for l in d[4]] == [id(l[1]) for l in e.loops]]
                    if len(ds) == 1:
                        return src(ds[0][1])
                return src(w.expand(x))
            n = here(v.args[0].args[1])
            sl = t.slice
            return n == f'{tv}.num_states()' and isinstance(sl, ast.Tuple) and \
                len(sl.elts) == 2 and here(sl.elts[0]) == f'{tv}.type_index()' and \
                isinstance(sl.elts[1], ast.Slice) and sl.elts[1].lower is None and \
                sl.elts[1].step is None and sl.elts[1].upper is not None and \
                here(sl.elts[1].upper) == n
        stores = [e for e in w.events if e.kind == 'store'
                  and isinstance(e.target, ast.Subscript) and e.value is not None
                  and (src(e.value) == read or bulk(e))]
        rep.check(len(stores) == 3, 'C16.R6', rel, f'{c.name}.__init__', init.node.lineno,
                  '; '.join(src(e.stmt) for e in stores),
                  f'expected three map stores, found {len(stores)}', f'{c.name} three maps')
        for e in stores:
            if ckind == 'var':
                # the statement right after the store, in the same block, is `counter += 1`
                nxt = _next_stmt(node, e.stmt)
                ok = nxt is not None and src(nxt) == f'{cname} += 1'
            else:
                ok = True
            rep.check(ok, 'C16.R6', rel, f'{c.name}.__init__', e.line, src(e.stmt),
                      'a compact map entry does not take the counter followed immediately by '
                      'its increment (values would repeat or leave gaps)',
                      f'{c.name}: {src(e.target.value)} consecutive')
        if ckind == 'var':
            other = len(incs) != len(stores)
        else:
            uses = [n for n in ast.walk(node) if isinstance(n, ast.Name) and n.id == cname
                    and isinstance(n.ctx, ast.Load)]
            other = len(uses) != len(stores)
        rep.check(not other, 'C16.R6', rel, f'{c.name}.__init__',
                  init.node.lineno, f'{len(incs)} increments',
                  'the counter is advanced elsewhere than for a map store (gaps)',
                  f'{c.name} increments = stores')
        loop_exprs = [w.expand(e.loops[-1][1]) if e.loops else None for e in stores]
        loops = [src(x) if x is not None else '' for x in loop_exprs]

        def loop_kind(x) -> str:
            k = sort_kind(index, init.module, x)
            if k:
                return k
            if x is not None and re.fullmatch(r'range\(\w+\.num_states\(\)\)', src(x)):
                return 'states'
            return '?'
        kinds = [loop_kind(x) for x in loop_exprs]
        kinds = ['states' if bulk(e) and k == 'types' else k for e, k in zip(stores, kinds)]
        rep.check(sorted(kinds) == ['colours', 'states', 'types'], 'C16.R6', rel,
                  f'{c.name}.__init__',
                  init.node.lineno, '; '.join(loops),
                  'the compact maps are not filled over the sorted types, range(num_states()) '
                  'and sorted colours', f'{c.name} iteration orders')
        # the three filled arrays are the three maps of the representation
        attrs = {}
        for e in w.events:
            if e.kind == 'attrstore' and src(e.target).startswith('self._grid_object_') and \
                    e.value is not None:
                attrs[src(e.target)] = src(w.expand(e.value, stop=list(w.defs)))
        filled = {}
        for e, k in zip(stores, kinds):
            filled[k] = src(e.target.value)
        want = {'types': 'self._grid_object_type_map', 'states': 'self._grid_object_status_map',
                'colours': 'self._grid_object_color_map'}
        okm = all(filled.get(k) == a or attrs.get(a) == filled.get(k)
                  or _tuple_item(w, a, filled.get(k)) for k, a in want.items())
        rep.check(okm, 'C16.R6', rel, f'{c.name}.__init__', init.node.lineno,
                  f'{filled} -> {attrs}',
                  'the arrays filled over types / statuses / colours are not installed as the '
                  'type / status / colour maps', f'{c.name} maps installed')
    for rel in (STATE, OBSR):
        for fn, kind in (('_sorted_object_types', 'types'), ('_sorted_colors', 'colours')):
            f = index.module(rel).functions.get(fn)
            if f is None:
                continue        # the constructor sorts in place: judged by sort_kind there
            p = f.node.args.args[0].arg
            call = ast.Call(ast.Name(fn, ast.Load()), [ast.Name(p, ast.Load())], [])
            rep.check(sort_kind(index, f.module, call) == kind, 'C16.R6',
                      rel, fn, f.node.lineno, src(f.body()[-1]),
                      f'{fn} does not sort by index (the compact numbering would depend on '
                      f'hash order)', f'{fn} sorted by index')


def sort_kind(index, module, x) -> str:
    """'types' / 'colours' when `x` denotes its one argument sorted by type index / by colour
    value: `sorted(X, key=lambda t: t.type_index())`, `sorted(X, key=lambda c: c.value)`, or a
    call of a one-return function that is such an expression of its parameter"""
    if not isinstance(x, ast.Call) or not isinstance(x.func, ast.Name):
        return ''
    if x.func.id == 'sorted':
        if len(x.args) != 1 or len(x.keywords) != 1 or x.keywords[0].arg != 'key':
            return ''
        lam = x.keywords[0].value
        if not isinstance(lam, ast.Lambda) or len(lam.args.args) != 1 or lam.args.defaults:
            return ''
        p = lam.args.args[0].arg
        if src(lam.body) == f'{p}.type_index()':
            return 'types'
        if src(lam.body) == f'{p}.value':
            return 'colours'
        return ''
    from ..index import Func
    f = None
    mods = [module]
    # an inlined cross-module helper carries names of its own module
    h = index.resolve_name(module, 'compact_grid_object_representation_maps')
    if isinstance(h, Func):
        mods.append(h.module)
    for m in mods:
        f = m.functions.get(x.func.id)
        if f is None:
            r = index.resolve_name(m, x.func.id)
            f = r if isinstance(r, Func) and r.cls is None else None
        if f is not None:
            break
    if f is None or len(x.args) != 1 or x.keywords or len(f.node.args.args) != 1:
        return ''
    b = f.body()
    if len(b) != 1 or not isinstance(b[0], ast.Return) or b[0].value is None:
        return ''
    inner = b[0].value
    if isinstance(inner, ast.Call) and len(inner.args) == 1 and \
            src(inner.args[0]) == f.node.args.args[0].arg:
        return sort_kind(index, f.module, inner)
    return ''


def enumerate_style(index, rep, c, init, node, w, rel) -> bool:
    """third spelling of the fresh counter: the three maps are filled from
    `for k, item in enumerate(L_i, start=S_i)` with S_1 = 0, S_2 = len(L_1),
    S_3 = len(L_1) + len(L_2), the lists being the sorted types, the (type, status) pairs and
    the sorted colours.  Returns False when the constructor is not written this way."""
    from ..affine import Aff, NonAffine, aff_of
    stores = []
    for e in w.events:
        if e.kind == 'store' and isinstance(e.target, ast.Subscript) and \
                isinstance(e.value, ast.Name) and e.loops:
            t, it = e.loops[-1]
            if isinstance(it, ast.Call) and src(it.func) == 'enumerate' and it.args and \
                    isinstance(t, ast.Tuple) and len(t.elts) == 2 and \
                    src(t.elts[0]) == e.value.id:
                kw = {k.arg: k.value for k in it.keywords}
                start = kw.get('start', it.args[1] if len(it.args) > 1 else ast.Constant(0))
                stores.append((e, it.args[0], start, t.elts[1]))
    if len(stores) != 3:
        return False
    name = f'{c.name}.__init__'

    def lens(e: ast.AST) -> Aff:
        def leaf(x):
            if isinstance(x, ast.Call) and src(x.func) == 'len' and len(x.args) == 1:
                return Aff.sym('len:' + src(w.expand(x.args[0], stop=list(w.defs))))
            if isinstance(x, ast.Name):
                d = w.single_def(x.id)
                if d is not None and d[0] == 'value':
                    return aff_of(d[1], leaf)
            return None
        return aff_of(e, leaf)
    try:
        starts = [lens(st) for _, _, st, _ in stores]
        L = [Aff.sym('len:' + src(lst)) for _, lst, _, _ in stores]
        ok = starts[0] == Aff.const(0) and starts[1] == L[0] and starts[2] == L[0] + L[1]
    except NonAffine:
        ok = False
    rep.check(ok, 'C16.R6', rel, name, init.node.lineno,
              '; '.join(src(st) for _, _, st, _ in stores),
              'the three enumerations do not start at 0, len(first), len(first) + len(second): '
              'compact values would repeat or leave gaps', f'{c.name} counter from 0')
    rep.holds('C16.R6', f'{rel}:{name}', 'three map stores (enumerate style)')

    def list_kind(lst: ast.AST) -> str:
        v = w.expand(lst)
        if isinstance(v, ast.ListComp):
            itx = [w.expand(g.iter) for g in v.generators]
            its = [src(i) for i in itx]
            sk = sort_kind(index, init.module, itx[0])
            if len(its) == 1 and sk == 'types' and \
                    src(v.elt).endswith('.type_index()'):
                return 'types'
            if len(its) == 1 and sk == 'colours' and \
                    src(v.elt).endswith('.value'):
                return 'colours'
            if len(its) == 2 and sk == 'types' and \
                    re.fullmatch(r'range\(\w+\.num_states\(\)\)', its[1]) and \
                    isinstance(v.elt, ast.Tuple) and len(v.elt.elts) == 2 and \
                    src(v.elt.elts[0]).endswith('.type_index()') and \
                    src(v.elt.elts[1]) == src(v.generators[1].target):
                return 'states'
        return '?'
    kinds = [list_kind(lst) for _, lst, _, _ in stores]
    rep.check(kinds == ['types', 'states', 'colours'], 'C16.R6', rel, name, init.node.lineno,
              '; '.join(src(lst) for _, lst, _, _ in stores),
              'the compact maps are not filled over the sorted types, range(num_states()) '
              'and sorted colours', f'{c.name} iteration orders')
    want = {'types': 'self._grid_object_type_map', 'states': 'self._grid_object_status_map',
            'colours': 'self._grid_object_color_map'}
    okm = True
    for (e, _, _, item), k in zip(stores, kinds):
        okm = okm and src(e.target.value) == want.get(k) and \
            src(e.target.slice) in (src(item), src(item).strip('()'))
    rep.check(okm, 'C16.R6', rel, name, init.node.lineno,
              '; '.join(src(e.stmt) for e, _, _, _ in stores),
              'the enumerated indices are not stored at their own (type / (type, status) / '
              'colour) position of the three maps', f'{c.name} maps installed')
    for i in range(3):
        rep.holds('C16.R6', f'{rel}:{name}:{i}', 'consecutive by enumerate')
    return True


def _tuple_item(w, attr: str, local: str) -> bool:
    """`attr` is assigned the element of a parallel assignment that is the local array"""
    for e in w.events:
        st = e.stmt
        if isinstance(st, ast.Assign) and len(st.targets) == 1 and \
                isinstance(st.targets[0], ast.Tuple):
            v = w.expand(st.value, stop=[local] if local else [])
            if isinstance(v, ast.Tuple) and len(v.elts) == len(st.targets[0].elts):
                for t, x in zip(st.targets[0].elts, v.elts):
                    if src(t) == attr and src(x) == local:
                        return True
    return False


def _next_stmt(fn: ast.FunctionDef, stmt: ast.stmt):
    for n in ast.walk(fn):
        for field in ('body', 'orelse', 'finalbody'):
            blk = getattr(n, field, None)
            if isinstance(blk, list) and stmt in blk:
                i = blk.index(stmt)
                return blk[i + 1] if i + 1 < len(blk) else None
    return None
