"""C01 -- every step from a valid state is a valid transition (closure and totality)."""
from __future__ import annotations

import ast
import itertools
from typing import Dict, List, Optional, Set, Tuple

from ..boolean import Evaluator, OutOfGrid, World
from ..bounds import run_bounds
from ..core import AnalysisError, src
from ..dynmodel import FnModel
from ..guards import (atoms_of, f_and, formula_of, show, strip_iter, walk_function)
from ..index import Func, RepoIndex
from ..inteval import CannotEval, ev as int_ev

EXPLANATION = (
    'Structural clauses of closure/totality decided statically: (R1) a bounds-guard '
    'analysis classifies the position of every grid subscript in the transition, reward, '
    'terminating, visibility and observation modules as in-grid by construction (agent '
    'position, iteration over area.positions(), rays of the area, ranges over the shape, '
    'elements of lists filtered by contains) or possibly outside, in which case the '
    'dominating guard -- evaluated in a finite world model -- must imply '
    '`area.contains(position)`; try/except IndexError and Grid.get are not guards '
    '(negative indices wrap). (R2) the always-on action check precedes the dynamics and is '
    'not debug-gated. (R3) the membership predicates are conjunctions covering every facet '
    'the space declares, the two siblings are compared facet by facet, the observation '
    'bounds are compared with 0 <= c < size at small points. (R4) every return of a reward '
    '(terminating) function is float- (bool-) kinded. (R5) random indices on possibly-empty '
    'lists and action-keyed lookups are guarded. (R6) every shipped configuration declares '
    'all object types and colours its reset and transition functions can place.')
TRUSTED = ['documented preconditions of components (mitt.one uniqueness) are not re-checked',
           'custom components (module:name) are out of scope',
           'C03.R1: the dynamics run on a copy, so a rejected action changes nothing']

GW = 'gym_gridverse/envs/gridworld.py'
SPACES = 'gym_gridverse/spaces.py'
TRANS = 'gym_gridverse/envs/transition_functions.py'


# ----------------------------------------------------------------------- R2
def action_check(index: RepoIndex, rep, rule: str) -> None:
    f = index.func(GW, 'GridWorld.functional_step')
    from ..view import view
    from ..guards import f_or, parse_guard, prop_assignments, prop_truth
    w = view(index, f, cross=('transition_with_copy',))[1]
    ap = f.node.args.args[2].arg
    raises = [e for e in w.events if e.kind == 'raise']
    MEMBER = f'self.action_space.contains({ap})'
    member = parse_guard(MEMBER)
    hit = []
    for e in raises:
        g = strip_iter(w.expand_formula(e.guard))
        earlier = [strip_iter(w.expand_formula(x.guard)) for x in raises if x.order < e.order]
        E = f_or(*earlier) if earlier else ('false',)
        ok = True
        for asg in prop_assignments(g, E, member):
            fires = prop_truth(g, asg)
            is_member = prop_truth(member, asg)
            if fires and is_member:
                ok = False        # rejects a legal action
            if not is_member and not prop_truth(E, asg) and not fires:
                ok = False        # an illegal action gets through (e.g. only checked in debug)
        if ok:
            hit.append(e)
    ok = bool(hit)
    rep.check(ok, rule, GW, 'GridWorld.functional_step', f.node.lineno,
              '; '.join(show(strip_iter(e.guard)) for e in raises),
              'no always-on `raise ValueError` under `not action_space.contains(action)`: '
              'actions outside the action space are not rejected (or only in debug mode)',
              'action check present')
    if not hit:
        return
    e = hit[0]
    exc = src(e.value) if e.value is not None else ''
    rep.check(exc.startswith('ValueError('), rule, GW, 'GridWorld.functional_step', e.line,
              src(e.stmt), f'the action check raises `{exc[:40]}`, not ValueError',
              'raises ValueError')
    dyn = [c for c in w.events if c.kind == 'call'
           and src(w.expand(c.node.func)) in ('transition_with_copy', 'self._transition_function',
                                    'self._reward_function', 'self._termination_function')]
    rep.check(bool(dyn) and all(c.order > e.order for c in dyn), rule, GW,
              'GridWorld.functional_step', e.line, src(e.stmt),
              'the dynamics run before the action is checked', 'check precedes dynamics')
    # ... and nothing has been stored before the check in the stateful entry point: `step`
    # evaluates `self.state` (a property) and then calls functional_step, which raises; neither
    # that read nor any statement of `step` before the call may store (C04.R3)
    INNER_ = 'gym_gridverse/envs/inner_env.py'
    ic = index.cls(INNER_, 'InnerEnv')
    stp, getter = ic.methods.get('step'), ic.methods.get('state')
    if stp is None or getter is None:
        raise AnalysisError('anchor vanished: InnerEnv.step / InnerEnv.state')
    ws = view(index, stp)[1]
    fc_ = [c for c in ws.events if c.kind == 'call'
           and src(c.node.func) == 'self.functional_step']
    early = [x for x in ws.events if x.kind in ('store', 'attrstore', 'augstore', 'delete')
             and fc_ and x.order < fc_[0].order]
    wg = view(index, getter)[1]
    early += [x for x in wg.events if x.kind in ('store', 'attrstore', 'augstore', 'delete')]
    rep.check(bool(fc_) and not early, rule, INNER_, 'InnerEnv.step', stp.node.lineno,
              '; '.join(src(x.stmt) for x in early) or 'InnerEnv.step',
              'the environment is modified before the action is checked '
              f'(`{src(early[0].stmt) if early else ""}`): a rejected action would not leave '
              'everything unchanged', 'nothing stored before the check')
    # `action in self.actions` rejects numbers only if Action is a plain enum: members of an
    # IntEnum (or an enum mixed with int) compare equal to integers, booleans and floats
    acls = index.cls('gym_gridverse/action.py', 'Action')
    bases = [b_.split('.')[-1] for b_ in acls.bases]
    rep.check(bases == ['Enum'], rule, 'gym_gridverse/action.py', 'Action', acls.node.lineno,
              f'class Action({", ".join(acls.bases)})',
              f'Action derives from {acls.bases}: a number equal to a member\'s value passes the '
              f'membership test of the action space, so an action outside the space is not '
              f'rejected with ValueError', 'Action is a plain Enum')
    m = index.func(SPACES, 'ActionSpace.contains')
    b = m.body()
    p = m.node.args.args[1].arg
    from ..view import value_text
    rep.check(value_text(index, m) == f'{p} in self.actions', rule, SPACES,
              'ActionSpace.contains', m.node.lineno, src(b[-1]),
              'ActionSpace.contains is not membership in the declared actions',
              'action membership')


def _conj(f) -> List:
    if f == ('true',):
        return []
    return list(f[1:]) if f[0] == 'and' else [f]


# ----------------------------------------------------------------------- R3
FACETS_STATE = ['shape', 'types', 'colors', 'position', 'orientation', 'held-type', 'held-color']
FACETS_OBS = ['shape', 'types', 'colors', 'position-y', 'position-x', 'held-type', 'held-color']


def _flat_and(v: ast.AST) -> List[ast.AST]:
    if isinstance(v, ast.BoolOp) and isinstance(v.op, ast.And):
        return [x for y in v.values for x in _flat_and(y)]
    if isinstance(v, ast.Call) and src(v.func) == 'all' and len(v.args) == 1 and \
            isinstance(v.args[0], (ast.List, ast.Tuple)):
        return [x for y in v.args[0].elts for x in _flat_and(y)]
    if isinstance(v, ast.Call) and src(v.func) == 'all' and len(v.args) == 1 and \
            isinstance(v.args[0], (ast.GeneratorExp, ast.ListComp)) and \
            isinstance(v.args[0].elt, ast.BoolOp) and isinstance(v.args[0].elt.op, ast.And):
        # all(A and B for o in C)  ==  all(A for o in C) and all(B for o in C)
        g = v.args[0]
        return [x for part in g.elt.values
                for x in _flat_and(ast.Call(ast.Name('all', ast.Load()),
                                            [ast.GeneratorExp(part, g.generators)], []))]
    return [v]


def conjuncts_of_contains(f: Func, index: Optional[RepoIndex] = None) -> Tuple[List[ast.AST], str]:
    w = walk_function(f.node)
    p = f.node.args.args[1].arg
    rets = [e for e in w.events if e.kind == 'return' and e.value is not None]
    early = [e for e in rets[:-1]]
    if not rets or any(not (isinstance(e.value, ast.Constant) and e.value.value is False)
                       for e in early):
        raise AnalysisError(f'{f.short}: expected `return False` guards and one final return')
    v = w.expand(rets[-1].value)
    # the path condition of the final return: the negations of the early `return False` tests
    pc = w.expand_formula(strip_iter(rets[-1].guard))
    pre: List[ast.AST] = []
    for part in _conj(pc):
        neg = part[0] == 'not'
        a = part[1] if neg else part
        if a[0] != 'atom':
            raise AnalysisError(f'{f.short}: early-return test outside the grammar '
                                f'(`{show(part)[:60]}`)')
        pre.append(ast.UnaryOp(ast.Not(), a[1]) if neg else a[1])
    if pre:
        v = ast.BoolOp(ast.And(), pre + [v])
    if index is not None:
        from ..inline import inline_pure_exprs
        v = inline_pure_exprs(index, f.module, f.cls, v)
    import copy
    from ..inline import _Rename
    v = _Rename({p: 'X'}).visit(copy.deepcopy(v))
    out = _flat_and(v)
    if len(out) < 2:
        raise AnalysisError(f'{f.short}: the predicate is not a conjunction (`{src(v)[:80]}`)')
    return out, p


def classify_facet(c: ast.AST, kind: str, index=None) -> Optional[str]:
    s = src(c)
    if isinstance(c, ast.Compare) and len(c.ops) == 1 and isinstance(c.ops[0], ast.Eq):
        sides = {src(c.left), src(c.comparators[0])}
        if sides == {'X.grid.shape', 'self.grid_shape'}:
            return 'shape'
    if isinstance(c, ast.Call) and isinstance(c.func, ast.Attribute) and \
            c.func.attr == 'issubset' and len(c.args) == 1:
        from ..setden import set_den
        d0 = set_den(c.args[0])
        arg = next(iter(d0[0])) if d0 is not None and len(d0[0]) == 1 else src(c.args[0])
        from ..cellimage import cells_image
        img = cells_image(index, c.func.value) if index is not None else None
        if img is not None and img[0] == 'X.grid':
            elt = src(img[1])
            if elt == 'type(O)' and arg == ('self.object_types' if kind == 'state'
                                            else 'self._grid_object_types'):
                return 'types'
            if elt == 'O.color' and arg == 'self.colors':
                return 'colors'
    if isinstance(c, ast.Call) and src(c.func) == 'all' and len(c.args) == 1 and \
            isinstance(c.args[0], (ast.GeneratorExp, ast.ListComp)) and \
            isinstance(c.args[0].elt, ast.Compare) and len(c.args[0].elt.ops) == 1 and \
            isinstance(c.args[0].elt.ops[0], ast.In) and index is not None:
        # all(f(o) in S for o in <cells>)  ==  {f(o) for o in <cells>}.issubset(S)
        from ..cellimage import cells_image
        from ..setden import set_den
        g = c.args[0]
        img = cells_image(index, ast.GeneratorExp(g.elt.left, g.generators))
        d = set_den(g.elt.comparators[0])
        if img is not None and img[0] == 'X.grid' and d is not None:
            elt = src(img[1])
            if elt == 'type(O)' and d[0] == {'self.object_types' if kind == 'state'
                                             else 'self._grid_object_types'}:
                return 'types'
            if elt == 'O.color' and d[0] == {'self.colors'}:
                return 'colors'
    if s == 'X.grid.area.contains(X.agent.position)':
        return 'position'
    if s == 'isinstance(X.agent.orientation, Orientation)':
        return 'orientation'
    if s == 'type(X.agent.grid_object) in self._agent_object_types':
        return 'held-type'
    if s == 'X.agent.grid_object.color in self.colors':
        return 'held-color'
    if isinstance(c, (ast.Compare, ast.BoolOp)):
        names = {src(n) for n in ast.walk(c) if isinstance(n, ast.Attribute)}
        if 'X.agent.position.y' in names and 'X.agent.position.x' not in names:
            return 'position-y'
        if 'X.agent.position.x' in names and 'X.agent.position.y' not in names:
            return 'position-x'
    return None


def space_sets(index: RepoIndex, rep, rule: str) -> None:
    """what the constructors of StateSpace / ObservationSpace store, read as sets: the declared
    colours plus NONE, the declared types plus NoneGridObject / Hidden, each free of repeats
    (the compact representations number the elements of these collections)"""
    # constructor facts the facets rely on (read as sets, not as spellings)
    from ..setden import set_den
    for cname in ('StateSpace', 'ObservationSpace'):
        init = index.func(SPACES, f'{cname}.__init__')
        w = walk_function(init.node)
        st: Dict[str, ast.AST] = {}
        for e in w.events:
            if e.kind == 'attrstore':
                from ..inline import inline_pure_exprs
                st[src(e.target)] = inline_pure_exprs(index, init.module, init.cls,
                                                      w.expand(e.value))

        def den(attr: str):
            v = st.get(attr)
            # attributes stored earlier stand for their value (`set(self.object_types) | ..`)
            return None if v is None else set_den(
                v, lambda t: st.get(t) if t != attr and t.startswith('self.') else None)
        wanted = [('self.colors', {'colors', 'elt:Color.NONE'},
                   'the declared colours do not always include Color.NONE (colourless objects '
                   'would be rejected)', f'{cname} colours include NONE'),
                  ('self._agent_object_types', {'object_types', 'elt:NoneGridObject'},
                   'the held-item types do not include NoneGridObject (an empty hand would be '
                   'rejected)', f'{cname} held types include None')]
        if cname == 'ObservationSpace':
            wanted.append(('self._grid_object_types', {'object_types', 'elt:Hidden'},
                           'observation cell types do not include Hidden',
                           'obs types include Hidden'))
        from .c03 import shared_class_attributes
        shared_class_attributes(index, rep, rule, only=(cname,))
        for attr, atoms, msg, label in wanted:
            if attr not in st and any(
                    isinstance(x, ast.AugAssign) and src(x.target) == attr
                    for x in ast.walk(init.node)):
                continue        # updated in place only: reported by the rule above
            d = den(attr)
            if d is None:
                raise AnalysisError(f'{cname}.__init__: `{attr} = '
                                    f'{src(st[attr])[:80] if attr in st else "<missing>"}` is '
                                    f'outside the set expressions understood')
            rep.check(d[0] == atoms, rule, SPACES, f'{cname}.__init__', init.node.lineno,
                      src(st[attr]), msg + f' -- it denotes {sorted(d[0])}', label)
            rep.check(d[1], rule, SPACES, f'{cname}.__init__', init.node.lineno,
                      src(st[attr]), f'`{attr}` can hold an element twice: the compact '
                      f'representations number its elements, a repeated one leaves a gap and '
                      f'pushes the largest index past the declared bound',
                      f'{cname} {attr} duplicate-free')


def spaces_immutable(index: RepoIndex, rep, rule: str) -> None:
    """what a space declares is fixed by its constructor: no other method or property of
    StateSpace / ObservationSpace / ActionSpace modifies the space (a derived quantity that
    extends `self.object_types` in place makes `contains` accept states it rejected before)"""
    from ..effects import Effects
    eff = Effects(index)
    for cname in ('StateSpace', 'ObservationSpace', 'ActionSpace'):
        c = index.cls(SPACES, cname)
        for mname, m in sorted(c.methods.items()):
            if mname == '__init__':
                continue
            sm = eff.summ.get(m.qualname)
            if sm is None:
                continue
            me = m.node.args.args[0].arg if m.node.args.args else 'self'
            sites = [t for _, t in sm.mut_sites.get(me, [])]
            rep.check(me not in sm.mut_params, rule, SPACES, m.short, m.node.lineno,
                      '; '.join(sites)[:160] or m.short,
                      f'{m.short} modifies the space it belongs to ({"; ".join(sites)[:120]}): '
                      f'what the space declares changes after construction, so membership '
                      f'depends on which derived quantities were read before',
                      f'{m.short} leaves the space alone')


def membership(index: RepoIndex, rep, rule: str) -> None:
    for cname, kind, facets in (('StateSpace', 'state', FACETS_STATE),
                                ('ObservationSpace', 'obs', FACETS_OBS)):
        f = index.func(SPACES, f'{cname}.contains')
        conj, p = conjuncts_of_contains(f, index)
        found: Dict[str, ast.AST] = {}
        for c in conj:
            fac = classify_facet(c, kind, index)
            if fac is None:
                # second reading: an expression moved into a new method of another class
                from ..inline import inline_methods_by_name
                c2 = inline_methods_by_name(index, c, exclude=('contains', 'positions',
                                                               'object_types'))
                fac = classify_facet(c2, kind, index)
                if fac is not None:
                    c = c2
            if fac is None:
                rep.violation(rule, SPACES, f'{cname}.contains', f.node.lineno, src(c),
                              f'conjunct `{src(c)[:100]}` is not a facet the space declares: '
                              f'conforming {kind}s could be rejected (or a facet is '
                              f'mis-stated)')
                continue
            found[fac] = c
        for fac in facets:
            rep.check(fac in found, rule, SPACES, f'{cname}.contains', f.node.lineno,
                      src(found[fac])[:120] if fac in found else f'{cname}.contains',
                      f'{cname}.contains does not check the `{fac}` facet: non-conforming '
                      f'{kind}s are accepted', f'{cname} facet {fac}')
        if kind == 'obs':
            for axis, size in (('y', 'height'), ('x', 'width')):
                c = found.get(f'position-{axis}')
                if c is None:
                    continue
                bad = None
                for n in (1, 2, 3, 5):
                    for v in range(-3, 8):
                        env = {f'X.agent.position.{axis}': v, f'self.area.{size}': n,
                               f'self.grid_shape.{size}': n}
                        try:
                            got = bool(int_ev(c, env))
                        except CannotEval as e:
                            raise AnalysisError(f'ObservationSpace.contains bounds: {e}')
                        if got != (0 <= v < n) and bad is None:
                            bad = (n, v, got)
                rep.check(bad is None, rule, SPACES, 'ObservationSpace.contains',
                          f.node.lineno, src(c),
                          f'agent {axis}-bound is not `0 <= {axis} < {size}`: '
                          + (f'{size}={bad[0]}, {axis}={bad[1]} is '
                             f'{"accepted" if bad[2] else "rejected"}' if bad else ''),
                          f'obs {axis} bounds half-open')
    space_sets(index, rep, rule)
    spaces_immutable(index, rep, rule)
    # Area.contains is two-sided on both coordinates
    f = index.func('gym_gridverse/geometry.py', 'Area.contains')
    b = f.body()
    p = f.node.args.args[1].arg
    bad = None
    from ..inline import pure_body_expr
    from ..normalise import duck_pair_versions
    body_e = pure_body_expr(f.node)
    pair_e = None
    if body_e is None:
        # `try: y, x = position.y, position.x / except AttributeError: y, x = position`: the
        # Position reading is judged here, the pair reading below
        vers = duck_pair_versions(f.node)
        if vers is not None:
            body_e = pure_body_expr(vers[0])
            pair_e = pure_body_expr(vers[1])
    if body_e is not None:
        for y, x in itertools.product(range(-2, 6), repeat=2):
            env = {'self.ymin': 0, 'self.ymax': 2, 'self.xmin': 1, 'self.xmax': 3,
                   f'{p}.y': y, f'{p}.x': x, 'self.ys[0]': 0, 'self.ys[1]': 2,
                   'self.xs[0]': 1, 'self.xs[1]': 3}
            try:
                got = bool(int_ev(body_e, env))
            except CannotEval as e:
                raise AnalysisError(f'Area.contains outside the grammar: {e}')
            if got != (0 <= y <= 2 and 1 <= x <= 3) and bad is None:
                bad = (y, x, got)
    else:
        raise AnalysisError('Area.contains is not a single return')
    rep.check(bad is None, rule, 'gym_gridverse/geometry.py', 'Area.contains', f.node.lineno,
              src(body_e), 'Area.contains is not the two-sided test on both coordinates: '
              + (f'area ys=(0,2) xs=(1,3), position {bad[:2]} -> {bad[2]}' if bad else ''),
              'Area.contains two-sided')
    if pair_e is not None:
        badp = None
        for y, x in itertools.product(range(-2, 6), repeat=2):
            env = {'self.ymin': 0, 'self.ymax': 2, 'self.xmin': 1, 'self.xmax': 3,
                   f'{p}[0]': y, f'{p}[1]': x, p: (y, x), 'self.ys[0]': 0, 'self.ys[1]': 2,
                   'self.xs[0]': 1, 'self.xs[1]': 3}
            try:
                got = bool(int_ev(pair_e, env))
            except (CannotEval, TypeError) as e:
                raise AnalysisError(f'Area.contains (pair reading) outside the grammar: {e}')
            if got != (0 <= y <= 2 and 1 <= x <= 3) and badp is None:
                badp = (y, x, got)
        rep.check(badp is None, rule, 'gym_gridverse/geometry.py', 'Area.contains',
                  f.node.lineno, src(pair_e), 'Area.contains on a (y, x) pair is not the '
                  'two-sided test on both coordinates: '
                  + (f'area ys=(0,2) xs=(1,3), pair {badp[:2]} -> {badp[2]}' if badp else ''),
                  'Area.contains two-sided on pairs')
    # Grid.area spans exactly the grid
    from ..affine import Aff, NonAffine, aff_of, dict_env
    from ..inline import inline_methods_by_name
    gi = index.func('gym_gridverse/grid.py', 'Grid.__init__')
    w = walk_function(gi.node)
    st2: Dict[str, ast.AST] = {}
    for e in w.events:
        if e.kind == 'attrstore':
            st2[src(e.target)] = inline_methods_by_name(index, w.expand(e.value), new_only=True)
    objp = gi.node.args.args[1].arg
    H, W = Aff.sym('H'), Aff.sym('W')
    base = {f'len({objp})': H, f'len({objp}[0])': W, f'len(self.objects)': H,
            'len(self.objects[0])': W}

    def _args(call: ast.AST, cls_name: str, names) -> Optional[List[ast.AST]]:
        if not (isinstance(call, ast.Call) and src(call.func) == cls_name):
            return None
        got = dict(zip(names, call.args))
        for k in call.keywords:
            got[k.arg] = k.value
        return [got[n] for n in names] if set(got) == set(names) else None
    ok = False
    shape_args = _args(st2.get('self.shape'), 'Shape', ['height', 'width'])
    area_args = _args(st2.get('self.area'), 'Area', ['ys', 'xs'])
    if shape_args is None or area_args is None or \
            not all(isinstance(a, ast.Tuple) and len(a.elts) == 2 for a in area_args):
        raise AnalysisError('Grid.__init__: shape / area are not built by Shape(h, w) and '
                            f'Area((y0, y1), (x0, x1)): {src(st2.get("self.shape", ast.Constant(None)))}; '
                            f'{src(st2.get("self.area", ast.Constant(None)))}')
    try:
        sh = [aff_of(a, dict_env(base)) for a in shape_args]
        env2 = dict(base)
        env2.update({'self.shape.height': sh[0], 'self.shape.width': sh[1]})
        ar = [[aff_of(x, dict_env(env2)) for x in a.elts] for a in area_args]
        ok = sh == [H, W] and ar == [[Aff.const(0), H - 1], [Aff.const(0), W - 1]]
    except NonAffine as ex:
        raise AnalysisError(f'Grid.__init__: shape / area bound `{ex}` is not affine in the '
                            f'numbers of rows and columns')
    rep.check(ok, rule,
              'gym_gridverse/grid.py', 'Grid.__init__', gi.node.lineno,
              f'{src(st2["self.shape"])}; {src(st2["self.area"])}',
              'Grid.area is not ((0, height-1), (0, width-1)) of the stored objects',
              'grid area spans the grid')


# ----------------------------------------------------------------------- R4
def _float_kinded(e: ast.AST, f: Func, w, depth: int = 4) -> Tuple[bool, str]:
    if isinstance(e, ast.Constant):
        return (isinstance(e.value, float), f'literal {e.value!r} is not a float')
    if isinstance(e, ast.UnaryOp) and isinstance(e.op, (ast.USub, ast.UAdd)):
        return _float_kinded(e.operand, f, w, depth)
    if isinstance(e, ast.BinOp) and isinstance(e.op, (ast.Mult, ast.Add, ast.Sub, ast.Div)):
        a, ra = _float_kinded(e.left, f, w, depth)
        b, rb = _float_kinded(e.right, f, w, depth)
        if isinstance(e.op, ast.Div):
            return True, ''
        return (a or b) and True, ra if not a and not b else ''
    if isinstance(e, ast.IfExp):
        a, ra = _float_kinded(e.body, f, w, depth)
        b, rb = _float_kinded(e.orelse, f, w, depth)
        return a and b, ra or rb
    if isinstance(e, ast.Name):
        for p in f.params():
            if p.arg == e.id:
                ann = src(p.annotation) if p.annotation is not None else ''
                d = f.param_defaults().get(p.arg)
                if ann == 'float' or (isinstance(d, ast.Constant) and isinstance(d.value, float)):
                    return True, ''
                return False, f'parameter `{e.id}` is not annotated float'
        if depth > 0:
            d = w.single_def(e.id)
            if d is not None and d[0] == 'value':
                return _float_kinded(d[1], f, w, depth - 1)
        return False, f'`{e.id}` is not known to be a float'
    if isinstance(e, ast.Call):
        fs = src(e.func)
        if fs in ('float', 'sum', 'reduction', 'distance_function', 'math.sqrt', 'abs'):
            return True, ''
        if fs in ('overlap', 'reduce', 'reduce_sum'):
            return True, ''
        h = _helper_of(f, fs)
        if h is not None and depth > 0:
            return _helper_kinded(h, _float_kinded, depth - 1)
        return False, f'call `{fs}` is not known to return a float'
    if isinstance(e, ast.Subscript):
        return True, ''   # element of a float array (dijkstra distances)
    return False, f'`{src(e)[:40]}` is not float-kinded'


def _bool_kinded(e: ast.AST, f: Func, w, depth: int = 4) -> Tuple[bool, str]:
    if isinstance(e, ast.Constant):
        return isinstance(e.value, bool), f'literal {e.value!r} is not a bool'
    if isinstance(e, ast.Compare):
        return True, ''
    if isinstance(e, ast.UnaryOp) and isinstance(e.op, ast.Not):
        return True, ''
    if isinstance(e, ast.BoolOp):
        for v in e.values:
            ok, r = _bool_kinded(v, f, w, depth)
            if not ok:
                return False, r
        return True, ''
    if isinstance(e, ast.IfExp):
        a, ra = _bool_kinded(e.body, f, w, depth)
        b, rb = _bool_kinded(e.orelse, f, w, depth)
        return a and b, ra or rb
    if isinstance(e, ast.Call):
        fs = src(e.func)
        if fs in ('isinstance', 'any', 'all', 'bool', 'reduction', 'overlap', 'reduce',
                  'reduce_any', 'reduce_all') or fs.endswith('.contains') or \
                fs.endswith('.issubset'):
            return True, ''
        h = _helper_of(f, fs)
        if h is not None and depth > 0:
            return _helper_kinded(h, _bool_kinded, depth - 1)
        return False, f'call `{fs}` is not known to return a bool'
    if isinstance(e, ast.Name) and depth > 0:
        d = w.single_def(e.id)
        if d is not None and d[0] == 'value':
            return _bool_kinded(d[1], f, w, depth - 1)
    return False, f'`{src(e)[:40]}` is not bool-kinded'


_KIND_INDEX: List[Optional[RepoIndex]] = [None]


def _helper_of(f: Func, name: str) -> Optional[Func]:
    """the repository function a result is delegated to: a module-local helper, an imported
    one, or another registered component (FunctionRegistry.register returns its argument)"""
    from ..inline import opaque_decorators
    h = f.module.functions.get(name)
    if h is None and _KIND_INDEX[0] is not None and name.isidentifier():
        r = _KIND_INDEX[0].resolve_name(f.module, name)
        h = r if isinstance(r, Func) and r.cls is None else None
    if h is None or opaque_decorators(h.node, registered=True):
        return None
    return h


def _helper_kinded(h: Func, kinded, depth: int) -> Tuple[bool, str]:
    """every return of a module-local helper has the kind"""
    w = walk_function(h.node)
    rets = [e for e in w.events if e.kind == 'return']
    if not rets or w.fall is not None:
        return False, f'helper `{h.name}` can return None'
    for r in rets:
        if r.value is None:
            return False, f'helper `{h.name}` returns None'
        ok, why = kinded(r.value, h, w, depth)
        if not ok:
            return False, f'helper `{h.name}`: {why}'
    return True, ''


def result_kinds(index: RepoIndex, rep, rule: str) -> None:
    _KIND_INDEX[0] = index
    for role, kinded, what in (('reward', _float_kinded, 'a float'),
                               ('terminating', _bool_kinded, 'a bool')):
        reg = index.registry(role, 13 if role == 'reward' else 7)
        for name, f in sorted(reg.items()):
            w = walk_function(f.node)
            rets = [e for e in w.events if e.kind == 'return']
            if not rets or w.fall is not None:
                rep.violation(rule, f.relpath, name, f.node.lineno, name,
                              f'{role} function {name} can fall off its end (returns None)')
            for r in rets:
                if r.value is None:
                    rep.violation(rule, f.relpath, name, r.line, src(r.stmt),
                                  f'{role} function {name} returns None')
                    continue
                ok, why = kinded(r.value, f, w)
                rep.check(ok, rule, f.relpath, name, r.line, src(r.value)[:100],
                          f'{role} function {name} returns `{src(r.value)[:60]}`, which is not '
                          f'{what}: {why}', f'{role} {name} returns {what}')


# ----------------------------------------------------------------------- R5
def no_escape(index: RepoIndex, rep, rule: str) -> None:
    reg = index.registry('transition', 8)
    ev = Evaluator(index)
    for name, f in sorted(reg.items()):
        m = FnModel(index, f, ['S', 'A'], ev)
        w = m.walk
        for e in w.events:
            if e.kind == 'call':
                fs = src(e.node.func)
                seq = None
                if fs.endswith('.choice') and e.node.args and \
                        isinstance(e.node.args[0], ast.Call) and \
                        src(e.node.args[0].func) == 'len':
                    seq = e.node.args[0].args[0]
                elif fs == 'choice' and len(e.node.args) == 2:
                    seq = e.node.args[1]
                if seq is None:
                    continue
                # possibly empty: built by a filtering comprehension
                d = w.single_def(seq.id) if isinstance(seq, ast.Name) else None
                filtered = True
                if d is not None and d[0] == 'value' and isinstance(d[1], (ast.List, ast.Tuple)):
                    filtered = len(d[1].elts) == 0
                if isinstance(seq, (ast.List, ast.Tuple)):
                    filtered = len(seq.elts) == 0
                if not filtered:
                    rep.holds(rule, f'{f.relpath}:{name}:{e.line}', 'non-empty literal')
                    continue
                guarded = any('ValueError' in t or t in ('Exception', 'BaseException')
                              for t in e.in_try)
                if not guarded:
                    g = m.formula(e.guard)
                    key = src(seq)

                    def probe(wd):
                        try:
                            ev.holds(g, wd)
                        except OutOfGrid:
                            pass
                    ok = True
                    for wd in ev.worlds(probe):
                        try:
                            h = ev.holds(g, wd)
                        except OutOfGrid:
                            h = False
                        if h and wd.vals.get(('nonempty', key)) is not True:
                            ok = False
                    guarded = ok
                rep.check(guarded, rule, f.relpath, name, e.line, src(e.stmt),
                          f'`{src(e.node)}` draws an index into `{src(seq)}`, which is empty in '
                          f'some member states (e.g. an unpaired telepod, a boxed-in obstacle): '
                          f'ValueError escapes the step', f'{name}: guarded draw')
            if e.kind == 'load' and isinstance(e.node.value, ast.Name) and \
                    e.node.value.id in ev.action_tables and \
                    src(e.node.slice) == f.node.args.args[1].arg:
                guarded = any('KeyError' in t for t in e.in_try)
                if not guarded:
                    g = m.formula(e.guard)
                    tab = ev.action_tables[e.node.value.id]

                    def probe(wd):
                        ev.holds(g, wd)
                    ok = True
                    for wd in ev.worlds(probe):
                        if ev.holds(g, wd) and wd.vals.get(('action',)) not in tab:
                            ok = False
                    guarded = ok
                rep.check(guarded, rule, f.relpath, name, e.line, src(e.stmt),
                          f'`{src(e.node)}` looks the action up in a table that does not cover '
                          f'every action: KeyError escapes the step', f'{name}: guarded lookup')
    # get_next_position (shared helper of move_agent / bump_into_wall): its denotation for
    # every action and heading is a value, never an escaping KeyError
    from ..geom import GeoInterp, P
    gi = GeoInterp(index)
    f = index.func('gym_gridverse/envs/utils.py', 'get_next_position')
    ps = [a.arg for a in f.node.args.args]
    if len(ps) != 3:
        raise AnalysisError('get_next_position no longer takes (position, orientation, action)')
    bad = []
    for a in index.enum('Action').order:
        for o in index.enum('Orientation').order:
            got = gi.call(f, {ps[0]: P('py', 'px'), ps[1]: ('O', o), ps[2]: ('E', 'Action', a)})
            if got[0] == 'X' and got[1].startswith('raise'):
                bad.append(f'{a}/{o}: {got[1]}')
    rep.check(not bad, rule, f.relpath, 'get_next_position', f.node.lineno,
              'get_next_position', 'the move table lookup is not protected against non-move '
              f'actions: {bad[:3]}', 'get_next_position: guarded lookup')


def run(index: RepoIndex, rep) -> None:
    rep.rule('C01.R7', 'row and column quantities are not exchanged in the membership predicates and the dynamics (axis typing, E14)', floor=1)
    from ..axes import axis_rule
    axis_rule(index, rep, 'C01.R7', ('gym_gridverse/spaces.py', 'gym_gridverse/envs/transition_functions.py', 'gym_gridverse/envs/utils.py', 'gym_gridverse/envs/reward_functions.py'), floor=30)
    rep.rule('C01.R1', 'bounds: every grid subscript with a possibly-outside position is '
             'dominated by area.contains (IndexError idiom is one-sided)', floor=27)
    rep.rule('C01.R2', 'always-on action check precedes the dynamics', floor=4)
    rep.rule('C01.R3', 'membership predicates cover every declared facet; siblings agree',
             floor=20)
    rep.rule('C01.R4', 'reward returns are float-kinded, termination returns bool-kinded',
             floor=20)
    rep.rule('C01.R5', 'no escaping ValueError/KeyError from random indices and table lookups',
             floor=3)
    rep.rule('C01.R6', 'shipped configurations declare every object type and colour their '
             'reset and transition functions can place', floor=21)
    rep.rule('C01.R8', 'the composition reaches the components as configured: each built-in '
             'observation function is from_visibility with its own visibility function, and '
             'GridWorld hands states and observations through unchanged (C05.R5, C13.R7)',
             floor=6)
    from .c05 import wrappers
    from .wiring import observation_passthrough, reset_passthrough
    wrappers(index, rep, 'C01.R8')
    reset_passthrough(index, rep, 'C01.R8')
    observation_passthrough(index, rep, 'C01.R8')
    from .c04 import outer_delegation
    outer_delegation(index, rep, 'C01.R8', strict=False)
    n = run_bounds(index, rep, 'C01.R1')
    rep.extra_coverage['bounds_sinks'] = n
    action_check(index, rep, 'C01.R2')
    membership(index, rep, 'C01.R3')
    result_kinds(index, rep, 'C01.R4')
    no_escape(index, rep, 'C01.R5')
    from ..config import declared_types_rule
    declared_types_rule(index, rep, 'C01.R6')
