"""C17 -- configurations build exactly the environment they describe, or are rejected."""
from __future__ import annotations

import ast
import copy
import os
import re
from typing import Any, Dict, List, Optional, Set, Tuple

from ..boolean import ObjectModel
from ..config import Configs, N_PROTOCOL, declared_types_rule, signature
from ..core import AnalysisError, src
from ..effects import Effects
from ..guards import show, strip_iter, walk_function
from ..index import PKG, Func, RepoIndex

EXPLANATION = (
    'Shipped configurations are read with a YAML-subset parser and checked against data '
    'extracted from the source: the gym-id table (every id points to an existing packaged '
    'file that is byte-identical to its yaml/ twin, packaged by setup.py); the literal env '
    'schema (required/optional top-level keys); the six registries and the signatures of the '
    'registered functions (every named component exists in the right registry or resolves '
    'to a decorated function of examples/, every required non-protocol parameter is supplied, '
    'extra keys counted); the converters of process_reserved_keys (shape/layout/area/'
    'object_type/colors/distance_function have the shape their converter expects). The six '
    '`factory(name, **kwargs)` functions are compared as alpha-normalised siblings and must '
    'follow import_if_custom -> registry lookup (KeyError -> ValueError) -> required/optional '
    'split -> checkraise_kwargs -> select_kwargs -> partial; every factory_* validates into a '
    'copy before popping (effect summary: the input is not mutated); the environment is '
    'assembled with chain / reduce_sum and the eight components in GridWorld\'s parameter '
    'order, with spaces sized from a sample reset and observation.')
TRUSTED = ['semantics of the `schema` library and of PyYAML on the subset the files use',
           'behavioural equality with a hand-assembled environment beyond these structural '
           'clauses is declined']

GYM = 'gym_gridverse/gym.py'
FACTORY = 'gym_gridverse/envs/yaml/factory.py'
SCHEMAS = 'gym_gridverse/envs/yaml/schemas.py'
FUNCS = 'gym_gridverse/utils/functions.py'
ROLE_FILE = {r: f'gym_gridverse/envs/{r}_functions.py' for r in N_PROTOCOL}
SECTION_ROLE = {'reset_function': 'reset', 'transition_functions': 'transition',
                'reward_functions': 'reward', 'observation_function': 'observation',
                'terminating_function': 'terminating'}
NESTED_ROLE = {'transition_functions': 'transition', 'reward_functions': 'reward',
               'terminating_functions': 'terminating', 'reward_function': 'reward',
               'visibility_function': 'visibility'}


def env_schema_keys(index: RepoIndex) -> Tuple[Set[str], Set[str]]:
    mod = index.module(SCHEMAS)
    for n in ast.walk(mod.tree):
        if isinstance(n, ast.Dict):
            for k, v in zip(n.keys, n.values):
                if isinstance(k, ast.Constant) and k.value == 'env' and \
                        isinstance(v, ast.Call) and src(v.func) == 'Schema' and v.args and \
                        isinstance(v.args[0], ast.Dict):
                    req, opt = set(), set()
                    for kk in v.args[0].keys:
                        if isinstance(kk, ast.Constant):
                            req.add(kk.value)
                        elif isinstance(kk, ast.Call) and src(kk.func) == 'Optional' and \
                                kk.args and isinstance(kk.args[0], ast.Constant):
                            opt.add(kk.args[0].value)
                    return req, opt
    raise AnalysisError('anchor vanished: the `env` schema literal')


def custom_functions(index: RepoIndex) -> Dict[str, Dict[str, Dict[str, Func]]]:
    """module -> role -> name -> Func, for examples/*.py registered functions"""
    out: Dict[str, Dict[str, Dict[str, Func]]] = {}
    for mod in index.modules.values():
        if not mod.relpath.startswith('examples/'):
            continue
        mname = mod.relpath[len('examples/'):-3]
        for f in mod.functions.values():
            for d in f.node.decorator_list:
                t = d.func if isinstance(d, ast.Call) else d
                s = src(t)
                if s.endswith('_registry.register'):
                    role = s.split('.')[-2].replace('_function_registry', '') \
                        if '.' in s else ''
                    role = s[:-len('.register')].split('.')[-1].replace('_function_registry', '')
                    out.setdefault(mname, {}).setdefault(role, {})[f.name] = f
    return out


def custom_objects(index: RepoIndex) -> Dict[str, Set[str]]:
    out: Dict[str, Set[str]] = {}
    for mod in index.modules.values():
        if mod.relpath.startswith('examples/'):
            mname = mod.relpath[len('examples/'):-3]
            for c in mod.classes.values():
                if any('GridObject' in b for b in c.bases):
                    out.setdefault(mname, set()).add(c.name)
    return out


def check_component(index, rep, rule, rel, role: str, entry: Any, customs, om, stats) -> None:
    if not isinstance(entry, dict) or not isinstance(entry.get('name'), str):
        rep.violation(rule, rel, '<config>', 1, str(entry)[:80],
                      f'{role} entry is not a mapping with a string `name`')
        return
    name = entry['name']
    f: Optional[Func] = None
    if ':' in name:
        mname, fname = name.split(':', 1)
        f = customs.get(mname, {}).get(role, {}).get(fname)
        if f is None:
            rep.violation(rule, rel, '<config>', 1, f'{role}: {name}',
                          f'custom {role} function `{name}` does not resolve to a registered '
                          f'function of examples/{mname}.py')
            return
    else:
        f = index.registries.get(role, {}).get(name)
        if f is None:
            rep.violation(rule, rel, '<config>', 1, f'{role}: {name}',
                          f'`{name}` is not a registered {role} function '
                          f'(known: {sorted(index.registries.get(role, {}))})')
            return
    req, opt = signature(role, f)
    given = set(entry) - {'name'}
    missing = [p for p in req if p not in given]
    extra = sorted(given - set(req) - set(opt))
    stats['extra'] += len(extra)
    rep.check(not missing, rule, rel, '<config>', 1, f'{role}: {name} {sorted(given)}',
              f'{role} function `{name}` requires {missing}, which the configuration does not '
              f'supply', f'{rel}: {role} {name} parameters')
    # reserved keys
    for k, v in entry.items():
        if k == 'shape' or k == 'layout':
            ok = isinstance(v, list) and len(v) == 2 and all(
                isinstance(x, int) and not isinstance(x, bool) and x > 0 for x in v)
            rep.check(ok, rule, rel, '<config>', 1, f'{k}: {v}',
                      f'`{k}` of {name} is {v}, not a pair of positive integers', f'{rel}: {k}')
        elif k == 'area':
            ok = isinstance(v, list) and len(v) == 2 and all(
                isinstance(p, list) and len(p) == 2 and all(isinstance(x, int) for x in p)
                and p[0] <= p[1] for p in v)
            rep.check(ok, rule, rel, '<config>', 1, f'area: {v}',
                      f'`area` of {name} is {v}, not a pair of non-decreasing integer pairs',
                      f'{rel}: area')
        elif k == 'object_type':
            ok = isinstance(v, str) and (v in om.classes or ':' in v)
            rep.check(ok, rule, rel, '<config>', 1, f'object_type: {v}',
                      f'`object_type` {v} of {name} is not a registered grid object',
                      f'{rel}: object_type')
        elif k == 'colors':
            cols = index.enum('Color').members
            ok = isinstance(v, list) and v and all(c in cols for c in v) and \
                len(set(v)) == len(v)
            rep.check(ok, rule, rel, '<config>', 1, f'colors: {v}',
                      f'`colors` of {name} is {v}, not a non-empty list of unique colour names',
                      f'{rel}: colors')
        elif k == 'distance_function':
            rep.check(v in ('manhattan', 'euclidean'), rule, rel, '<config>', 1,
                      f'distance_function: {v}', f'unknown distance function {v}',
                      f'{rel}: distance_function')
        elif k in NESTED_ROLE:
            sub = v if isinstance(v, list) else [v]
            for s_ in sub:
                check_component(index, rep, rule, rel, NESTED_ROLE[k], s_, customs, om, stats)


def alpha(f: Func, slots: Dict[str, str]) -> str:
    """dump of the function body with the role-specific slots normalised"""
    node = copy.deepcopy(f.node)
    node.returns = None

    class Norm(ast.NodeTransformer):
        def visit_Attribute(self, n):
            self.generic_visit(n)
            if isinstance(n.value, ast.Name) and n.value.id == 'functools':
                return ast.Name(n.attr, n.ctx)
            return n
    node = Norm().visit(node)
    for n in ast.walk(node):
        if isinstance(n, ast.Name):
            n.id = slots.get(n.id, n.id)
        if isinstance(n, ast.JoinedStr):
            n.values = []
        if isinstance(n, ast.Constant) and isinstance(n.value, str):
            n.value = 'S'
    return ast.dump(ast.Module(body=node.body, type_ignores=[]))


def select_kwargs_ok(sk: Func) -> bool:
    """select_kwargs(kwargs, keys) denotes {k: v for k, v in kwargs.items() if k in keys}"""
    w = walk_function(sk.node)
    kp, ks = [a.arg for a in sk.node.args.args[:2]]
    rets = [e for e in w.events if e.kind == 'return' and e.value is not None]
    if len(rets) != 1:
        return False
    v = w.expand(rets[0].value)
    if not (isinstance(v, ast.DictComp) and len(v.generators) == 1):
        return False
    g = v.generators[0]
    if not (isinstance(g.target, ast.Tuple) and len(g.target.elts) == 2 and
            all(isinstance(t, ast.Name) for t in g.target.elts)):
        return False
    k, val = (t.id for t in g.target.elts)
    conds = [src(c) for c in g.ifs]
    return src(g.iter) == f'{kp}.items()' and src(v.key) == k and src(v.value) == val and \
        conds == [f'{k} in {ks}']


class _TupleSub(ast.NodeTransformer):
    """`(a, b)[0]` -> `a`"""

    def visit_Subscript(self, n: ast.Subscript):
        self.generic_visit(n)
        if isinstance(n.value, ast.Tuple) and isinstance(n.slice, ast.Constant) and \
                isinstance(n.slice.value, int) and -len(n.value.elts) <= n.slice.value < len(n.value.elts):
            return n.value.elts[n.slice.value]
        return n


def keyset_of(index, e: ast.AST, collected: bool = False):
    """(source of the parameters, 'req' / 'opt' / 'all') for a *collection* of parameter
    names.  A bare generator expression is not a collection: membership tests consume it, so
    it is read only as the argument of list / set / tuple / sorted / frozenset"""
    if isinstance(e, ast.Call) and src(e.func) in ('set', 'list', 'tuple', 'frozenset',
                                                   'sorted') and len(e.args) == 1:
        return keyset_of(index, e.args[0], True)
    if isinstance(e, ast.BinOp) and isinstance(e.op, (ast.Add, ast.BitOr)):
        a_, b_ = keyset_of(index, e.left), keyset_of(index, e.right)
        if a_ and b_ and a_[0] == b_[0] and {a_[1], b_[1]} == {'req', 'opt'}:
            return (a_[0], 'all')
        return None
    if isinstance(e, ast.GeneratorExp) and not collected:
        return None
    if isinstance(e, (ast.ListComp, ast.SetComp, ast.GeneratorExp)) and \
            len(e.generators) == 1 and isinstance(e.generators[0].target, ast.Name):
        g_ = e.generators[0]
        v_ = g_.target.id
        if src(e.elt) != f'{v_}.name':
            return None
        it_ = g_.iter
        pre = 'all'
        rq = _required_keyword(index)
        if rq and isinstance(it_, ast.Call) and isinstance(it_.func, ast.Attribute) \
                and it_.func.attr == 'get_nonprotocol_parameters':
            kws = {k.arg: k.value for k in it_.keywords}
            if set(kws) - {rq}:
                return None
            if rq in kws:
                if not (isinstance(kws[rq], ast.Constant) and
                        kws[rq].value in (True, False, None)):
                    return None
                pre = {True: 'req', False: 'opt', None: 'all'}[kws[rq].value]
                it_ = ast.Call(it_.func, it_.args, [])
        if not g_.ifs:
            return (src(it_), pre)
        if pre != 'all':
            return None
        if len(g_.ifs) == 1:
            t_ = src(g_.ifs[0])
            if t_ == f'{v_}.default is inspect.Parameter.empty':
                return (src(g_.iter), 'req')
            if t_ == f'{v_}.default is not inspect.Parameter.empty':
                return (src(g_.iter), 'opt')
    return None


def factory_denotation(f: Func, slots: Dict[str, str], index=None) -> Dict[str, Any]:
    """what a `factory(name, **kwargs)` does, independent of how it names intermediate values:
    the order of the pipeline calls, the arguments of the required-key check and the returned
    partial application, locals expanded, comprehension variables and role slots normalised"""
    w = walk_function(f.node)
    if index is not None:
        # normal form: helpers the pinned tree did not have (`_nonprotocol_keys(function)`,
        # `partition_parameter_names(..)`) read through, one-pass partition loops as the two
        # comprehensions they build
        from ..view import view
        w = view(index, f)[1]

    def rebound(e: ast.AST) -> ast.AST:
        """parameters re-assigned once before use (`kwargs = select_kwargs(kwargs, ..)`)"""
        mp = {}
        for p_ in w.params:
            ds = [d for d in w.defs.get(p_, []) if d[0] == 'value']
            if len(ds) == 1 and len(w.defs.get(p_, [])) == 1 and not ds[0][4]:
                mp[p_] = w.expand(ds[0][1])
        if not mp:
            return e

        class S(ast.NodeTransformer):
            def visit_Name(self, n):
                if isinstance(n.ctx, ast.Load) and n.id in mp:
                    return copy.deepcopy(mp[n.id])
                return n
        return S().visit(copy.deepcopy(e))

    def canon(e: ast.AST) -> str:
        e = copy.deepcopy(e)
        if index is not None:
            # methods the registry gained later (`get_nonprotocol_keys`) are read through
            from ..inline import inline_methods_by_name
            from ..view import VOCABULARY
            e = _TupleSub().visit(inline_methods_by_name(index, e, exclude=VOCABULARY,
                                                         new_only=True))
            ast.fix_missing_locations(e)
        k = [0]
        for n in ast.walk(e):
            if isinstance(n, (ast.ListComp, ast.SetComp, ast.GeneratorExp, ast.DictComp)):
                ren = {}
                for g in n.generators:
                    for t in ast.walk(g.target):
                        if isinstance(t, ast.Name):
                            ren[t.id] = f'_v{k[0]}'
                            k[0] += 1
                for m in ast.walk(n):
                    if isinstance(m, ast.Name) and m.id in ren:
                        m.id = ren[m.id]
        for n in ast.walk(e):
            if isinstance(n, ast.Name):
                n.id = slots.get(n.id, n.id)
            if isinstance(n, ast.Attribute) and isinstance(n.value, ast.Name) and \
                    n.value.id == 'functools':
                n.value.id = '__functools__'
        return src(e).replace('__functools__.', '')
    order = []
    check = None
    for e in w.events:
        if e.kind == 'call':
            fs = src(e.node.func)
            if fs == 'functools.partial':
                fs = 'partial'
            if fs in ('import_if_custom', 'checkraise_kwargs', 'select_kwargs', 'partial',
                      'inspect.signature'):
                # inspect.signature is pure: reading it again changes nothing
                if not (fs == 'inspect.signature' and order and order[-1] == fs):
                    order.append(fs)
            if fs == 'checkraise_kwargs':
                check = canon(w.expand(e.node))
        if e.kind == 'load' and src(e.node.value).endswith('_function_registry'):
            order.append('lookup')
    rets = [e for e in w.events if e.kind == 'return' and e.value is not None]
    ret = [canon(w.expand(rebound(r.value))) for r in rets]
    raises = [(sorted(t for t in e.in_try) if hasattr(e, 'in_try') else [],
               src(e.value).split('(')[0] if e.value is not None else '')
              for e in w.events if e.kind == 'raise']
    lookups = [canon(w.expand(e.node)) for e in w.events if e.kind == 'load'
               and src(e.node.value).endswith('_function_registry')]
    # the keyword mapping is only re-bound (filtered by key): an item store / in-place update
    # changes a configured value between the request and the partial application
    from ..guards import MUTATORS
    edits = []
    kw = f.node.args.kwarg.arg if f.node.args.kwarg is not None else 'kwargs'
    for e in w.events:
        t = None
        if e.kind in ('store', 'augstore', 'delete'):
            t = e.target
        elif e.kind == 'call' and isinstance(e.node.func, ast.Attribute) and \
                e.node.func.attr in MUTATORS | {'__setitem__', '__delitem__'}:
            t = e.node.func
        while isinstance(t, (ast.Subscript, ast.Attribute)):
            t = t.value
        if isinstance(t, ast.Name) and t.id == kw:
            edits.append(canon(e.stmt if e.stmt is not None else e.node)[:160])
    def canon_keys(text):
        # the key collections as what they denote (which parameters: required / optional /
        # all), so that `req + opt` and `[p.name for p in params]` compare equal -- the
        # selection is by membership, the order of the collection does not matter
        if index is None or not text:
            return text
        try:
            te = ast.parse(text, mode='eval').body
        except SyntaxError:
            return text

        class K(ast.NodeTransformer):
            def visit_Call(self, c):
                self.generic_visit(c)
                if isinstance(c.func, ast.Name) and c.func.id in ('select_kwargs',
                                                                  'checkraise_kwargs') \
                        and len(c.args) == 2 and not c.keywords:
                    ks = keyset_of(index, c.args[1])
                    if ks is not None:
                        c.args[1] = ast.Constant(f'<{ks[1]} names of {ks[0]}>')
                return c
        return src(ast.fix_missing_locations(K().visit(te)))
    return {'order': order, 'check': canon_keys(check), 'ret': [canon_keys(r) for r in ret],
            'raises': raises, 'lookups': lookups, 'edits': edits,
            'check_raw': check, 'ret_raw': ret}


def _str_eval(e: ast.AST, env: Dict[str, str], mod) -> str:
    """value of a string expression over known names (constants of the module, loop
    variables): literals, names, f-strings without format specs, +, TABLE[key]"""
    if isinstance(e, ast.Constant) and isinstance(e.value, str):
        return e.value
    if isinstance(e, ast.Name):
        if e.id in env:
            return env[e.id]
        vals = mod.assigns.get(e.id)
        if vals and len(vals) == 1:
            return _str_eval(vals[0], env, mod)
    if isinstance(e, ast.JoinedStr):
        out = ''
        for v in e.values:
            if isinstance(v, ast.FormattedValue):
                if v.format_spec is not None or v.conversion not in (-1, 115):
                    raise AnalysisError(f'string outside the grammar: `{src(e)}`')
                out += _str_eval(v.value, env, mod)
            else:
                out += _str_eval(v, env, mod)
        return out
    if isinstance(e, ast.BinOp) and isinstance(e.op, ast.Add):
        return _str_eval(e.left, env, mod) + _str_eval(e.right, env, mod)
    if isinstance(e, ast.Subscript) and src(e.value) == 'STRING_TO_YAML_FILE':
        k = _str_eval(e.slice, env, mod)
        if ('table', k) in env:
            return env[('table', k)]
    if isinstance(e, ast.Call) and src(e.func) in ('os.path.join', 'posixpath.join'):
        return '/'.join(_str_eval(a, env, mod) for a in e.args)
    raise AnalysisError(f'string outside the grammar: `{src(e)[:60]}`')


def registration_loop(gm, ids: Dict[str, str]):
    """denotation of the module-level registration: for every (id, file) of the table the
    loop registers `id` with a factory bound to the packaged resource registered_envs/file"""
    from ..guards import walk_function
    body = [st for st in gm.tree.body
            if not isinstance(st, (ast.FunctionDef, ast.ClassDef, ast.Import, ast.ImportFrom))]
    fn = ast.FunctionDef('__module__', ast.arguments([], [], None, [], [], None, []), body, [],
                         None, lineno=1, col_offset=0)
    w = walk_function(fn)
    regs = [e for e in w.events if e.kind == 'call' and src(e.node.func) in ('gym.register',
                                                                             'register')]
    if len(regs) != 1 or not regs[0].loops:
        return False, f'{len(regs)} gym.register call(s) in a loop'
    e = regs[0]
    tgt, it = e.loops[-1]
    T = 'STRING_TO_YAML_FILE'
    its = src(w.expand(it, stop=[T]))
    kw = {k.arg: k.value for k in e.node.keywords}
    id_e = e.node.args[0] if e.node.args else kw.get('id')
    fac = kw.get('kwargs')
    if id_e is None or fac is None:
        return False, 'register(id, kwargs=...) not found'
    ep = e.node.args[1] if len(e.node.args) > 1 else kw.get('entry_point')
    try:
        eps = _str_eval(w.expand(ep), {}, gm) if ep is not None else None
    except AnalysisError:
        eps = None
    if eps != 'gym_gridverse.gym:from_factory':
        return False, f'entry point is `{eps}`'
    pair = isinstance(tgt, ast.Tuple) and len(tgt.elts) == 2 and \
        its in (f'{T}.items()', f'list({T}.items())', f'sorted({T}.items())')
    single = isinstance(tgt, ast.Name) and its in (
        T, f'{T}.keys()', f'list({T})', f'list({T}.keys())', f'sorted({T})', f'tuple({T})')
    if not (pair or single):
        return False, f'the loop iterates over `{its}`, not over the table'
    loopvars = [x.id for x in (tgt.elts if pair else [tgt]) if isinstance(x, ast.Name)]
    loopvars_stop = loopvars + [T]
    fac_e = w.expand(fac, stop=loopvars_stop)
    res = [n for n in ast.walk(fac_e) if isinstance(n, ast.Call)
           and src(n.func).endswith('resource_filename')]
    if len(res) != 1 or len(res[0].args) != 2:
        return False, 'the factory is not bound to one packaged resource file'
    if not (isinstance(fac_e, ast.Dict) and [src(k) for k in fac_e.keys] == ["'factory'"] and
            isinstance(fac_e.values[0], ast.Call) and
            src(fac_e.values[0].func) in ('partial', 'functools.partial') and
            len(fac_e.values[0].args) == 2 and
            src(fac_e.values[0].args[0]) == 'outer_env_factory' and
            fac_e.values[0].args[1] is res[0]):
        return False, f'kwargs is `{src(fac_e)[:100]}`, not {{factory: partial(outer_env_factory, <resource>)}}'
    for gid, fname in sorted(ids.items()):
        env: Dict = {('table', k): v for k, v in ids.items()}
        env[loopvars[0]] = gid
        if pair:
            env[loopvars[1]] = fname
        try:
            pkg = _str_eval(res[0].args[0], env, gm)
            path = _str_eval(w.expand(res[0].args[1], stop=loopvars_stop), env, gm)
            rid = _str_eval(w.expand(id_e, stop=loopvars_stop), env, gm)
        except AnalysisError as ex:
            return False, str(ex)
        if pkg != 'gym_gridverse' or path != f'registered_envs/{fname}' or rid != gid:
            return False, f'id {gid} registers `{rid}` with resource {pkg}:{path}'
    return True, ''


def validates_first(index: RepoIndex, f: Func, dp: str) -> Tuple[bool, str]:
    """the raw input `dp` is consumed only by `schemas[<key>].validate(dp)`, unconditionally:
    up to (and including) the statement that rebinds `dp` -- or everywhere when it is never
    rebound -- every read of `dp` is the argument of such a call at the top level of the
    function (module-local helpers inlined), and there is one"""
    from ..view import view
    node, _w, _inl = view(index, f)
    top = list(node.body)
    raw = {dp}            # names that denote the caller's raw input (aliases included)
    n_valid = 0
    for st in top:
        if not raw:
            break
        # `alias = <raw>`: binding the input to a helper's parameter reads nothing from it
        if isinstance(st, ast.Assign) and len(st.targets) == 1 and \
                isinstance(st.targets[0], ast.Name) and isinstance(st.value, ast.Name) and \
                st.value.id in raw:
            raw.add(st.targets[0].id)
            continue
        valid_args = set()
        validated_here = None
        for n in ast.walk(st):
            if isinstance(n, ast.Call) and re.fullmatch(r"schemas\[('\w+'|\w+)\]\.validate",
                                                       src(n.func)) and \
                    len(n.args) == 1 and not n.keywords and isinstance(n.args[0], ast.Name) \
                    and n.args[0].id in raw:
                valid_args.add(id(n.args[0]))
                if isinstance(st, (ast.Assign, ast.AnnAssign, ast.Expr, ast.Return)) and \
                        (st.value is n):
                    n_valid += 1
                    validated_here = n.args[0].id
        shadowed = set()          # reads of a lambda / comprehension variable of the same name
        for lam in ast.walk(st):
            if isinstance(lam, ast.Lambda):
                ps_ = {a.arg for a in lam.args.args + lam.args.kwonlyargs}
                shadowed |= {id(x) for x in ast.walk(lam.body) if isinstance(x, ast.Name)
                             and x.id in ps_}
            elif isinstance(lam, (ast.ListComp, ast.SetComp, ast.GeneratorExp, ast.DictComp)):
                ts_ = {x.id for g in lam.generators for x in ast.walk(g.target)
                       if isinstance(x, ast.Name)}
                shadowed |= {id(x) for x in ast.walk(lam) if isinstance(x, ast.Name)
                             and x.id in ts_}
        for n in ast.walk(st):
            if isinstance(n, ast.Name) and n.id in raw and isinstance(n.ctx, ast.Load) and \
                    id(n) not in valid_args and id(n) not in shadowed:
                return False, src(st)[:80]
        stores = {n.id for n in ast.walk(st) if isinstance(n, ast.Name) and n.id in raw
                  and isinstance(n.ctx, ast.Store)}
        if stores:
            if not (isinstance(st, ast.Assign) and len(st.targets) == 1
                    and isinstance(st.targets[0], ast.Name)):
                return False, src(st)[:80]
            raw -= stores
        if validated_here is not None and isinstance(st, ast.Return):
            raw.clear()
    if n_valid < 1:
        return False, 'no unconditional schemas[..].validate(input)'
    return True, 'validate first'


def memo_key_of_decorator(index: RepoIndex, f: Func, d: ast.AST):
    """(complete, key text, what is ignored) for a memoising decorator written in the
    repository -- a function that returns a nested wrapper which looks its arguments up in a
    dictionary of the enclosing scope and otherwise stores the wrapped function's result
    there.  `complete` means the key determines the call: every positional parameter by
    value, `*args` as a whole, `**kwargs` through its items (names and values).  None when the
    decorator is not of that shape."""
    if not isinstance(d, ast.Name):
        return None
    r = index.resolve_name(f.module, d.id)
    if not isinstance(r, Func) or len(r.node.args.args) != 1:
        return None
    wrapped = r.node.args.args[0].arg
    inner = [n for n in r.node.body if isinstance(n, ast.FunctionDef)]
    rets = [n for n in r.node.body if isinstance(n, ast.Return)]
    if len(inner) != 1 or len(rets) != 1 or not isinstance(rets[0].value, ast.Name) or \
            rets[0].value.id != inner[0].name:
        return None
    wr = inner[0]
    tables = {t.id for s_ in r.node.body if isinstance(s_, (ast.Assign, ast.AnnAssign))
              for t in ([s_.target] if isinstance(s_, ast.AnnAssign) else s_.targets)
              if isinstance(t, ast.Name) and s_.value is not None and (
                  (isinstance(s_.value, ast.Dict) and not s_.value.keys) or
                  (isinstance(s_.value, ast.Call) and src(s_.value.func) == 'dict'
                   and not s_.value.args))}
    subs = [n for n in ast.walk(wr) if isinstance(n, ast.Subscript)
            and isinstance(n.value, ast.Name) and n.value.id in tables]
    calls = [n for n in ast.walk(wr) if isinstance(n, ast.Call)
             and isinstance(n.func, ast.Name) and n.func.id == wrapped]
    if not subs or len(calls) != 1:
        return None
    w = walk_function(wr)
    keys = {src(w.expand(n.slice)) for n in subs}
    if len(keys) != 1:
        return None
    K = w.expand(subs[0].slice)
    ignored = []
    names = [n for n in ast.walk(K) if isinstance(n, ast.Name)]
    for a in wr.args.posonlyargs + wr.args.args + wr.args.kwonlyargs:
        if not any(n.id == a.arg for n in names):
            ignored.append(a.arg)
    if wr.args.vararg and not any(n.id == wr.args.vararg.arg for n in names):
        ignored.append('*' + wr.args.vararg.arg)
    if wr.args.kwarg:
        kw = wr.args.kwarg.arg
        by_items = {id(n.func.value) for n in ast.walk(K) if isinstance(n, ast.Call)
                    and isinstance(n.func, ast.Attribute) and n.func.attr == 'items'
                    and isinstance(n.func.value, ast.Name) and n.func.value.id == kw}
        occ = [n for n in names if n.id == kw]
        if not occ:
            ignored.append('**' + kw)
        elif any(id(n) not in by_items for n in occ):
            ignored.append(f'the values of **{kw} (only its names are in the key)')
    return (not ignored, src(K), ignored)


def reserved_converters(index: RepoIndex) -> Dict[str, ast.AST]:
    """key -> expression over `V` (the configured value) that process_reserved_keys stores
    under that key: from the chain `if 'k' in data: data['k'] = E(data['k'])`, or from a
    module-level table of one-parameter lambdas applied by a loop `data[key] =
    conv(data[key])`"""
    f = index.func(FACTORY, 'process_reserved_keys')
    dp = f.node.args.args[0].arg
    out: Dict[str, ast.AST] = {}
    V = ast.Name('V', ast.Load())

    class Sub(ast.NodeTransformer):
        def __init__(self, text):
            self.text = text

        def visit(self, n):
            if isinstance(n, ast.expr) and src(n) == self.text:
                return copy.deepcopy(V)
            return super().visit(n)
    w = walk_function(f.node)
    for e in w.events:
        if e.kind == 'store' and isinstance(e.target, ast.Subscript) and \
                src(e.target.value) == dp and isinstance(e.target.slice, ast.Constant) and \
                isinstance(e.target.slice.value, str) and not e.loops:
            k = e.target.slice.value
            val = inline_new(index, f, w.expand(e.value))
            out[k] = Sub(f"{dp}['{k}']").visit(copy.deepcopy(val))
    # table form
    for e in w.events:
        if e.kind == 'store' and isinstance(e.target, ast.Subscript) and \
                src(e.target.value) == dp and len(e.loops) == 1 and \
                isinstance(e.loops[0][0], ast.Tuple) and len(e.loops[0][0].elts) == 2 and \
                isinstance(e.loops[0][1], ast.Call) and \
                isinstance(e.loops[0][1].func, ast.Attribute) and \
                e.loops[0][1].func.attr == 'items' and \
                isinstance(e.loops[0][1].func.value, ast.Name):
            kv, cv = (src(t) for t in e.loops[0][0].elts)
            if src(e.target.slice) != kv or src(e.value) != f'{cv}({dp}[{kv}])':
                continue
            tb = f.module.assigns.get(e.loops[0][1].func.value.id, [])
            if len(tb) != 1 or not isinstance(tb[0], ast.Dict):
                continue
            for kk, vv in zip(tb[0].keys, tb[0].values):
                if not (isinstance(kk, ast.Constant) and isinstance(kk.value, str)):
                    continue
                ce = _converter_expr(index, f, vv, V)
                if ce is not None:
                    out[kk.value] = ce
    # table form with a sequence of (key, converter) pairs: `for key, conv in TABLE:`
    for e in w.events:
        if e.kind == 'store' and isinstance(e.target, ast.Subscript) and \
                src(e.target.value) == dp and len(e.loops) == 1 and \
                isinstance(e.loops[0][0], ast.Tuple) and len(e.loops[0][0].elts) == 2 and \
                (isinstance(e.loops[0][1], ast.Name) or (
                    isinstance(e.loops[0][1], ast.Call) and
                    isinstance(e.loops[0][1].func, ast.Name) and not e.loops[0][1].args
                    and not e.loops[0][1].keywords)):
            kv, cv = (src(t) for t in e.loops[0][0].elts)
            if src(e.target.slice) != kv or src(e.value) != f'{cv}({dp}[{kv}])':
                continue
            it_ = e.loops[0][1]
            if isinstance(it_, ast.Name):
                tb = f.module.assigns.get(it_.id, [])
            else:
                # a table built when needed: `def _converters(): return ((key, conv), ..)`
                from ..inline import pure_body_expr
                hf = f.module.functions.get(it_.func.id)
                be = pure_body_expr(hf.node) if hf is not None else None
                tb = [be] if be is not None else []
            if len(tb) != 1 or not isinstance(tb[0], (ast.Tuple, ast.List)):
                continue
            for pair in tb[0].elts:
                if isinstance(pair, ast.Tuple) and len(pair.elts) == 2 and \
                        isinstance(pair.elts[0], ast.Constant) and \
                        isinstance(pair.elts[0].value, str):
                    ce = _converter_expr(index, f, pair.elts[1], V)
                    if ce is not None:
                        out[pair.elts[0].value] = ce
    return out


def _converter_expr(index: RepoIndex, f: Func, conv: ast.AST, V: ast.AST) -> Optional[ast.AST]:
    """the expression `conv(V)` denotes: a one-parameter lambda applied, a function name
    called, or a module-level helper that returns a nested one-expression function (a
    closure over its argument: `_factory_list(factory)` -> `[factory(d) for d in data]`), with
    lambdas applied to their arguments (beta-reduced)"""
    from ..inline import _SubstNames, pure_body_expr

    def beta(e: ast.AST) -> ast.AST:
        class B(ast.NodeTransformer):
            def visit_Call(self, n: ast.Call):
                self.generic_visit(n)
                if isinstance(n.func, ast.Lambda) and not n.keywords and \
                        len(n.func.args.args) == len(n.args):
                    mp = dict(zip([a.arg for a in n.func.args.args], n.args))
                    return _SubstNames(mp).visit(copy.deepcopy(n.func.body))
                return n
        return B().visit(copy.deepcopy(e))
    if isinstance(conv, ast.Lambda) and len(conv.args.args) == 1:
        body = inline_new(index, f, conv.body)
        return _SubstNames({conv.args.args[0].arg: V}).visit(copy.deepcopy(body))
    if isinstance(conv, (ast.Name, ast.Attribute)):
        return ast.Call(conv, [copy.deepcopy(V)], [])
    if isinstance(conv, ast.Call) and isinstance(conv.func, ast.Name) and not conv.keywords:
        h = f.module.functions.get(conv.func.id)
        if h is None:
            return None
        body = [s_ for s_ in h.node.body if not (isinstance(s_, ast.Expr)
                                                 and isinstance(s_.value, ast.Constant))]
        ps = [a.arg for a in h.node.args.args]
        if len(body) == 2 and isinstance(body[0], ast.FunctionDef) and \
                isinstance(body[1], ast.Return) and src(body[1].value) == body[0].name and \
                len(ps) == len(conv.args) and len(body[0].args.args) == 1:
            inner = pure_body_expr(body[0])
            if inner is None:
                return None
            mp = dict(zip(ps, conv.args))
            mp[body[0].args.args[0].arg] = V
            return beta(_SubstNames(mp).visit(copy.deepcopy(inner)))
    return None


def inline_new(index: RepoIndex, f: Func, e: ast.AST) -> ast.AST:
    """helpers the pinned tree did not have, read through (pinned names are vocabulary)"""
    from ..inline import inline_methods_by_name, inline_pure_exprs
    from ..pinned_names import FUNCTIONS as _PF, METHODS as _PM
    e = inline_pure_exprs(index, f.module, f.cls, e, keep=tuple(_PF | _PM))
    return inline_methods_by_name(index, e, new_only=True)


def composite_parts(index: RepoIndex, rep, rule: str) -> None:
    """the lists of a composite (`transition_functions`, `reward_functions`,
    `terminating_functions`) become one component per configured entry, in order, in a list
    that can be iterated at every step: `[factory_X(d) for d in V]` / `list(map(factory_X,
    V))`.  A bare `map(..)` / generator is consumed by the first step; anything that goes
    through a mapping or a set keyed on the entries merges entries that look alike."""
    conv = reserved_converters(index)
    for key, fac in (('transition_functions', 'factory_transition_function'),
                     ('reward_functions', 'factory_reward_function'),
                     ('terminating_functions', 'factory_terminating_function')):
        e = conv.get(key)
        line = index.func(FACTORY, 'process_reserved_keys').node.lineno
        if e is None:
            # another way of spelling the conversion table: no verdict from this rule (the
            # shipped configurations are still checked entry by entry, C17.R3)
            rep.undecided(rule, f'{FACTORY}:process_reserved_keys:{key}',
                          'converter of this key not found in a spelling the rule reads')
            continue
        x = e
        listed = False
        while isinstance(x, ast.Call) and src(x.func) in ('list', 'tuple') and len(x.args) == 1:
            x, listed = x.args[0], True
        lazy = None
        if isinstance(x, ast.GeneratorExp) and not listed:
            lazy = 'a generator expression'
        if isinstance(x, ast.Call) and src(x.func) in ('map', 'filter', 'zip', 'iter',
                                                       'reversed') and not listed:
            lazy = f'`{src(x.func)}(..)`'
        if lazy:
            rep.violation(rule, FACTORY, 'process_reserved_keys', line, src(e)[:120],
                          f'`{key}` is stored as {lazy}, a one-shot iterator: the composite '
                          f'iterates its parts at every step, so after the first step it has no '
                          f'parts left (a termination that never fires again, a reward of 0)')
            continue
        # the entries the parts are built from
        if isinstance(x, ast.Call) and src(x.func) == 'map' and len(x.args) == 2:
            fn_, it_, elt_ok = src(x.args[0]), x.args[1], True
        elif isinstance(x, (ast.ListComp, ast.GeneratorExp)) and len(x.generators) == 1 and \
                not x.generators[0].ifs and isinstance(x.elt, ast.Call) and \
                len(x.elt.args) == 1 and not x.elt.keywords:
            fn_, it_ = src(x.elt.func), x.generators[0].iter
            elt_ok = src(x.elt.args[0]) == src(x.generators[0].target)
        else:
            fn_, it_, elt_ok = None, None, False
        where = x
        if isinstance(x, (ast.ListComp, ast.GeneratorExp)) and x.generators:
            where = ast.Tuple([g.iter for g in x.generators], ast.Load())
        elif isinstance(x, ast.Call) and src(x.func) == 'map' and len(x.args) >= 2:
            where = x.args[1]
        keyed = [n for n in ast.walk(where) if
                 isinstance(n, (ast.DictComp, ast.Dict, ast.SetComp, ast.Set)) or
                 (isinstance(n, ast.Call) and src(n.func).split('.')[-1] in (
                     'dict', 'set', 'frozenset', 'unique_everseen', 'unique_justseen',
                     'OrderedDict', 'fromkeys'))]
        if keyed:
            rep.violation(rule, FACTORY, 'process_reserved_keys', line, src(e)[:120],
                          f'the parts of `{key}` pass through `{src(keyed[0])[:60]}`: entries with '
                          f'the same key are merged, so a composite configured with the same '
                          f'component twice (different parameters) loses one of its parts')
            continue
        filt = None
        if isinstance(x, (ast.ListComp, ast.GeneratorExp)) and \
                any(g.ifs for g in x.generators):
            filt = next(c for g in x.generators for c in g.ifs)
        elif isinstance(x, ast.Call) and src(x.func) == 'map' and len(x.args) == 2 and \
                isinstance(x.args[1], ast.Call) and src(x.args[1].func) in (
                    'filter', 'itertools.filterfalse', 'filterfalse', 'itt.filterfalse'):
            filt = x.args[1].args[0] if x.args[1].args else x.args[1]
        if filt is not None:
            rep.violation(rule, FACTORY, 'process_reserved_keys', line, src(e)[:160],
                          f'the configured entries of `{key}` are filtered by '
                          f'`{src(filt)[:80]}` before the parts are built: an entry the filter '
                          f'drops is a configured part the composite no longer has (a reward '
                          f'that is not the sum of its parts, a termination that never fires)')
            continue
        if fn_ is None:
            rep.undecided(rule, f'{FACTORY}:process_reserved_keys:{key}',
                          f'converter `{src(e)[:80]}` outside the grammar')
            continue
        rep.check(fn_ == fac and elt_ok and src(it_) == 'V', rule, FACTORY,
                  'process_reserved_keys', line, src(e)[:120],
                  f'`{key}` is not one `{fac}(entry)` per configured entry, in order',
                  f'{key}: one part per entry')


def validation_before_imports(index: RepoIndex, rep, rule: str) -> None:
    """a configuration naming `module:Name` components is validated before the factories
    import that module (every factory_* calls validate first, C17.R5; import_if_custom is
    called by the factories).  A schema predicate that consults a registry therefore sees the
    registry without the custom entries and rejects a valid file -- unless the same predicate
    imports the module first.  Decided on the callables of the schema module."""
    rel = 'gym_gridverse/envs/yaml/schemas.py'
    mod = index.module(rel)
    scopes = [n for n in ast.walk(mod.tree) if isinstance(n, (ast.FunctionDef, ast.Lambda))]
    n_ok = 0
    for sc in scopes:
        reads = [n for n in ast.walk(sc) if isinstance(n, ast.Name) and
                 isinstance(n.ctx, ast.Load) and n.id.endswith('_registry')]
        reads += [n for n in ast.walk(sc) if isinstance(n, ast.Attribute) and
                  n.attr.endswith('_registry')]
        if not reads:
            n_ok += 1
            rep.holds(rule, f'{rel}:{getattr(sc, "name", "<lambda>")}:{sc.lineno}',
                      'reads no registry')
            continue
        imports = [n for n in ast.walk(sc) if isinstance(n, ast.Call)
                   and src(n.func).split('.')[-1] == 'import_if_custom']
        first_read = min(n.lineno for n in reads)
        name = getattr(sc, 'name', '<lambda>')
        rep.check(bool(imports) and min(n.lineno for n in imports) <= first_read, rule, rel,
                  name, sc.lineno, src(reads[0]),
                  f'schema predicate `{name}` consults `{src(reads[0])}` while the '
                  f'configuration is being validated: custom `module:Name` entries are '
                  f'registered only when the factories import the module afterwards, so a valid '
                  f'file naming one is rejected', f'schema predicate {name}')
    # module-level expressions (the tables themselves) evaluated at import time
    top = [n for st in mod.tree.body if not isinstance(st, (ast.FunctionDef, ast.ClassDef))
           for n in ast.walk(st) if isinstance(n, ast.Name) and n.id.endswith('_registry')
           and not any(n in ast.walk(sc) for sc in scopes)]
    rep.check(not top, rule, rel, '<module>', top[0].lineno if top else 1,
              src(top[0]) if top else 'schemas', 'a schema table is built from a registry at '
              'import time: types registered later (custom modules) are not part of it',
              'schema tables are registry-independent')
    # a schema validates, it does not repair: a converting validator (`Use(int)`) turns a
    # malformed entry (a shape of 8.5) into a different, valid one instead of rejecting it
    uses = [n for n in ast.walk(mod.tree) if isinstance(n, ast.Call)
            and src(n.func).split('.')[-1] == 'Use']
    for n in uses:
        rep.violation(rule, rel, '<module>', n.lineno, src(n)[:80],
                      f'the schema converts with `{src(n)[:60]}`: a malformed value is silently '
                      f'turned into another one (a non-integral shape is truncated) and a '
                      f'different environment is built instead of the file being rejected')
    rep.holds(rule, f'{rel}:<module>:Use', f'{len(uses)} converting validators')
    # ... and what `validate` hands back is a rebuilt copy: the factories pop `name` and
    # convert reserved keys in it (C17.R5).  `Const(<container schema>)` validates and returns
    # the caller's own object
    consts = [n for n in ast.walk(mod.tree) if isinstance(n, ast.Call)
              and src(n.func).split('.')[-1] == 'Const' and n.args
              and any(isinstance(x, (ast.Dict, ast.List, ast.Set, ast.Tuple))
                      for x in ast.walk(n.args[0]))]
    for n in consts:
        rep.violation(rule, rel, '<module>', n.lineno, src(n)[:80],
                      f'`{src(n)[:60]}` validates a mapping / sequence and returns the caller\'s '
                      f'own object instead of a rebuilt copy: the factories then pop `name` and '
                      f'convert reserved keys in the user\'s configuration data, and a second '
                      f'build from the same data fails')
    rep.holds(rule, f'{rel}:<module>:Const', f'{len(consts)} pass-through container schemas')
    # the lists of object types, actions and colours are rejected when an element repeats:
    # their schema reaches the uniqueness predicate (`len(set(d)) == len(d)`), directly or
    # through a helper called with arguments under which it adds that predicate
    from ..guards import strip_iter, truth_under

    def is_unique_pred(n) -> bool:
        body = None
        if isinstance(n, ast.Lambda):
            body = n.body
        elif isinstance(n, ast.FunctionDef):
            st_ = [x for x in n.body if not (isinstance(x, ast.Expr)
                                             and isinstance(x.value, ast.Constant))]
            if len(st_) == 1 and isinstance(st_[0], ast.Return):
                body = st_[0].value
        if isinstance(body, ast.Compare) and len(body.ops) == 1 and \
                isinstance(body.ops[0], ast.Eq):
            t = {src(body.left).replace(' ', ''), src(body.comparators[0]).replace(' ', '')}
            a = n.args.args[0].arg if n.args.args else ''
            return t in ({f'len(set({a}))', f'len({a})'}, {f'len(frozenset({a}))', f'len({a})'})
        return False
    # functions that *are* the predicate (referred to by name) and functions that build a
    # schema around it (called)
    pred_fns = {fn_.name for fn_ in mod.functions.values() if is_unique_pred(fn_.node)}
    uniq_fns = {fn_.name for fn_ in mod.functions.values()
                if fn_.name not in pred_fns and any(
                    is_unique_pred(n) or (isinstance(n, ast.Name) and n.id in pred_fns)
                    for n in ast.walk(fn_.node))}

    def other_spelling(e: ast.AST) -> bool:
        """a predicate about repeated elements in a spelling the rule does not read (sets,
        counts, sorting inside a lambda or a named predicate): never a refutation"""
        for n in ast.walk(e):
            bodies = []
            if isinstance(n, ast.Lambda) and not is_unique_pred(n):
                bodies.append(n)
            if isinstance(n, ast.Name) and n.id in mod.functions and n.id not in pred_fns \
                    and n.id not in uniq_fns:
                bodies.append(mod.functions[n.id].node)
            for b_ in bodies:
                if any(isinstance(x, ast.Name) and x.id in ('set', 'frozenset', 'Counter',
                                                           'sorted', 'groupby')
                       or isinstance(x, ast.Attribute) and x.attr in ('count', 'unique')
                       for x in ast.walk(b_)):
                    return True
        return False

    def reaches_unique(e: ast.AST, depth: int = 3):
        """True / False / None (undecided)"""
        for n in ast.walk(e):
            if is_unique_pred(n) or (isinstance(n, ast.Call) and isinstance(n.func, ast.Name)
                                     and n.func.id in uniq_fns) or \
                    (isinstance(n, ast.Name) and n.id in pred_fns):
                return True
        verdict = None if other_spelling(e) else False
        for n in ast.walk(e):
            if isinstance(n, ast.Call) and isinstance(n.func, ast.Name) and \
                    n.func.id in mod.functions and n.func.id not in uniq_fns and depth > 0:
                h = mod.functions[n.func.id]
                names = [a.arg for a in h.node.args.args + h.node.args.kwonlyargs]
                bound = dict(zip([a.arg for a in h.node.args.args], n.args))
                bound.update({k.arg: k.value for k in n.keywords if k.arg})
                for p_, d_ in h.param_defaults().items():
                    bound.setdefault(p_, d_)
                hw = walk_function(h.node)

                def at(a_):
                    if isinstance(a_, ast.Name) and a_.id in bound and \
                            isinstance(bound[a_.id], ast.Constant):
                        return bool(bound[a_.id].value)
                    return None
                if other_spelling(h.node):
                    verdict = None
                for ev_ in hw.events:
                    if ev_.kind == 'call' and (
                            (isinstance(ev_.node.func, ast.Name) and ev_.node.func.id in uniq_fns)
                            or any(is_unique_pred(x) or (isinstance(x, ast.Name)
                                                         and x.id in pred_fns)
                                   for x in ast.walk(ev_.node))):
                        t_ = truth_under(strip_iter(ev_.guard), at)
                        if t_ is True:
                            return True
                        if t_ is None:
                            verdict = None
                _ = names
        return verdict
    tables = [n for n in ast.walk(mod.tree) if isinstance(n, ast.Dict) and any(
        isinstance(k, ast.Constant) and k.value == 'colors' for k in n.keys)]
    seen_keys = set()
    for tb in tables:
        for k, v in zip(tb.keys, tb.values):
            if isinstance(k, ast.Constant) and k.value in ('object_types', 'actions', 'colors') \
                    and not isinstance(v, ast.Subscript):
                seen_keys.add(k.value)
                r_ = reaches_unique(v)
                if r_ is None:
                    rep.undecided(rule, f'{rel}:<module>:{k.value}',
                                  'uniqueness of the list not decided')
                else:
                    rep.check(r_, rule, rel, '<module>', v.lineno, f'{k.value}: {src(v)[:80]}',
                              f'the `{k.value}` schema does not require its elements to be '
                              f'different: a list that names the same element twice is accepted '
                              f'(and silently collapsed, or numbered twice) instead of being '
                              f'rejected as malformed', f'{k.value} unique')
    if seen_keys != {'object_types', 'actions', 'colors'}:
        raise AnalysisError(f'schemas: list schemas {sorted(seen_keys)} found, expected '
                            f'object_types, actions, colors')
    # the premise: validation comes first in the entry point
    fe = index.func('gym_gridverse/envs/yaml/factory.py', 'factory_env_from_data')
    w = walk_function(fe.node)
    calls = [e for e in w.events if e.kind == 'call']
    if not calls or not src(calls[0].node.func).endswith('.validate'):
        raise AnalysisError('factory_env_from_data does not validate first: the premise of the '
                            'schema-predicate rule (imports happen after validation) is gone')


def _required_keyword(index: RepoIndex) -> Optional[str]:
    """name of an optional keyword of FunctionRegistry.get_nonprotocol_parameters (added after
    the pinned tree) that restricts the result to the parameters without (True) / with (False)
    a default and leaves it alone for None: `if <kw> is None: return P` followed by `return [p
    for p in P if (p.default is inspect.Parameter.empty) == <kw>]`"""
    hit = getattr(index, '_required_kw', None)
    if hit is not None:
        return hit or None
    found = ''
    try:
        reg = index.cls('gym_gridverse/utils/registry.py', 'FunctionRegistry')
        m = reg.methods.get('get_nonprotocol_parameters')
    except Exception:       # noqa: BLE001
        m = None
    if m is not None:
        d = m.param_defaults()
        cands = [a.arg for a in m.node.args.kwonlyargs + m.node.args.args[2:]
                 if isinstance(d.get(a.arg), ast.Constant) and d[a.arg].value is None]
        body = [s_ for s_ in m.node.body if not (isinstance(s_, ast.Expr)
                                                 and isinstance(s_.value, ast.Constant))]
        for c in cands:
            if len(body) >= 3 and isinstance(body[-2], ast.If) and not body[-2].orelse and \
                    src(body[-2].test) == f'{c} is None' and len(body[-2].body) == 1 and \
                    isinstance(body[-2].body[0], ast.Return) and \
                    isinstance(body[-2].body[0].value, ast.Name) and \
                    isinstance(body[-1], ast.Return) and \
                    isinstance(body[-1].value, ast.ListComp) and \
                    len(body[-1].value.generators) == 1:
                P = body[-2].body[0].value.id
                lc = body[-1].value
                g = lc.generators[0]
                v = src(g.target)
                if src(g.iter) == P and src(lc.elt) == v and len(g.ifs) == 1 and \
                        src(g.ifs[0]).replace(' ', '') in (
                            f'({v}.defaultisinspect.Parameter.empty)=={c}',
                            f'{c}==({v}.defaultisinspect.Parameter.empty)',
                            f'({v}.defaultisinspect.Parameter.empty)is{c}'):
                    found = c
    try:
        index._required_kw = found
    except Exception:       # noqa: BLE001
        pass
    return found or None


def factory_rules(index: RepoIndex, rep, rule: str) -> None:
    """the six `factory(name, **kwargs)` functions are siblings with the documented pipeline
    (also registered as C12.R4: a reward / termination component obtained by name receives
    exactly the parameters it was configured with)"""
    facts = {r: index.func(ROLE_FILE[r], 'factory') for r in N_PROTOCOL}
    # a factory handed out through a memo must be keyed by everything it was configured with
    for r, f in sorted(facts.items()):
        for d in f.node.decorator_list:
            dn = src(d.func if isinstance(d, ast.Call) else d)
            if dn in ('functools.lru_cache', 'lru_cache', 'functools.cache', 'cache'):
                continue        # keyed by all positional and keyword arguments, by value
            mk = memo_key_of_decorator(index, f, d)
            if mk is None:
                raise AnalysisError(f'{ROLE_FILE[r]}: factory is wrapped by `{dn}`, a '
                                    f'decorator outside the grammar of the factory rules')
            rep.check(mk[0], rule, ROLE_FILE[r], 'factory', f.node.lineno, f'@{dn}: key {mk[1]}',
                      f'the {r} factory is memoised on `{mk[1]}`, which leaves out '
                      f'{"; ".join(mk[2])}: a second request with other parameter values is '
                      f'answered with the component built for the first', f'{r} factory memo key')
    norm = {}
    for r, f in facts.items():
        norm[r] = factory_denotation(f, {f'{r}_function_registry': 'REGISTRY'}, index)
    base = norm['reset']
    for r, f in sorted(facts.items()):
        diff = [k for k in base if norm[r][k] != base[k] and not k.endswith('_raw')]
        rep.check(not diff, rule, ROLE_FILE[r], 'factory', f.node.lineno,
                  f'{r} factory', f'the {r} factory differs from its five siblings beyond the '
                  f'registry and the error text (in {diff})', f'{r} factory sibling-equal')
    for r, f in sorted(facts.items()):
        lazy = []
        for t_ in [norm[r]['check_raw'] or ''] + list(norm[r]['ret_raw']):
            try:
                te = ast.parse(t_, mode='eval').body
            except SyntaxError:
                continue
            for c_ in ast.walk(te):
                if isinstance(c_, ast.Call) and isinstance(c_.func, ast.Name) and \
                        c_.func.id in ('select_kwargs', 'checkraise_kwargs') and \
                        len(c_.args) == 2 and (
                            isinstance(c_.args[1], ast.GeneratorExp) or
                            isinstance(c_.args[1], ast.Call) and src(c_.args[1].func) in (
                                'map', 'filter', 'zip', 'iter', 'reversed')):
                    lazy.append(f'{c_.func.id}(.., {src(c_.args[1])[:60]})')
        rep.check(not lazy, rule, ROLE_FILE[r], 'factory', f.node.lineno,
                  '; '.join(lazy)[:200] or 'key collections are containers',
                  f'the {r} factory hands a one-shot iterator to {(lazy or [""])[0][:90]}: every '
                  f'membership test consumes it, so the parameters written after the first one '
                  f'that is not accepted are silently dropped', f'{r} factory: key containers')
    for r, f in sorted(facts.items()):
        rep.check(not norm[r]['edits'], rule, ROLE_FILE[r], 'factory', f.node.lineno,
                  '; '.join(norm[r]['edits'])[:200],
                  f'the {r} factory changes a configured value before binding it '
                  f'(`{(norm[r]["edits"] or [""])[0][:100]}`): the component obtained by name does '
                  f'not receive exactly the parameters it was configured with',
                  f'{r} factory passes values through')
    f = facts['reset']
    w = walk_function(f.node)
    # the order of the pipeline steps, read on the normal form (inspect.signature is pure and
    # may have moved into a registry method: it is not part of the order)
    order = [x for x in base['order'] if x != 'inspect.signature']
    want = ['import_if_custom', 'lookup', 'checkraise_kwargs', 'select_kwargs', 'partial']
    rep.check(order == want, rule, ROLE_FILE['reset'], 'factory', f.node.lineno,
              ' -> '.join(order), f'factory pipeline is {order}, documented {want}',
              'factory pipeline order')
    raises = [e for e in w.events if e.kind == 'raise']
    ok = any('KeyError' in show(e.guard) and e.value is not None
             and src(e.value).startswith('ValueError(') for e in raises)
    rep.check(ok, rule, ROLE_FILE['reset'], 'factory', f.node.lineno,
              '; '.join(src(e.stmt)[:60] for e in raises),
              'an unknown component name is not turned into ValueError', 'KeyError -> ValueError')
    FN = base['lookups'][0] if base['lookups'] else 'function'
    params_e = f'REGISTRY.get_nonprotocol_parameters(inspect.signature({FN}))'
    REQ = f'[_v0.name for _v0 in {params_e} if _v0.default is inspect.Parameter.empty]'
    OPT = f'[_v1.name for _v1 in {params_e} if _v1.default is not inspect.Parameter.empty]'
    ok = base['check_raw'] == f'checkraise_kwargs(kwargs, {REQ})' and \
        base['ret_raw'] == [f'partial({FN}, **select_kwargs(kwargs, {REQ} + {OPT}))']
    if not ok:
        # second reading: the key collections as sets of parameter names -- (source, 'req' /
        # 'opt' / 'all') -- whatever comprehension, set or concatenation spells them
        def keyset(e: ast.AST):
            return keyset_of(index, e)
        try:
            chk = ast.parse(base['check_raw'] or 'None', mode='eval').body
            rt_ = ast.parse(base['ret_raw'][0], mode='eval').body \
                if len(base['ret_raw']) == 1 else None
        except SyntaxError:
            chk = rt_ = None
        ok = isinstance(chk, ast.Call) and src(chk.func) == 'checkraise_kwargs' and \
            len(chk.args) == 2 and src(chk.args[0]) == 'kwargs' and \
            keyset(chk.args[1]) == (params_e, 'req') and \
            isinstance(rt_, ast.Call) and src(rt_.func) == 'partial' and \
            len(rt_.args) == 1 and src(rt_.args[0]) == FN and len(rt_.keywords) == 1 and \
            rt_.keywords[0].arg is None and isinstance(rt_.keywords[0].value, ast.Call) and \
            src(rt_.keywords[0].value.func) == 'select_kwargs' and \
            len(rt_.keywords[0].value.args) == 2 and \
            src(rt_.keywords[0].value.args[0]) == 'kwargs' and \
            keyset(rt_.keywords[0].value.args[1]) == (params_e, 'all')
    if not ok:
        # names the pinned tree did not have and the normal form could not read through (a
        # memoised registry method, a helper with its own control flow): not a verdict
        from ..pinned_names import FUNCTIONS as _PF, METHODS as _PM
        unread = set()
        for t_ in [base['check_raw'] or ''] + list(base['ret_raw']):
            try:
                te = ast.parse(t_, mode='eval').body
            except SyntaxError:
                continue
            for n_ in ast.walk(te):
                if isinstance(n_, ast.Call) and isinstance(n_.func, ast.Attribute) and \
                        src(n_.func.value) == 'REGISTRY' and n_.func.attr not in _PM:
                    unread.add(n_.func.attr)
                if isinstance(n_, ast.Call) and isinstance(n_.func, ast.Name) and \
                        n_.func.id not in _PF and index.resolve_name(f.module, n_.func.id) \
                        is not None and n_.func.id not in ('partial',):
                    unread.add(n_.func.id)
        if unread:
            raise AnalysisError(f'factory: parameter names come from {sorted(unread)}, which '
                                f'the normal form does not read through (outside the grammar '
                                f'of C17.R4)')
    rep.check(ok, rule, ROLE_FILE['reset'], 'factory', f.node.lineno,
              f'{base["check"]}; {base["ret"]}'[:300],
              'the required/optional split, the required-key check, the key selection or the '
              'partial application deviates from the documented factory', 'factory steps')
    ck = index.func(FUNCS, 'checkraise_kwargs')
    w = walk_function(ck.node)
    kp, rp = [a.arg for a in ck.node.args.args[:2]]
    rz = [e for e in w.events if e.kind == 'raise']
    ok = len(rz) == 1 and rz[0].loops and src(rz[0].loops[-1][1]) == rp and \
        show(strip_iter(rz[0].guard)) == f'not ({src(rz[0].loops[-1][0])} in {kp})' and \
        src(rz[0].value).startswith('ValueError(')
    rep.check(ok, rule, FUNCS, 'checkraise_kwargs', ck.node.lineno,
              '; '.join(src(e.stmt)[:80] for e in rz),
              'checkraise_kwargs does not raise ValueError for every missing required key',
              'missing key -> ValueError')
    sk = index.func(FUNCS, 'select_kwargs')
    rep.check(select_kwargs_ok(sk), rule,
              FUNCS, 'select_kwargs', sk.node.lineno, 'select_kwargs',
              'select_kwargs does not keep exactly the accepted keys', 'select_kwargs')
    for r in N_PROTOCOL:
        regc = [c for c in index.module(ROLE_FILE[r]).classes.values()
                if 'FunctionRegistry' in c.bases]
        if len(regc) != 1:
            raise AnalysisError(f'{ROLE_FILE[r]}: registry class not found')
        gp = regc[0].methods.get('get_protocol_parameters')
        t = src(gp.node) if gp else ''
        n = N_PROTOCOL[r]
        ok = "get_keyword_parameter(signature, 'rng')" in t and \
            (n == 0 or f'get_positional_parameters(signature, {n})' in t)
        rep.check(ok, rule, ROLE_FILE[r], f'{regc[0].name}.get_protocol_parameters',
                  gp.node.lineno if gp else 1, f'{n} positional + rng',
                  f'the {r} registry does not treat its first {n} positional parameters and '
                  f'`rng` as protocol parameters', f'{r} protocol parameters')



def run(index: RepoIndex, rep) -> None:
    rep.rule('C17.R1', 'gym ids point to packaged files identical to their yaml/ twins', floor=44)
    rep.rule('C17.R2', 'each shipped file has the top-level keys of the env schema, non-empty '
             'lists, valid action/colour/object names', floor=43)
    rep.rule('C17.R3', 'component names resolve in the right registry and required '
             'parameters are supplied; reserved keys are well-formed', floor=200)
    rep.rule('C17.R4', 'the six factory(name, **kwargs) functions are alpha-equal siblings '
             'with the documented pipeline', floor=11)
    rep.rule('C17.R5', 'every factory_* validates into a copy before popping / converting',
             floor=14)
    rep.rule('C17.R6', 'assembly: chain / reduce_sum, spaces sized from a sample, components '
             'in GridWorld\'s parameter order', floor=8)
    rep.rule('C17.R7', 'declared types and colours cover what can be placed (C01.R6)', floor=21)
    composite_parts(index, rep, 'C17.R6')
    rep.rule('C17.R9', 'each gym id / reserved key gets its own binding: closures made in the '
             'registration and assembly loops bind the loop variable at definition time',
             floor=1)
    from .wiring import late_binding_closures
    late_binding_closures(index, rep, 'C17.R9', (
        'gym_gridverse/gym.py', 'gym_gridverse/envs/yaml/factory.py',
        'gym_gridverse/envs/yaml/schemas.py', 'gym_gridverse/utils/registry.py',
        'gym_gridverse/utils/space_builders.py'))
    rep.rule('C17.R8', 'schema predicates do not consult registries (validation precedes the '
             'import of custom modules)', floor=8)
    validation_before_imports(index, rep, 'C17.R8')
    cfg = Configs(index, rep)
    om = ObjectModel(index)

    # ---------------------------------------------------------------- R1
    from ..consteval import CannotFold, fold, module_constant
    tab = module_constant(index.module(GYM), 'STRING_TO_YAML_FILE')
    if tab is None:
        raise AnalysisError('anchor vanished: gym.py STRING_TO_YAML_FILE (one assignment)')
    try:
        # a literal, or a table derived from other literal tables (constant folding)
        ids = fold(index.module(GYM), tab)
    except CannotFold as x:
        raise AnalysisError(f'STRING_TO_YAML_FILE is not a foldable table of literals: {x}')
    if not (isinstance(ids, dict) and all(isinstance(k, str) and isinstance(v, str)
                                          for k, v in ids.items())):
        raise AnalysisError('STRING_TO_YAML_FILE does not fold to a str -> str mapping')
    if len(ids) < 21:
        raise AnalysisError(f'STRING_TO_YAML_FILE has {len(ids)} entries, floor is 21')
    by_file: Dict[str, list] = {}
    for gid, fn in ids.items():
        by_file.setdefault(fn, []).append(gid)
    for fn, gids in sorted(by_file.items()):
        rep.check(len(gids) == 1, 'C17.R1', GYM, 'STRING_TO_YAML_FILE', tab.lineno,
                  f'{sorted(gids)} -> {fn}', f'the ids {sorted(gids)} point to the same file '
                  f'{fn}: at most one of them builds the environment its name announces',
                  f'{fn}: one id')
    for gid, fn in sorted(ids.items()):
        p1 = f'{PKG}/registered_envs/{fn}'
        p2 = f'yaml/{fn}'
        rep.check(p1 in cfg.texts, 'C17.R1', GYM, 'STRING_TO_YAML_FILE', tab.lineno,
                  f'{gid}: {fn}', f'gym id {gid} points to {p1}, which does not exist',
                  f'{gid} -> packaged file exists')
        if p1 in cfg.texts:
            rep.check(cfg.texts.get(p2) == cfg.texts[p1], 'C17.R1', p1, '<config>', 1,
                      f'{p1} vs {p2}', f'the packaged copy {p1} differs from {p2} (or the '
                      f'latter is missing): the registered id builds a different environment '
                      f'than the shipped configuration', f'{fn}: packaged copy identical')
    for rel in cfg.texts:
        if rel.startswith('yaml/'):
            twin = f'{PKG}/registered_envs/{rel[5:]}'
            rep.check(twin in cfg.texts and rel[5:] in ids.values(), 'C17.R1', rel, '<config>',
                      1, rel, f'{rel} has no packaged copy / no gym id', f'{rel}: registered')
    gm = index.module(GYM)
    loop_ok, why = registration_loop(gm, ids)
    rep.check(loop_ok, 'C17.R1', GYM, '<module>', tab.lineno, 'registration loop',
              'the registration loop does not build registered_envs/<file> for every table '
              f'entry: {why}', 'registration loop')
    rep.check(loop_ok or 'entry point' not in why, 'C17.R1', GYM, '<module>', tab.lineno,
              'gym.register(...)', 'ids are not registered with the from_factory entry point '
              f'and a factory bound to their own file: {why}', 'gym.register')
    st = index.module('setup.py')
    rep.check("'registered_envs/*.yaml'" in src(st.tree), 'C17.R1', 'setup.py', '<module>', 1,
              'package_data', 'setup.py does not package registered_envs/*.yaml',
              'setup.py packages the files')

    # ---------------------------------------------------------------- R2 / R3
    req, opt = env_schema_keys(index)
    customs = custom_functions(index)
    cobjs = custom_objects(index)
    actions = index.enum('Action').members
    colours = index.enum('Color').members
    stats = {'extra': 0}
    for rel, d in sorted(cfg.files.items()):
        if not isinstance(d, dict):
            rep.violation('C17.R2', rel, '<config>', 1, rel, 'top level is not a mapping')
            continue
        keys = set(d)
        rep.check(req <= keys and keys <= req | opt, 'C17.R2', rel, '<config>', 1,
                  str(sorted(keys)), f'top-level keys {sorted(keys)}: missing '
                  f'{sorted(req - keys)}, unknown {sorted(keys - req - opt)}',
                  f'{rel}: top-level keys')
        for sp in ('state_space', 'observation_space'):
            s = d.get(sp)
            ok = isinstance(s, dict) and set(s) == {'objects', 'colors'} and \
                isinstance(s['objects'], list) and s['objects'] and \
                len(set(s['objects'])) == len(s['objects']) and \
                all(isinstance(o, str) and (o in om.classes or
                                            (':' in o and o.split(':')[1] in
                                             cobjs.get(o.split(':')[0], set())))
                    for o in s['objects']) and \
                isinstance(s['colors'], list) and s['colors'] and \
                len(set(s['colors'])) == len(s['colors']) and \
                all(c in colours for c in s['colors'])
            rep.check(ok, 'C17.R2', rel, '<config>', 1, f'{sp}: {s}',
                      f'{sp} is not {{objects: unique registered names, colors: unique colour '
                      f'names}}: {s}', f'{rel}: {sp}')
        if 'action_space' in d:
            a = d['action_space']
            ok = isinstance(a, list) and a and len(set(a)) == len(a) and \
                all(x in actions for x in a)
            rep.check(ok, 'C17.R2', rel, '<config>', 1, f'action_space: {a}',
                      'action_space is not a non-empty list of unique action names',
                      f'{rel}: action_space')
        for sect, role in SECTION_ROLE.items():
            v = d.get(sect)
            if sect.endswith('s'):
                if not (isinstance(v, list) and v):
                    rep.violation('C17.R2', rel, '<config>', 1, f'{sect}: {v}',
                                  f'{sect} is not a non-empty list')
                    continue
                for e in v:
                    check_component(index, rep, 'C17.R3', rel, role, e, customs, om, stats)
            else:
                check_component(index, rep, 'C17.R3', rel, role, v, customs, om, stats)
    rep.note(f'{stats["extra"]} configuration keys are not parameters of the named component '
             f'(ignored by select_kwargs)')

    # ---------------------------------------------------------------- R4
    factory_rules(index, rep, 'C17.R4')
    # ---------------------------------------------------------------- R5
    eff = Effects(index)
    fm = index.module(FACTORY)
    n_fact = 0
    for name, f in sorted(fm.functions.items()):
        if not name.startswith('factory_') or name == 'factory_env_from_yaml':
            continue
        n_fact += 1
        dp = f.node.args.args[0].arg
        ok, why = validates_first(index, f, dp)
        rep.check(ok, 'C17.R5', FACTORY, name, f.node.lineno, why,
                  f'{name} does not rebind its input to a validated copy before using it',
                  f'{name}: validates first')
        s = eff.summary(f)
        rep.check(dp not in s.mut_params, 'C17.R5', FACTORY, name, f.node.lineno,
                  '; '.join(t for _, t in s.mut_sites.get(dp, [])[:2]) or name,
                  f'{name} modifies the caller\'s configuration data '
                  f'({s.mut_sites.get(dp, [])[:2]}): building is not repeatable',
                  f'{name}: input not mutated')
    if n_fact < 14:
        raise AnalysisError(f'found {n_fact} factory_* functions, floor is 14')
    for q, g in eff.funcs.items():
        if not g.relpath.startswith(PKG):
            continue
        for e in eff.walks[q].events:
            if e.kind == 'call' and src(e.node.func) == 'process_reserved_keys':
                a = e.node.args[0] if e.node.args else None
                ok = isinstance(a, ast.Name) and not eff.roots(q, a, at=e.order)
                rep.check(ok, 'C17.R5', g.relpath, g.short, e.line, src(e.node),
                          'process_reserved_keys is applied to data that may be the caller\'s '
                          'own (not a validated copy)', f'{g.short}: converts a copy')
    # schemas are strict: a key the format does not know is an error, not noise (a misspelt
    # optional section would otherwise silently build the default)
    sm = index.module(SCHEMAS)
    n_schema = 0
    for n in ast.walk(sm.tree):
        if isinstance(n, ast.Call) and src(n.func) in ('Schema', 'schema.Schema'):
            n_schema += 1
            loose = [k for k in n.keywords if k.arg == 'ignore_extra_keys' and not (
                isinstance(k.value, ast.Constant) and k.value.value is False)]
            rep.check(not loose, 'C17.R5', SCHEMAS, '<module>', n.lineno, src(n)[:80],
                      'a schema ignores keys it does not know: a misspelt or unknown section '
                      'is dropped instead of being rejected, and a different environment is '
                      'built', f'strict schema at line {n.lineno}')
    if n_schema < 10:
        raise AnalysisError(f'found {n_schema} Schema(...) literals, floor is 10')
    fr = index.func('gym_gridverse/grid_object.py', 'GridObjectRegistry.from_name')
    w = walk_function(fr.node)
    rz = [e for e in w.events if e.kind == 'raise' and e.value is not None]

    def _raised(e: ast.AST) -> str:
        # `raise self._unregistered_error(name)`: a one-expression helper that builds the error
        from ..inline import inline_pure_exprs, pure_body_expr
        if isinstance(e, ast.Call) and isinstance(e.func, ast.Attribute) and \
                src(e.func.value) in ('self', 'cls', fr.cls.name if fr.cls else '') and \
                fr.cls is not None and e.func.attr in fr.cls.methods:
            b_ = pure_body_expr(fr.cls.methods[e.func.attr].node)
            if b_ is not None:
                return src(b_)
        return src(inline_pure_exprs(index, fr.module, fr.cls, e))
    rep.check(any(_raised(e.value).startswith('ValueError(') for e in rz), 'C17.R5',
              'gym_gridverse/grid_object.py', 'GridObjectRegistry.from_name', fr.node.lineno,
              '; '.join(src(e.stmt)[:60] for e in rz),
              'an unknown object name does not raise ValueError', 'unknown object -> ValueError')
    # ... and a name denotes the class of exactly that name: the name is only compared for
    # equality with `__name__` (or used as a key); a prefix / suffix / substring / case-folded
    # match accepts unregistered names and builds some other environment
    np_ = fr.node.args.args[1].arg if len(fr.node.args.args) > 1 else 'name'
    loose = []
    exact = 0
    parents_: Dict[int, ast.AST] = {}
    for n_ in ast.walk(fr.node):
        for ch_ in ast.iter_child_nodes(n_):
            parents_[id(ch_)] = n_
    def _ancestors(x):
        while id(x) in parents_:
            x = parents_[id(x)]
            yield x
    for n_ in ast.walk(fr.node):
        if not (isinstance(n_, ast.Name) and n_.id == np_ and isinstance(n_.ctx, ast.Load)):
            continue
        pa = parents_.get(id(n_))
        if isinstance(pa, ast.Compare) and len(pa.ops) == 1 and \
                isinstance(pa.ops[0], (ast.Eq, ast.NotEq)) and \
                any(src(x).endswith('.__name__') for x in [pa.left] + pa.comparators):
            exact += 1
        elif isinstance(pa, ast.Subscript) and pa.slice is n_:
            exact += 1
        elif isinstance(pa, ast.Call) and isinstance(pa.func, ast.Attribute) and \
                pa.func.attr == 'get' and n_ in pa.args:
            exact += 1
        elif isinstance(pa, (ast.FormattedValue, ast.JoinedStr)):
            pass        # error message
        elif any(isinstance(a_, ast.Raise) for a_ in _ancestors(n_)):
            pass        # handed to whatever builds the error
        else:
            loose.append(src(pa) if pa is not None else np_)
    rep.check(exact >= 1 and not loose, 'C17.R5', 'gym_gridverse/grid_object.py',
              'GridObjectRegistry.from_name', fr.node.lineno, '; '.join(loose)[:120] or np_,
              f'object names are not matched by equality with the class name ({loose[:2]}): an '
              f'unregistered name can be accepted as some registered class',
              'object names matched exactly')
    # registries answer from their live content: a lookup structure kept besides the
    # registered items must be invalidated by register()
    n_reg = 0
    for mod_ in index.modules.values():
        if not mod_.relpath.startswith(PKG):
            continue
        for c_ in mod_.classes.values():
            reg_m = index.method(c_, 'register')
            if reg_m is None:
                continue
            n_reg += 1
            writes: Dict[str, Set[str]] = {}
            for mn, mf in list(c_.methods.items()) + [('register', reg_m)]:
                ww = walk_function(mf.node)
                writes[mn] = {src(e.target) for e in ww.events
                              if e.kind in ('attrstore', 'augstore')
                              and src(e.target).startswith('self.')}
            keep = writes.get('register', set()) | writes.get('__init__', set())
            for mn, ws in sorted(writes.items()):
                if mn in ('register', '__init__', '__setitem__', '__delitem__'):
                    continue
                stale = sorted(ws - writes.get('register', set()))
                rep.check(not stale, 'C17.R5', mod_.relpath, f'{c_.name}.{mn}',
                          c_.methods[mn].node.lineno, ', '.join(stale) or f'{c_.name}.{mn}',
                          f'{c_.name}.{mn} fills {stale}, which register() never refreshes: a '
                          f'class or function registered later (an on-demand custom import) '
                          f'is not found, so whether a configuration builds depends on what '
                          f'was built before it', f'{c_.name}.{mn}: no stale lookup cache')
    if n_reg < 8:
        raise AnalysisError(f'found {n_reg} registry classes, floor is 8')
    ic = index.func('gym_gridverse/utils/custom.py', 'import_if_custom')
    b = ic.body()
    p = ic.node.args.args[0].arg
    from ..view import value_text
    rep.check(value_text(index, ic) == f'import_custom({p}) if is_custom({p}) else {p}',
              'C17.R5', 'gym_gridverse/utils/custom.py', 'import_if_custom', ic.node.lineno,
              src(b[-1]), 'import_if_custom does not pass plain names through unchanged',
              'import_if_custom')

    # ---------------------------------------------------------------- R6
    fe = index.func(FACTORY, 'factory_env_from_data')
    w = walk_function(fe.node)
    rets = [e for e in w.events if e.kind == 'return' and e.value is not None]
    gw = index.cls('gym_gridverse/envs/gridworld.py', 'GridWorld')
    params = [a.arg for a in gw.methods['__init__'].node.args.args[1:]]
    want_def = {
        'state_space': 'state_space_builder.build()',
        'action_space': None,
        'observation_space': 'observation_space_builder.build()',
        'reset_function': "factory_reset_function(data['reset_function'])",
        'transition_function': "factory_transition_function({'name': 'chain', "
                               "'transition_functions': data['transition_functions']})",
        'observation_function': "factory_observation_function(data['observation_function'])",
        'reward_function': "factory_reward_function({'name': 'reduce_sum', "
                           "'reward_functions': data['reward_functions']})",
        'termination_function': "factory_terminating_function(data['terminating_function'])",
    }
    ok = len(rets) == 1 and isinstance(rets[0].value, ast.Call) and \
        src(rets[0].value.func) == 'GridWorld' and len(rets[0].value.args) == len(params) == 8
    rep.check(ok, 'C17.R6', FACTORY, 'factory_env_from_data', fe.node.lineno,
              src(rets[0].value)[:200] if rets else '',
              'the environment is not built by GridWorld(<eight components>)', 'GridWorld(...)')
    if ok:
        for p_, a in zip(params, rets[0].value.args):
            wd = want_def.get(p_)
            if wd is None:
                continue
            d = w.sole_binding(a.id) if isinstance(a, ast.Name) else None
            got = src(d[1]) if d is not None and d[0] == 'value' else src(a)
            rep.check(got == wd, 'C17.R6', FACTORY, 'factory_env_from_data', rets[0].line,
                      f'{p_} <- {got[:100]}',
                      f'GridWorld parameter `{p_}` receives `{got[:100]}`, not `{wd}`',
                      f'{p_} wired')
    # the spaces are sized from a sample: the state builder from the grid of one reset, the
    # observation builder from the grid of that state's observation (locals read through)
    RESET = "factory_reset_function(data['reset_function'])()"
    OBSV = f"factory_observation_function(data['observation_function'])({RESET})"
    want_sz = {("factory_state_space_builder(data['state_space'])", f'{RESET}.grid.shape'):
               'state shape from a sample reset',
               ("factory_observation_space_builder(data['observation_space'])",
                f'{OBSV}.grid.shape'): 'observation shape from a sample observation'}
    got_sz = set()
    for e in w.events:
        if e.kind == 'call' and isinstance(e.node.func, ast.Attribute) and \
                e.node.func.attr == 'set_grid_shape' and len(e.node.args) == 1:
            got_sz.add((src(w.expand(e.node.func.value)), src(w.expand(e.node.args[0]))))
    for key, what in want_sz.items():
        rep.check(key in got_sz, 'C17.R6', FACTORY, 'factory_env_from_data', fe.node.lineno,
                  '; '.join(f'{a_}.set_grid_shape({b_})' for a_, b_ in sorted(got_sz))[:200],
                  f'spaces are not sized from a sample: no {what}', what)
    sb = index.module('gym_gridverse/utils/space_builders.py')
    for cname, target in (('StateSpaceBuilder', 'StateSpace'),
                          ('ObservationSpaceBuilder', 'ObservationSpace')):
        m = sb.classes[cname].methods['build']
        w2 = walk_function(m.node)
        r = [src(e.value) for e in w2.events if e.kind == 'return' and e.value is not None]
        rep.check(r == [f'{target}(self.grid_shape, self.object_types, self.colors)'], 'C17.R6',
                  sb.relpath, f'{cname}.build', m.node.lineno, '; '.join(r),
                  f'{cname}.build does not pass (grid_shape, object_types, colors) in order',
                  f'{cname}.build')

    # simple converters: order and content of the configured lists are kept
    conv = {
        'factory_shape': 'Shape(*data)',
        'factory_colors': '[Color[name] for name in data]',
        'factory_object_types': '[factory_object_type(d) for d in data]',
        'factory_action_space': 'ActionSpace([Action[name] for name in data])',
        'factory_distance_function': 'distance_function_factory(data)',
    }
    for name, want in conv.items():
        f = index.func(FACTORY, name)
        w = walk_function(f.node)
        rets = [src(w.expand(e.value, stop=['data'])) for e in w.events
                if e.kind == 'return' and e.value is not None]
        rep.check(rets == [want], 'C17.R6', FACTORY, name, f.node.lineno, '; '.join(rets),
                  f'{name} returns `{"; ".join(rets)[:80]}`, not `{want}` of the validated data '
                  f'(e.g. the configured order of actions decides which index runs which '
                  f'action)', f'{name} converter')
    # the action space handed to GridWorld: the configured list, or every action in enum order
    wf = walk_function(fe.node)
    gw_calls = [e_ for e_ in wf.events if e_.kind == 'return' and
                isinstance(e_.value, ast.Call) and src(e_.value.func) == 'GridWorld']
    asp = ''
    if gw_calls and len(gw_calls[0].value.args) >= 2:
        asp = src(wf.expand(gw_calls[0].value.args[1]))
    rep.check(asp in ("factory_action_space(data['action_space']) if 'action_space' in data else "
                      "ActionSpace(list(Action))",
                      "ActionSpace(list(Action)) if 'action_space' not in data else "
                      "factory_action_space(data['action_space'])"),
              'C17.R6', FACTORY, 'factory_env_from_data',
              fe.node.lineno, asp[:160] or 'action_space = ...', 'the action space is not the '
              'configured list (or all actions in enum order when absent)',
              'action space wiring')

    # ---------------------------------------------------------------- R7
    declared_types_rule(index, rep, 'C17.R7')
