"""C19 -- rays are connected paths that sweep the whole area (partial)."""
from __future__ import annotations

import ast
from typing import List

from ..core import AnalysisError, src
from ..effects import Effects
from ..guards import walk_function
from ..index import PKG, RepoIndex

EXPLANATION = (
    'Pipeline-shape rules on compute_ray (DESIGN.md A.3): the origin must lie in the area '
    '(ValueError otherwise); the cells are round() of origin + i*step*(sin, cos) for i = 0, '
    '1, .. (so the ray starts at the origin cell); the stream is cut by '
    'takewhile(area.contains) (every cell inside the area; the ray ends where the next '
    'sample leaves it, i.e. on the border); duplicates are removed by unique_everseen under '
    'the default unique=True and no caller passes unique=False; every caller passes a '
    'literal step with 0 < step < 1 and a unit direction, so consecutive cells are adjacent; '
    'the ray functions are pure and their cached results only read. That the fan reaches '
    'every cell of the area is floating-point geometry and is declined.')
TRUSTED = ['itertools.takewhile / count, more_itertools.unique_everseen, round semantics',
           'the coverage clause (the fan reaches every cell) is declined']

RT = 'gym_gridverse/utils/raytracing.py'


def run(index: RepoIndex, rep) -> None:
    rep.rule('C19.R5', 'ray samples keep the row and the column coordinate apart (axis typing, E14)', floor=1)
    from ..axes import axis_rule
    axis_rule(index, rep, 'C19.R5', ('gym_gridverse/utils/raytracing.py',), floor=8)
    rep.rule('C19.R1', 'compute_ray: origin in area or ValueError; cells cut by '
             'takewhile(area.contains)', floor=3)
    rep.rule('C19.R2', 'rays start at the origin cell and are de-duplicated', floor=3)
    rep.rule('C19.R3', 'literal step 0 < step < 1 and unit direction at every call site',
             floor=4)
    rep.rule('C19.R4', 'ray functions are pure; cached results only read (C03.R4)', floor=3)
    f = index.func(RT, 'compute_ray')
    w = walk_function(f.node)
    ps = [a.arg for a in f.node.args.args]
    pos, area = ps[0], ps[1]
    # ---- R1
    raises = [e for e in w.events if e.kind == 'raise']
    from ..guards import show, strip_iter
    ok = any(show(strip_iter(e.guard)) == f'not ({area}.contains({pos}))'
             and e.value is not None and src(e.value).startswith('ValueError(') for e in raises)
    rep.check(ok, 'C19.R1', RT, 'compute_ray', f.node.lineno,
              '; '.join(src(e.stmt) for e in raises) or 'no raise',
              'compute_ray does not reject an origin outside the area with ValueError',
              'origin in area')
    rets = [e for e in w.events if e.kind == 'return' and e.value is not None]
    if len(rets) != 1:
        raise AnalysisError('compute_ray: expected one return')
    # follow the chain of rebinding of the stream variable
    chain: List[str] = []
    val = rets[0].value
    if isinstance(val, ast.Call) and src(val.func) == 'list' and len(val.args) == 1 and \
            isinstance(val.args[0], ast.Name):
        var = val.args[0].id
        defs = [d for d in w.defs.get(var, []) if d[0] == 'value']
        chain = [src(d[1]) for d in defs]
    else:
        chain = [src(val)]
    tw = [c for c in chain if c.startswith('itt.takewhile(') or c.startswith('takewhile(')]
    rep.check(any(c in (f'itt.takewhile({area}.contains, {var})',
                        f'takewhile({area}.contains, {var})') for c in tw) if chain else False,
              'C19.R1', RT, 'compute_ray', f.node.lineno, ' -> '.join(chain)[:300],
              'the stream of cells is not cut by takewhile(area.contains, ..): a ray could '
              'leave the area or be cut elsewhere', 'takewhile(area.contains)')
    order_ok = False
    if chain:
        idx_tw = [i for i, c in enumerate(chain) if 'takewhile' in c]
        idx_gen = [i for i, c in enumerate(chain) if 'Position(' in c]
        order_ok = bool(idx_tw and idx_gen) and idx_gen[0] < idx_tw[0]
    rep.check(order_ok, 'C19.R1', RT, 'compute_ray', f.node.lineno, ' -> '.join(chain)[:300],
              'cells are not generated (rounded samples) before being cut by the area test',
              'pipeline order')
    # ---- R2
    un = [c for c in chain if 'unique_everseen' in c]
    d = f.param_defaults()
    ok = len(un) == 1 and un[0] in (f'mitt.unique_everseen({var}) if unique else {var}',
                                    f'mitt.unique_everseen({var})') and \
        (('if unique' not in un[0]) or (isinstance(d.get('unique'), ast.Constant)
                                        and d['unique'].value is True))
    rep.check(ok, 'C19.R2', RT, 'compute_ray', f.node.lineno, '; '.join(un),
              'cells are not de-duplicated by unique_everseen under the default unique=True',
              'unique_everseen by default')
    # name-agnostic reconstruction of the sample stream
    def resolve(e, depth=6):
        """expand a local through its single binding (tuple unpacking included)"""
        while depth > 0 and isinstance(e, ast.Name):
            d_ = w.single_def(e.id)
            if d_ is None:
                ds = w.defs.get(e.id, [])
                if len(ds) == 1 and ds[0][0] == 'unpack':
                    val_, i_ = ds[0][1]
                    if isinstance(val_, ast.Tuple) and i_ < len(val_.elts):
                        e = val_.elts[i_]
                        depth -= 1
                        continue
                break
            if d_[0] == 'value':
                e = d_[1]
            elif d_[0] == 'unpack' and isinstance(d_[1][0], ast.Tuple):
                e = d_[1][0].elts[d_[1][1]]
            else:
                break
            depth -= 1
        return e

    gens = [d for d in w.defs.get(var, []) if d[0] == 'value'
            and isinstance(d[1], ast.GeneratorExp)] if chain else []
    ok_round = False
    streams = (None, None)
    if len(gens) == 1:
        ge = gens[0][1]
        g0 = ge.generators[0]
        if isinstance(ge.elt, ast.Call) and src(ge.elt.func) == 'Position' and \
                len(ge.elt.args) == 2 and isinstance(g0.target, ast.Tuple) and \
                len(g0.target.elts) == 2 and isinstance(g0.iter, ast.Call) and \
                src(g0.iter.func) == 'zip' and len(g0.iter.args) == 2 and not g0.ifs:
            a, b = (src(x) for x in g0.target.elts)
            ok_round = [src(x) for x in ge.elt.args] == [f'round({a})', f'round({b})']
            streams = (resolve(g0.iter.args[0]), resolve(g0.iter.args[1]))
    rep.check(ok_round, 'C19.R2', RT, 'compute_ray', f.node.lineno,
              src(gens[0][1]) if gens else '',
              'cells are not Position(round(y), round(x)) of the two sample streams', 'rounding')

    def stream_ok(e, coord, trig):
        """(origin + i * step*trig(angle) for i in count()) -> True"""
        if not (isinstance(e, ast.GeneratorExp) and len(e.generators) == 1):
            return False
        g_ = e.generators[0]
        if g_.ifs or src(g_.iter) not in ('itt.count()', 'itertools.count()', 'count()',
                                          'itt.count(0)'):
            return False
        i_ = src(g_.target)
        el = e.elt
        if not (isinstance(el, ast.BinOp) and isinstance(el.op, ast.Add)):
            return False
        for base, inc in ((el.left, el.right), (el.right, el.left)):
            if not (isinstance(inc, ast.BinOp) and isinstance(inc.op, ast.Mult)):
                continue
            for ii, dd in ((inc.left, inc.right), (inc.right, inc.left)):
                if src(ii) != i_:
                    continue
                o_ = src(resolve(base))
                dl = resolve(dd)
                if o_ not in (f'float({pos}.{coord})', f'{pos}.{coord}'):
                    continue
                if isinstance(dl, ast.BinOp) and isinstance(dl.op, ast.Mult):
                    parts = {src(dl.left), src(dl.right)}
                    if parts == {'step_size', f'math.{trig}(radians)'}:
                        return True
        return False

    ok = streams[0] is not None and stream_ok(streams[0], 'y', 'sin') and \
        stream_ok(streams[1], 'x', 'cos')
    rep.check(ok, 'C19.R2', RT, 'compute_ray', f.node.lineno,
              '; '.join(src(x) for x in streams if x is not None),
              'samples are not origin + i*step*(sin, cos)(angle) for i = 0, 1, ..: the ray '
              'would not start at its origin or its direction is not a unit vector',
              'samples from the origin along a unit direction')
    # ---- R3 call sites
    n_sites = 0
    for g in index.all_functions(PKG):
        for n in ast.walk(g.node):
            if isinstance(n, ast.Call) and src(n.func) == 'compute_ray':
                n_sites += 1
                kw = {k.arg: k.value for k in n.keywords}
                st = kw.get('step_size')
                okv = isinstance(st, ast.Constant) and isinstance(st.value, (int, float)) \
                    and 0 < st.value < 1
                rep.check(okv, 'C19.R3', g.relpath, g.short, n.lineno, src(n),
                          f'step_size is `{src(st) if st is not None else None}`, not a literal '
                          f'in (0, 1): consecutive cells need not be adjacent', 'literal step')
                un = kw.get('unique')
                rep.check(un is None or (isinstance(un, ast.Constant) and un.value is True),
                          'C19.R3', g.relpath, g.short, n.lineno, src(n),
                          'a caller disables de-duplication (unique=False)', 'unique left on')
    if n_sites < 2:
        raise AnalysisError(f'found {n_sites} call sites of compute_ray, floor is 2')
    # ---- R4
    eff = Effects(index)
    for name in ('compute_ray', 'compute_rays', 'compute_rays_fancy'):
        fn = index.func(RT, name)
        s = eff.summary(fn)
        rep.check(not s.mut_params and not s.global_writes, 'C19.R4', RT, name, fn.node.lineno,
                  name, f'{name} mutates {sorted(s.mut_params)} / writes '
                  f'{sorted(s.global_writes)}', f'{name} pure')
    mod = index.module(RT)
    for cname, target in (('cached_compute_rays', 'compute_rays'),
                          ('cached_compute_rays_fancy', 'compute_rays_fancy')):
        vals = mod.assigns.get(cname, [])
        ok = len(vals) == 1 and src(vals[0]) in (f'lru_cache()({target})',
                                                 f'lru_cache(maxsize=None)({target})',
                                                 f'functools.lru_cache()({target})',
                                                 f'cache({target})')
        rep.check(ok, 'C19.R4', RT, cname, getattr(vals[0], 'lineno', 1) if vals else 1,
                  src(vals[0]) if vals else cname,
                  f'{cname} is not the memoised {target} (keyed by its full input)',
                  f'{cname} memoises {target}')
