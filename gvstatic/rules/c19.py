"""C19 -- rays are connected paths that sweep the whole area (partial)."""
from __future__ import annotations

import ast
from typing import Dict, List

from ..core import AnalysisError, src
from ..effects import Effects
from ..guards import walk_function
from ..index import PKG, RepoIndex

EXPLANATION = (
    'Pipeline-shape rules on compute_ray (DESIGN.md A.3): the origin must lie in the area '
    '(ValueError otherwise); the cells are round() of origin + i*step*(sin, cos) for i = 0, '
    '1, .. (so the ray starts at the origin cell); the stream is cut by '
    'takewhile(area.contains) (every cell inside the area; the ray ends where the next '
    'sample leaves it, i.e. on the border); duplicates are removed by unique_everseen under '
    'the default unique=True and no caller passes unique=False; every caller passes a '
    'literal step with 0 < step < 1 and a unit direction, so consecutive cells are adjacent; '
    'the ray functions are pure and their cached results only read. That the fan reaches '
    'every cell of the area is floating-point geometry and is declined.')
TRUSTED = ['itertools.takewhile / count, more_itertools.unique_everseen, round semantics',
           'the coverage clause (the fan reaches every cell) is declined']

RT = 'gym_gridverse/utils/raytracing.py'
TRACERS: Dict[str, bool] = {'compute_ray': True}
COUNTS = ('itt.count()', 'itertools.count()', 'count()', 'itt.count(0)', 'itertools.count(0)')


def _sample_ok(w, e: ast.AST, i_: str, pos: str, coord: str, trig: str) -> bool:
    """e is  origin.coord + i * (step_size * math.trig(radians))  up to commutation, float()
    around the origin and naming of intermediates"""
    e = w.expand(e, stop=[i_])
    if not (isinstance(e, ast.BinOp) and isinstance(e.op, ast.Add)):
        return False
    for base, inc in ((e.left, e.right), (e.right, e.left)):
        if not (isinstance(inc, ast.BinOp) and isinstance(inc.op, ast.Mult)):
            continue
        for ii, dd in ((inc.left, inc.right), (inc.right, inc.left)):
            if src(ii) != i_:
                continue
            if src(base) not in (f'float({pos}.{coord})', f'{pos}.{coord}',
                                 f'{pos}.yx[{0 if coord == "y" else 1}]',
                                 f'float({pos}.yx[{0 if coord == "y" else 1}])'):
                continue
            if isinstance(dd, ast.BinOp) and isinstance(dd.op, ast.Mult):
                parts = {src(dd.left), src(dd.right)}
                if parts == {'step_size', f'math.{trig}(radians)'}:
                    return True
    return False


def _loop_simple(f, w, pos: str, area: str, m: dict, lp, val) -> dict:
    """the loop form with one append and one break"""
    from ..guards import (parse_guard, prop_equiv, prop_implies, show, strip_iter)
    i_ = src(lp.target)
    inside = {id(n) for n in ast.walk(lp)}
    apps = [e for e in w.events if e.kind == 'call' and id(e.node) in inside
            and isinstance(e.node.func, ast.Attribute) and e.node.func.attr == 'append'
            and src(e.node.func.value) == src(val) and len(e.node.args) == 1]
    brs = [e for e in w.events if e.kind == 'break' and id(e.node) in inside]
    if len(apps) != 1 or len(brs) != 1:
        raise AnalysisError(f'compute_ray loop: {len(apps)} appends, {len(brs)} breaks')
    ap, br = apps[0], brs[0]
    cell = w.expand(ap.node.args[0], stop=[i_])
    m['cell_text'] = src(cell)
    cname = src(ap.node.args[0])
    contains = f'{area}.contains({cname})'
    from ..guards import f_and
    # everything in the loop happens under the condition of reaching the loop
    pre = ('true',)
    for e_ in w.events:
        if e_.kind == 'call' and e_.node is lp.iter:
            pre = strip_iter(e_.guard)

    def under(text: str):
        return f_and(pre, parse_guard(text))
    bg = strip_iter(br.guard)
    m['cut_text'] = f'break when {show(bg)}'
    m['cut'] = prop_equiv(bg, under(f'not {contains}')) is None
    ag = strip_iter(ap.guard)
    m['order'] = br.order < ap.order and prop_implies(ag, parse_guard(contains)) is None
    ray = src(val)
    m['dedupe_text'] = show(ag)
    # (a) the append happens unless outside or a repeat of the previous cell
    rep_t = f'{cname} == {ray}[-1]'
    cands = [(f'{ray} and {rep_t}', True)]
    # (b) ... or a cell seen before, kept in a set that every appended cell enters
    for n_ in w.defs:
        d_ = w.sole_binding(n_)
        if d_ is None or d_[0] != 'value' or src(d_[1]) not in ('set()',):
            continue
        seen_t = f'{cname} in {n_}'
        uses = [e_ for e_ in w.events if e_.kind == 'call'
                and isinstance(e_.node.func, ast.Attribute)
                and src(e_.node.func.value) == n_]
        adds = [e_ for e_ in uses if e_.node.func.attr == 'add' and id(e_.node) in inside
                and [src(a_) for a_ in e_.node.args] == [cname]]
        if len(adds) != 1 or len(uses) != 1:
            continue
        gadd = strip_iter(adds[0].guard)
        always = prop_equiv(gadd, under(f'{contains} and not ({seen_t})')) is None
        when_unique = prop_equiv(
            gadd, under(f'{contains} and unique and not ({seen_t})')) is None
        if always or when_unique:
            cands.append((seen_t, always))
    for rep_, tracked_always in cands:
        if prop_equiv(ag, under(f'{contains} and not (unique and {rep_})')) is None:
            m['dedupe'], m['dedupe_conditional'] = True, True
        elif tracked_always and \
                prop_equiv(ag, under(f'{contains} and not ({rep_})')) is None:
            m['dedupe'] = True
    if isinstance(cell, ast.Call) and src(cell.func) == 'Position' and len(cell.args) == 2 \
            and all(isinstance(a, ast.Call) and src(a.func) == 'round' and len(a.args) == 1
                    for a in cell.args):
        m['rounding'] = True
        ys, xs = cell.args[0].args[0], cell.args[1].args[0]
        m['sample_text'] = f'{src(ys)}; {src(xs)}'
        m['samples'] = _sample_ok(w, ys, i_, pos, 'y', 'sin') and \
            _sample_ok(w, xs, i_, pos, 'x', 'cos')
    return m


def ray_model(f, w, pos: str, area: str) -> dict:
    """what compute_ray does, from either spelling: the generator pipeline
    (zip of two sample streams -> Position(round, round) -> takewhile -> unique_everseen) or
    the explicit loop over count() (cell; break when outside; skip a repeat; append)"""
    from ..guards import (parse_guard, prop_equiv, prop_implies, show, strip_iter)
    m = {'cut': False, 'order': False, 'dedupe': False, 'dedupe_conditional': False,
         'rounding': False, 'samples': False, 'cut_text': '', 'dedupe_text': '',
         'cell_text': '', 'sample_text': ''}
    rets = [e for e in w.events if e.kind == 'return' and e.value is not None]
    if len(rets) != 1:
        raise AnalysisError('compute_ray: expected one return')
    val = rets[0].value
    loops = [n for n in ast.walk(f.node) if isinstance(n, ast.For) and src(n.iter) in COUNTS]
    if loops:
        old = None
        try:
            old = _loop_simple(f, w, pos, area, dict(m), loops[0], val)
        except AnalysisError:
            old = None
        if old is not None and all(old[k] for k in ('cut', 'order', 'dedupe', 'rounding',
                                                    'samples')):
            return old
        # more than one append/break, a shortcut for a repeated cell, bound comparisons
        # instead of area.contains, ..: the general reader decides (DESIGN 24)
        from ..rayloop import loop_model
        try:
            return loop_model(f.node, loops[0], pos, area, dict(m), _sample_ok)
        except AnalysisError:
            if old is not None:
                return old
            raise
    # ---- pipeline form: follow the chain of re-bindings of the stream variable
    e = w.expand(val)
    chain = []
    cur = e
    if isinstance(cur, ast.Call) and src(cur.func) == 'list' and len(cur.args) == 1:
        cur = cur.args[0]
    if isinstance(cur, ast.IfExp) and src(cur.test) == 'unique' and \
            isinstance(cur.body, ast.Call) and src(cur.body.func).endswith('unique_everseen') \
            and src(cur.body.args[0]) == src(cur.orelse):
        m['dedupe'], m['dedupe_conditional'] = True, True
        m['dedupe_text'] = 'unique_everseen(..) if unique else ..'
        cur = cur.orelse
    elif isinstance(cur, ast.Call) and src(cur.func).endswith('unique_everseen') and cur.args:
        m['dedupe'] = True
        m['dedupe_text'] = 'unique_everseen(..)'
        cur = cur.args[0]
    m['cut_text'] = src(cur)[:200]
    if isinstance(cur, ast.Call) and src(cur.func) in ('itt.takewhile', 'takewhile',
                                                       'itertools.takewhile') and \
            len(cur.args) == 2 and src(cur.args[0]) == f'{area}.contains':
        m['cut'] = True
        cur = cur.args[1]
        if isinstance(cur, ast.GeneratorExp) and len(cur.generators) == 1:
            m['order'] = True
            g0 = cur.generators[0]
            m['cell_text'] = src(cur.elt)
            if isinstance(cur.elt, ast.Call) and src(cur.elt.func) == 'Position' and \
                    len(cur.elt.args) == 2 and isinstance(g0.target, ast.Tuple) and \
                    len(g0.target.elts) == 2 and isinstance(g0.iter, ast.Call) and \
                    src(g0.iter.func) == 'zip' and len(g0.iter.args) == 2 and not g0.ifs:
                a, b = (src(x) for x in g0.target.elts)
                m['rounding'] = [src(x) for x in cur.elt.args] == [f'round({a})', f'round({b})']
                ok = True
                texts = []
                for st, coord, trig in ((g0.iter.args[0], 'y', 'sin'),
                                        (g0.iter.args[1], 'x', 'cos')):
                    texts.append(src(st)[:120])
                    if not (isinstance(st, ast.GeneratorExp) and len(st.generators) == 1 and
                            not st.generators[0].ifs and src(st.generators[0].iter) in COUNTS):
                        ok = False
                        continue
                    ok = ok and _sample_ok(w, st.elt, src(st.generators[0].target), pos,
                                           coord, trig)
                m['samples'] = ok
                m['sample_text'] = '; '.join(texts)
    return m


def ray_sources(index: RepoIndex, fn) -> list:
    """(kind, text) for every expression that can become an element of the list of rays
    `fn` returns: 'ray' for compute_ray(<position>, <area>, ..) with the function's own
    position and area (directly, through a local / nested / module helper, a conditional, or
    a local memo filled only with such results), 'built' for a list of positions made some
    other way; anything else is outside the grammar"""
    mod = fn.module
    pos_p, area_p = [a.arg for a in fn.node.args.args[:2]]
    w = walk_function(fn.node)
    out = []

    def helper(name: str):
        if name in w.local_funcs:
            return w.local_funcs[name], walk_function(w.local_funcs[name])
        h = mod.functions.get(name)
        if h is not None:
            return h.node, walk_function(h.node)
        return None

    def elem(e: ast.AST, wk, params: dict, depth: int = 5):
        """classify one ray-valued expression; params maps a helper's parameter names to the
        caller's expressions for position / area"""
        if depth < 0:
            raise AnalysisError('ray source too deep')
        if isinstance(e, ast.IfExp):
            elem(e.body, wk, params, depth)
            elem(e.orelse, wk, params, depth)
            return
        if isinstance(e, ast.Name):
            ds = wk.defs.get(e.id, [])
            vals = [d for d in ds if d[0] == 'value']
            if vals and len(vals) == len(ds):
                for d in vals:
                    elem(d[1], wk, params, depth - 1)
                return
            raise AnalysisError(f'ray source `{e.id}` outside the grammar')
        if isinstance(e, ast.Subscript) and isinstance(e.value, ast.Name):
            # a local memo: every value stored into it must be a ray
            memo = e.value.id
            stores = [ev_ for ev_ in wk.events if ev_.kind == 'store'
                      and isinstance(ev_.target, ast.Subscript)
                      and src(ev_.target.value) == memo]
            outer = [ev_ for ev_ in w.events if ev_.kind == 'store'
                     and isinstance(ev_.target, ast.Subscript)
                     and src(ev_.target.value) == memo] if wk is not w else []
            chained = [n for n in ast.walk(fn.node) if isinstance(n, ast.Assign)
                       and len(n.targets) > 1 and any(
                           isinstance(t, ast.Subscript) and src(t.value) == memo
                           for t in n.targets)]
            vals = [ev_.value for ev_ in stores + outer if ev_.value is not None] + \
                [n.value for n in chained]
            if not vals:
                raise AnalysisError(f'ray memo `{memo}` is never filled (outside the grammar)')
            for v in vals:
                elem(v, wk, params, depth - 1)
            return
        if isinstance(e, ast.Call) and isinstance(e.func, ast.Name):
            if e.func.id in TRACERS:
                kw = {k.arg: k.value for k in e.keywords}
                a0 = e.args[0] if e.args else kw.get('position')
                a1 = e.args[1] if len(e.args) > 1 else kw.get('area')
                ok = a0 is not None and a1 is not None and \
                    params.get(src(a0), src(a0)) == pos_p and \
                    params.get(src(a1), src(a1)) == area_p
                out.append(('ray' if ok else 'built', src(e)[:100]))
                return
            h = helper(e.func.id)
            if h is not None:
                hn, hw = h
                hp = [a.arg for a in hn.args.args]
                sub = dict(params)
                for p_, a_ in zip(hp, e.args):
                    sub[p_] = params.get(src(a_), src(a_))
                rets = [r for r in hw.events if r.kind == 'return' and r.value is not None]
                if not rets:
                    raise AnalysisError(f'ray helper {e.func.id} returns nothing')
                for r in rets:
                    elem(r.value, hw, sub, depth - 1)
                return
            if e.func.id in ('list', 'tuple') and len(e.args) == 1:
                elem(e.args[0], wk, params, depth)
                return
        if isinstance(e, (ast.ListComp, ast.List, ast.GeneratorExp)):
            out.append(('built', src(e)[:100]))
            return
        raise AnalysisError(f'ray source `{src(e)[:60]}` outside the grammar')

    def rays(e: ast.AST, wk, depth: int = 5):
        """the returned list of rays"""
        e = wk.expand(e)
        if isinstance(e, (ast.ListComp, ast.GeneratorExp)):
            elem(e.elt, wk, {})
            return
        if isinstance(e, (ast.List, ast.Tuple)):
            for x in e.elts:
                elem(x, wk, {})
            return
        if isinstance(e, ast.Call) and isinstance(e.func, ast.Name):
            if e.func.id in ('list', 'tuple', 'sorted') and e.args:
                rays(e.args[0], wk, depth - 1)
                return
            h = helper(e.func.id)
            if h is not None and depth > 0:
                hn, hw = h
                hp = [a.arg for a in hn.args.args]
                sub = {p_: src(a_) for p_, a_ in zip(hp, e.args)}
                for r in [r for r in hw.events if r.kind == 'return' and r.value is not None]:
                    v = hw.expand(r.value)
                    if isinstance(v, (ast.ListComp, ast.GeneratorExp)):
                        elem(v.elt, hw, sub)
                    else:
                        raise AnalysisError(f'ray helper {e.func.id} outside the grammar')
                return
        raise AnalysisError(f'{fn.name}: returned rays `{src(e)[:60]}` outside the grammar')
    rets = [r for r in w.events if r.kind == 'return' and r.value is not None]
    if not rets:
        raise AnalysisError(f'{fn.name}: no return')
    for r in rets:
        rays(r.value, w)
    if not out:
        raise AnalysisError(f'{fn.name}: no ray source found')
    return out


def tracers(index: RepoIndex) -> Dict[str, bool]:
    """name -> validates its origin: `compute_ray` (which rejects an origin outside the area)
    and any module helper it returns the result of with the same (position, area) -- the part
    of compute_ray after the check, which callers that have validated the origin once may call
    directly (`_trace_ray`)"""
    out = {'compute_ray': True}
    f = index.func(RT, 'compute_ray')
    ps = [a.arg for a in f.node.args.args[:2]]
    for n in ast.walk(f.node):
        if isinstance(n, ast.Return) and isinstance(n.value, ast.Call) and \
                isinstance(n.value.func, ast.Name) and \
                n.value.func.id in f.module.functions and \
                [src(a) for a in n.value.args[:2]] == ps:
            out[n.value.func.id] = False
    return out


def _origin_checked(index: RepoIndex, g, call: ast.Call) -> bool:
    """in g (helpers read through), a `raise ValueError` guarded by `not
    <area>.contains(<position>)` on the call's own two arguments comes before the call"""
    from ..guards import show, strip_iter
    from ..view import view as _view
    if len(call.args) < 2:
        return False
    a0, a1 = src(call.args[0]), src(call.args[1])
    w = _view(index, g)[1]
    for e in w.events:
        if e.kind == 'raise' and e.value is not None and \
                src(e.value).startswith('ValueError(') and \
                show(strip_iter(e.guard)).replace(' ', '') in (
                    f'not({a1}.contains({a0}))',) and not e.loops:
            return True
    return False


def fan_targets(index: RepoIndex, rep, rule: str) -> None:
    """the fan of compute_rays_fancy is aimed at the cell corners of *this* area as seen from
    the origin: the two coordinate vectors handed to arctan2 (through meshgrid) denote
    `ymin - 1/2 - p.y + k` (k = 0..height) and `xmin - 1/2 - p.x + k` (k = 0..width).  A
    necessary condition of the coverage clause (which is otherwise floating-point geometry):
    targets computed as if the area started at (0, 0) leave whole sectors of any other area
    without a ray.  Unit-step vectors only: linspace(a, a + n - 1, num=n), arange."""
    from fractions import Fraction
    from ..affine import Aff, NonAffine, aff_of
    f = index.func(RT, 'compute_rays_fancy')
    from ..view import view
    w = view(index, f)[1]
    pp, ap = [a.arg for a in f.node.args.args[:2]]
    S = Aff.sym
    leaves = {f'{ap}.ymin': S('ymin'), f'{ap}.ymax': S('ymax'), f'{ap}.xmin': S('xmin'),
              f'{ap}.xmax': S('xmax'), f'{ap}.height': S('ymax') - S('ymin') + 1,
              f'{ap}.width': S('xmax') - S('xmin') + 1, f'{pp}.y': S('py'), f'{pp}.x': S('px'),
              f'{ap}.ys[0]': S('ymin'), f'{ap}.ys[1]': S('ymax'), f'{ap}.xs[0]': S('xmin'),
              f'{ap}.xs[1]': S('xmax'), f'{pp}.yx[0]': S('py'), f'{pp}.yx[1]': S('px')}

    from ..affine import Facts, prove_ge0
    F = Facts()
    for lo_, mid_, hi_ in (('ymin', 'py', 'ymax'), ('xmin', 'px', 'xmax')):
        F.add_le(S(lo_), S(mid_))                  # the origin is in the area (C19.R2)
        F.add_le(S(mid_), S(hi_))

    def local_area(name: str):
        """bounds of a local Area((a, b), (c, d)) (an area method read where it is called):
        the constructor orders each pair, so a <= b must follow from the origin being in the
        area for the pair to be read as written"""
        d = w.single_def(name)
        if d is None or d[0] != 'value':
            return None
        v = d[1]
        if not (isinstance(v, ast.Call) and src(v.func) == 'Area' and len(v.args) == 2
                and not v.keywords and all(isinstance(a, ast.Tuple) and len(a.elts) == 2
                                           for a in v.args)):
            return None
        out = {}
        for ax, pair in zip('yx', v.args):
            try:
                a0, b0 = (aff_of(x, leaf) for x in pair.elts)
            except NonAffine:
                return None
            if not prove_ge0(b0 - a0, F):
                return None
            out[ax + 'min'], out[ax + 'max'] = a0, b0
        out['height'] = out['ymax'] - out['ymin'] + 1
        out['width'] = out['xmax'] - out['xmin'] + 1
        return out

    def leaf(e: ast.AST):
        if isinstance(e, ast.Constant) and isinstance(e.value, float):
            return Aff.const(Fraction(e.value).limit_denominator(1000))
        if isinstance(e, ast.Attribute) and isinstance(e.value, ast.Name) and \
                e.value.id not in (pp, ap) and e.attr in ('ymin', 'ymax', 'xmin', 'xmax',
                                                          'height', 'width'):
            la = local_area(e.value.id)
            if la is not None:
                return la[e.attr]
        return leaves.get(src(e))

    def unit_vec(e: ast.AST, depth: int = 8):
        """(first element, number of elements) of a vector with unit step"""
        if depth < 0:
            raise NonAffine(src(e))
        if isinstance(e, ast.Name):
            d = w.single_def(e.id)
            if d is None or d[0] != 'value':
                raise NonAffine(src(e))
            return unit_vec(d[1], depth - 1)
        if isinstance(e, ast.BinOp) and isinstance(e.op, (ast.Add, ast.Sub)):
            try:
                a0, n0 = unit_vec(e.left, depth - 1)
                k = aff_of(e.right, leaf)
                return (a0 + k if isinstance(e.op, ast.Add) else a0 - k), n0
            except NonAffine:
                if isinstance(e.op, ast.Add):
                    a0, n0 = unit_vec(e.right, depth - 1)
                    return a0 + aff_of(e.left, leaf), n0
                raise
        if isinstance(e, ast.Call) and isinstance(e.func, ast.Attribute) and \
                e.func.attr == 'astype' and len(e.args) == 1 and \
                src(e.args[0]) in ('float', 'np.float64', 'np.float_'):
            return unit_vec(e.func.value, depth - 1)       # the same numbers as floats
        if isinstance(e, ast.Call) and src(e.func) in ('np.asarray', 'np.array') and \
                len(e.args) == 1 and set(k.arg for k in e.keywords) <= {'dtype'}:
            return unit_vec(e.args[0], depth - 1)
        if isinstance(e, ast.Call) and src(e.func) in ('np.linspace', 'numpy.linspace'):
            kw = {k.arg: k.value for k in e.keywords}
            args = list(e.args)
            num = kw.get('num', args[2] if len(args) > 2 else None)
            if len(args) < 2 or num is None or set(kw) - {'num', 'endpoint', 'dtype'} or \
                    ('endpoint' in kw and src(kw['endpoint']) != 'True'):
                raise NonAffine(src(e))
            a0, b0, n0 = aff_of(args[0], leaf), aff_of(args[1], leaf), aff_of(num, leaf)
            if b0 - a0 != n0 - 1:
                raise NonAffine(f'{src(e)}: not a unit step')
            return a0, n0
        if isinstance(e, ast.Call) and src(e.func) in ('np.arange', 'numpy.arange') and \
                not e.keywords and 1 <= len(e.args) <= 2:
            if len(e.args) == 1:
                return Aff.const(0), aff_of(e.args[0], leaf)
            a0, b0 = aff_of(e.args[0], leaf), aff_of(e.args[1], leaf)
            return a0, b0 - a0
        raise NonAffine(src(e))
    atan = [n for n in ast.walk(view(index, f)[0]) if isinstance(n, ast.Call)
            and src(n.func) in ('np.arctan2', 'numpy.arctan2', 'math.atan2') and len(n.args) == 2]
    if len(atan) != 1:
        rep.undecided(rule, f'{RT}:compute_rays_fancy', 'directions are not computed by one '
                      'arctan2 over a grid of corner offsets')
        return
    grids = []
    for a in atan[0].args:
        d = None
        if isinstance(a, ast.Name):
            ds = w.defs.get(a.id, [])
            d = ds[0] if len(ds) == 1 else None
        if d is None or d[0] != 'unpack' or not (
                isinstance(d[1][0], ast.Call) and
                src(d[1][0].func) in ('np.meshgrid', 'numpy.meshgrid') and
                len(d[1][0].args) == 2 and not d[1][0].keywords):
            raise AnalysisError('compute_rays_fancy: arctan2 is not applied to the two grids of '
                                'one np.meshgrid(ys, xs)')
        grids.append(d[1][0].args[d[1][1]])
    try:
        (y0, ny), (x0, nx) = unit_vec(grids[0]), unit_vec(grids[1])
    except NonAffine as ex:
        raise AnalysisError(f'compute_rays_fancy: corner offsets `{ex}` are not unit-step '
                            f'vectors the rule reads')
    half = Aff.const(Fraction(1, 2))
    want = ((S('ymin') - half - S('py'), S('ymax') - S('ymin') + 2),
            (S('xmin') - half - S('px'), S('xmax') - S('xmin') + 2))
    for axis, got, exp in (('rows', (y0, ny), want[0]), ('columns', (x0, nx), want[1])):
        rep.check(got == exp, rule, RT, 'compute_rays_fancy', f.node.lineno,
                  f'{axis}: first {got[0]}, count {got[1]}',
                  f'the {axis} of the corner grid start at {got[0]} ({got[1]} values); the cell '
                  f'corners of the area relative to the origin start at {exp[0]} ({exp[1]} '
                  f'values): for an area that does not start where the code assumes, sectors of '
                  f'the area get no ray', f'fan targets {axis}')


def full_circle(index: RepoIndex, rep, rule: str) -> None:
    """the evenly spaced fan of compute_rays goes all the way round: its N directions are
    k * (2*pi / N) for k = 0 .. N-1.  The direction expression is read from the comprehension
    that feeds `radians=` and evaluated as a constant expression in math.pi at k = 0, 1, N/2
    and N-1 (constant folding of a literal formula, not an execution of the repository)."""
    import math
    from ..view import view
    f = index.func(RT, 'compute_rays')
    node, w, _ = view(index, f)
    calls = [e for e in w.events if e.kind == 'call' and src(e.node.func) == 'compute_ray']
    site = f'{RT}:compute_rays:{f.node.lineno}'
    if len(calls) != 1:
        rep.undecided(rule, site, f'{len(calls)} compute_ray call sites')
        return
    kw = {k.arg: k.value for k in calls[0].node.keywords}
    rad = kw.get('radians')
    if not isinstance(rad, ast.Name) or not calls[0].loops:
        rep.undecided(rule, site, 'direction is not a loop variable')
        return
    it = None
    for t, i in calls[0].loops:
        if src(t) == rad.id:
            it = w.expand(i)
    if isinstance(it, ast.Call) and src(it.func) in ('list', 'tuple', 'iter') and \
            len(it.args) == 1:
        it = it.args[0]
    if isinstance(it, ast.Call) and isinstance(it.func, ast.Name) and not it.keywords:
        # a helper that makes the directions: read its single returned expression with the
        # literal arguments of this call in place of its parameters
        import copy
        from ..index import Func as _Func
        from ..inline import _SubstNames
        h = index.resolve_name(f.module, it.func.id)
        if isinstance(h, _Func) and len(h.node.args.args) == len(it.args):
            hw = walk_function(h.node)
            hr = [e for e in hw.events if e.kind == 'return' and e.value is not None]
            if len(hr) == 1:
                sub = {a.arg: v for a, v in zip(h.node.args.args, it.args)}
                it = _SubstNames(sub).visit(copy.deepcopy(hw.expand(hr[0].value)))
    if not (isinstance(it, (ast.GeneratorExp, ast.ListComp)) and len(it.generators) == 1
            and not it.generators[0].ifs and isinstance(it.generators[0].target, ast.Name)):
        rep.undecided(rule, site, f'directions `{src(it)[:80] if it is not None else "?"}` are '
                      f'not a comprehension over range(N)')
        return
    g0 = it.generators[0]
    rng_ = w.expand(g0.iter)
    if not (isinstance(rng_, ast.Call) and src(rng_.func) == 'range' and len(rng_.args) == 1
            and isinstance(rng_.args[0], ast.Constant) and isinstance(rng_.args[0].value, int)
            and rng_.args[0].value > 0):
        rep.undecided(rule, site, f'directions iterate over `{src(rng_)[:60]}`')
        return
    N, var = rng_.args[0].value, g0.target.id
    elt = w.expand(it.elt, stop=[var])

    class Unknown(Exception):
        pass

    def ev(e, k):
        if isinstance(e, ast.Constant) and isinstance(e.value, (int, float)) and \
                not isinstance(e.value, bool):
            return e.value
        if isinstance(e, ast.Name) and e.id == var:
            return k
        if src(e) in ('math.pi', 'np.pi', 'numpy.pi', 'pi'):
            return math.pi
        if src(e) in ('math.tau', 'tau'):
            return math.tau
        if isinstance(e, ast.BinOp):
            a, b = ev(e.left, k), ev(e.right, k)
            if isinstance(e.op, ast.Add):
                return a + b
            if isinstance(e.op, ast.Sub):
                return a - b
            if isinstance(e.op, ast.Mult):
                return a * b
            if isinstance(e.op, ast.Div) and b != 0:
                return a / b
        if isinstance(e, ast.UnaryOp) and isinstance(e.op, ast.USub):
            return -ev(e.operand, k)
        if isinstance(e, ast.Call) and src(e.func) in ('math.radians', 'np.radians', 'np.deg2rad',
                                                       'numpy.radians', 'numpy.deg2rad') \
                and len(e.args) == 1 and not e.keywords:
            return math.radians(ev(e.args[0], k))
        if isinstance(e, ast.Call) and src(e.func) == 'float' and len(e.args) == 1:
            return float(ev(e.args[0], k))
        raise Unknown(src(e)[:60])
    try:
        pts = sorted({0, 1, N // 2, N - 1})
        got = [ev(elt, k) for k in pts]
    except Unknown as u:
        rep.undecided(rule, site, f'direction `{src(elt)[:80]}` is not a constant formula ({u})')
        return
    want = [k * 2 * math.pi / N for k in pts]
    ok = all(abs(a - b) <= 1e-9 * max(1.0, abs(b)) for a, b in zip(got, want))
    rep.check(ok, rule, RT, 'compute_rays', f.node.lineno, f'{src(elt)[:80]} for {var} in range({N})',
              f'the {N} directions of compute_rays are `{src(elt)[:60]}`, which at k = {pts} gives '
              f'{[round(x, 4) for x in got]} rad, not k*2*pi/{N} = {[round(x, 4) for x in want]}: '
              f'the fan does not go all the way round, so whole sides of the area are never swept',
              f'{N} directions, evenly round the circle')


def run(index: RepoIndex, rep) -> None:
    rep.rule('C19.R8', 'the evenly spaced fan (compute_rays) spans the full circle: N directions '
             'k*2*pi/N', floor=1)
    full_circle(index, rep, 'C19.R8')
    rep.rule('C19.R6', 'the fan of compute_rays_fancy is aimed at the cell corners of the area '
             'relative to the origin (necessary for coverage)', floor=1)
    fan_targets(index, rep, 'C19.R6')
    rep.rule('C19.R7', 'the counters of the ray-traced views can hold one count per ray of the '
             'fan (an unobstructed view shows every cell, the origin included; C06.R4)', floor=2)
    from ..inline import inlined_function
    from .c06 import _narrow_counters, _opacity_tables_to_cells
    for vn in ('raytracing', 'stochastic_raytracing'):
        vf = index.func('gym_gridverse/envs/visibility_functions.py', vn)
        vnode = _opacity_tables_to_cells(inlined_function(index, vf)[0],
                                         vf.node.args.args[0].arg)
        _narrow_counters(rep, vnode, vn, 'C19.R7')
        from .c06 import _sized_counters
        _sized_counters(index, rep, vf, 'C19.R7')
        rep.holds('C19.R7', f'gym_gridverse/envs/visibility_functions.py:{vn}',
                  'incremented arrays scanned for narrow element types')
    rep.rule('C19.R5', 'ray samples keep the row and the column coordinate apart (axis typing, E14)', floor=1)
    from ..axes import axis_rule
    axis_rule(index, rep, 'C19.R5', ('gym_gridverse/utils/raytracing.py',), floor=4)
    rep.rule('C19.R1', 'compute_ray: origin in area or ValueError; cells cut by '
             'takewhile(area.contains)', floor=3)
    rep.rule('C19.R2', 'rays start at the origin cell and are de-duplicated', floor=3)
    rep.rule('C19.R3', 'literal step 0 < step < 1 and unit direction at every call site',
             floor=4)
    rep.rule('C19.R4', 'ray functions are pure; cached results only read (C03.R4)', floor=3)
    TRACERS.clear()
    TRACERS.update(tracers(index))
    f0 = index.func(RT, 'compute_ray')
    # module helpers the body was split into (`_check_origin`, `_trace_ray`) are read through
    from ..index import Func as _Func
    from ..view import view as _view
    vnode = _view(index, f0)[0]
    f = _Func(f0.name, f0.module, vnode, f0.cls)
    w = walk_function(f.node)
    ps = [a.arg for a in f.node.args.args]
    pos, area = ps[0], ps[1]
    # ---- R1
    raises = [e for e in w.events if e.kind == 'raise']
    from ..guards import show, strip_iter
    ok = any(show(strip_iter(e.guard)) == f'not ({area}.contains({pos}))'
             and e.value is not None and src(e.value).startswith('ValueError(') for e in raises)
    rep.check(ok, 'C19.R1', RT, 'compute_ray', f.node.lineno,
              '; '.join(src(e.stmt) for e in raises) or 'no raise',
              'compute_ray does not reject an origin outside the area with ValueError',
              'origin in area')
    model = ray_model(f, w, pos, area)
    rep.check(model['cut'], 'C19.R1', RT, 'compute_ray', f.node.lineno, model['cut_text'][:300],
              'the stream of cells is not cut at the first cell outside the area '
              '(takewhile(area.contains, ..) / break when not area.contains(cell)): a ray could '
              'leave the area or be cut elsewhere', 'takewhile(area.contains)')
    rep.check(model['order'], 'C19.R1', RT, 'compute_ray', f.node.lineno,
              model['cut_text'][:300],
              'cells are not generated (rounded samples) before being cut by the area test',
              'pipeline order')
    # ---- R2
    d = f.param_defaults()
    ok = model['dedupe'] and (not model['dedupe_conditional'] or (
        isinstance(d.get('unique'), ast.Constant) and d['unique'].value is True))
    rep.check(ok, 'C19.R2', RT, 'compute_ray', f.node.lineno, model['dedupe_text'][:200],
              'cells are not de-duplicated (unique_everseen / skipping a repeat of the previous '
              'cell) under the default unique=True', 'unique_everseen by default')
    rep.check(model['rounding'], 'C19.R2', RT, 'compute_ray', f.node.lineno,
              model['cell_text'][:200],
              'cells are not Position(round(y), round(x)) of the two sample streams', 'rounding')
    rep.check(model['samples'], 'C19.R2', RT, 'compute_ray', f.node.lineno,
              model['sample_text'][:300],
              'samples are not origin + i*step*(sin, cos)(angle) for i = 0, 1, ..: the ray '
              'would not start at its origin or its direction is not a unit vector',
              'samples from the origin along a unit direction')
    # ---- R3 call sites
    n_sites = 0
    for g in index.all_functions(PKG):
        for n in ast.walk(g.node):
            if isinstance(n, ast.Call) and src(n.func) in TRACERS and \
                    not (g.name == 'compute_ray' and src(n.func) != 'compute_ray'):
                n_sites += 1
                if not TRACERS[src(n.func)]:
                    rep.check(_origin_checked(index, g, n), 'C19.R1', g.relpath, g.short,
                              n.lineno, src(n)[:100],
                              f'{g.short} traces rays with {src(n.func)}, which does not '
                              f'validate the origin, without rejecting an origin outside the '
                              f'area first', f'{g.short}: origin validated before tracing')
                kw = {k.arg: k.value for k in n.keywords}
                st = kw.get('step_size')
                okv = isinstance(st, ast.Constant) and isinstance(st.value, (int, float)) \
                    and 0 < st.value < 1
                rep.check(okv, 'C19.R3', g.relpath, g.short, n.lineno, src(n),
                          f'step_size is `{src(st) if st is not None else None}`, not a literal '
                          f'in (0, 1): consecutive cells need not be adjacent', 'literal step')
                un = kw.get('unique')
                rep.check(un is None or (isinstance(un, ast.Constant) and un.value is True),
                          'C19.R3', g.relpath, g.short, n.lineno, src(n),
                          'a caller disables de-duplication (unique=False)', 'unique left on')
    if n_sites < 1:
        raise AnalysisError('found no call site of compute_ray')
    # both public ray sets are made of compute_ray rays (directly or through a helper)
    rtm = index.module(RT)

    def reaches(fn, seen=()) -> bool:
        for n in ast.walk(fn.node):
            if isinstance(n, ast.Call) and isinstance(n.func, ast.Name):
                if n.func.id in TRACERS:
                    return True
                h = rtm.functions.get(n.func.id)
                if h is not None and h.name not in seen and reaches(h, seen + (h.name,)):
                    return True
        return False
    for name in ('compute_rays', 'compute_rays_fancy'):
        fn = index.func(RT, name)
        rep.check(reaches(fn, (name,)), 'C19.R3', RT, name, fn.node.lineno, name,
                  f'{name} does not build its rays with compute_ray', f'{name} uses compute_ray')
        # every ray handed out is a compute_ray(position, area, ..) result: that is what keeps
        # it inside the area, connected and ending on the border
        kinds = ray_sources(index, fn)
        built = [t for k, t in kinds if k == 'built']
        rep.check(not built, 'C19.R1', RT, name, fn.node.lineno, '; '.join(built)[:200] or name,
                  f'{name} hands out a ray that is not a compute_ray(position, area, ..) '
                  f'result (`{built[0][:80] if built else ""}`): nothing cuts it at the area',
                  f'{name}: {len(kinds)} ray sources are compute_ray results')
    # ---- R4
    eff = Effects(index)
    from .c03 import memo_rules
    memo_rules(index, rep, 'C19.R4', eff, only_rel=RT)
    for name in ('compute_ray', 'compute_rays', 'compute_rays_fancy'):
        fn = index.func(RT, name)
        s = eff.summary(fn)
        rep.check(not s.mut_params and not s.global_writes, 'C19.R4', RT, name, fn.node.lineno,
                  name, f'{name} mutates {sorted(s.mut_params)} / writes '
                  f'{sorted(s.global_writes)}', f'{name} pure')
    mod = index.module(RT)
    for cname, target in (('cached_compute_rays', 'compute_rays'),
                          ('cached_compute_rays_fancy', 'compute_rays_fancy')):
        vals = mod.assigns.get(cname, [])
        ok = len(vals) == 1 and src(vals[0]) in (f'lru_cache()({target})',
                                                 f'lru_cache(maxsize=None)({target})',
                                                 f'functools.lru_cache()({target})',
                                                 f'cache({target})')
        rep.check(ok, 'C19.R4', RT, cname, getattr(vals[0], 'lineno', 1) if vals else 1,
                  src(vals[0]) if vals else cname,
                  f'{cname} is not the memoised {target} (keyed by its full input)',
                  f'{cname} memoises {target}')
