"""C13 -- reset functions always produce well-formed initial states (partial, three-valued)."""
from __future__ import annotations

import ast
import itertools
import math
from fractions import Fraction
from typing import Any, Dict, List, Optional, Tuple

from ..affine import Aff
from ..boolean import Kind, ObjectModel
from ..core import AnalysisError, src
from ..guards import walk_function
from ..index import Func, RepoIndex
from ..resetmodel import RESET, Ctx, ListInfo, ResetInterp, Write

EXPLANATION = (
    'Abstract interpretation of the eight reset functions (callee resets inlined, one run per '
    'combination of boolean parameters): drawn coordinates become symbols with affine '
    'interval bounds (rng.integers supports, // 2), position lists carry their filters (Floor '
    'at the time they are built, `!= agent position`, excluded constant cells), samples carry '
    'replace=False, writes carry class, colour and region. Decided: (R1) every raise is a '
    'ValueError and parameters are not validated by assert; (R2) multi-element draws are '
    'without replacement; (R3) inventory by data flow (one Exit in empty; a LOCKED door drawn '
    'from the wall line with a key of the same colour; two pods of one colour on a 2-sample; '
    'beacon colour = colour of one exit, all from one without-replacement draw; sample size = '
    'num_obstacles); (R4) separation of the agent cell from every Exit / MovingObstacle / '
    'Telepod / blocking write by one of four idioms -- Floor-filter built after the write, '
    'list excluding the agent cell, joint without-replacement sample, interval disjointness '
    'under the ValueError facts (relational bounds such as x_agent <= x_wall-1 kept) -- with '
    'three verdicts: proved, refuted with a concrete witness, undecided (listed, never '
    'alarmed); (R5) a full wall boundary is drawn and later non-wall writes are strictly '
    'inside it.')
TRUSTED = ['numpy: integers(lo, hi) support, choice(replace=False) distinctness and '
           'ValueError on impossible requests',
           'shape of the result, existence of enough floor cells and counts for all parameter '
           'values are declined']

BAD = {'Exit', 'MovingObstacle', 'Telepod'}


def blocking_classes(om: ObjectModel) -> set:
    out = set()
    for k in om.kinds:
        if om.flag(k, 'blocks_movement') is True:
            out.add(k.cls)
    return out


def interior(cx: Ctx, y: Aff, x: Aff) -> bool:
    one = Aff.const(1)
    return cx.le(one, y) and cx.le(y, Aff.sym('h') - 2) and cx.le(one, x) and \
        cx.le(x, Aff.sym('w') - 2)


def cell_disjoint_region(cx: Ctx, cell, reg) -> Optional[str]:
    """proof that a ('cell', y, x) is outside a region, or None"""
    _, y, x = cell
    if reg is None:
        return None
    k = reg[0]
    if k == 'cell':
        _, wy, wx = reg
        for a, b, nm in ((y, wy, 'row'), (x, wx, 'column')):
            if a is not None and b is not None and (cx.lt(a, b) or cx.lt(b, a)):
                return f'(d) {nm}s differ: {a} vs {b}'
        return None
    if k == 'border':
        return '(d) strictly inside the boundary' if interior(cx, y, x) else None
    if k == 'box':
        _, ylo, yhi, xlo, xhi = reg
        if ylo is not None and cx.lt(y, ylo):
            return f'(d) row {y} above the line ({ylo})'
        if yhi is not None and cx.lt(yhi, y):
            return f'(d) row {y} below the line ({yhi})'
        if xlo is not None and cx.lt(x, xlo):
            return f'(d) column {x} left of the line ({xlo})'
        if xhi is not None and cx.lt(xhi, x):
            return f'(d) column {x} right of the line ({xhi})'
        return None
    return None


def witness(cx: Ctx, cell, reg) -> Optional[Dict[str, int]]:
    """concrete integers (within the true supports) where the cell lies in the region"""
    if reg is not None and reg[0] == 'border':
        # the four lines of the boundary, as boxes
        z, one = Aff.const(0), Aff.const(1)
        H, W = Aff.sym('h'), Aff.sym('w')
        for box in (('box', z, z, z, W - one), ('box', H - one, H - one, z, W - one),
                    ('box', z, H - one, z, z), ('box', z, H - one, W - one, W - one)):
            r = witness(cx, cell, box)
            if r is not None:
                return r
        return None
    if reg is None or reg[0] not in ('cell', 'box'):
        return None
    syms = list(cx.order)
    if any(not cx.bounds[s][2] for s in syms):
        # a symbol whose interval is an over-approximation (// 2): only proofs, no refutations
        pass
    base = [s for s in syms if s in ('h', 'w')]
    others = [s for s in syms if s not in ('h', 'w')]
    _, y, x = cell
    used = set(y.symbols() | x.symbols())
    if reg[0] == 'cell':
        for f in reg[1:]:
            used |= f.symbols()
    else:
        for f in reg[1:]:
            if f is not None:
                used |= f.symbols()
    # close under bounds
    changed = True
    while changed:
        changed = False
        for s in list(used):
            lo, hi, _ = cx.bounds.get(s, (None, None, True))
            for b in (lo, hi):
                if b is not None and not (b.symbols() <= used):
                    used |= b.symbols()
                    changed = True
    others = [s for s in others if s in used]
    finite = getattr(cx, 'sym_values', {})
    if any(not cx.bounds[s][2] and s not in finite for s in others):
        return None
    for vals in itertools.product(range(0, 4), repeat=len(base)):
        asg: Dict[str, Fraction] = {}
        for s, v in zip(base, vals):
            lo = cx.bounds[s][0]
            asg[s] = (lo.k if lo is not None else 1) + v

        def rec(i: int, asg: Dict[str, Fraction]):
            if i == len(others):
                yy, xx = y.eval(asg), x.eval(asg)
                if reg[0] == 'cell':
                    hit = yy == reg[1].eval(asg) and xx == reg[2].eval(asg)
                else:
                    _, ylo, yhi, xlo, xhi = reg
                    if None in (ylo, yhi, xlo, xhi):
                        return None
                    hit = ylo.eval(asg) <= yy <= yhi.eval(asg) and \
                        xlo.eval(asg) <= xx <= xhi.eval(asg)
                return dict(asg) if hit else None
            s = others[i]
            lo, hi, _ = cx.bounds[s]
            if s in finite:
                # a draw from a literal list: exactly its elements
                try:
                    cands = sorted({f_.eval(asg) for f_ in finite[s]})
                except KeyError:
                    return None
                for v in cands:
                    r = rec(i + 1, {**asg, s: Fraction(v)})
                    if r:
                        return r
                return None
            try:
                l, h_ = lo.eval(asg), hi.eval(asg)
            except KeyError:
                return None
            for v in range(math.ceil(l), math.floor(h_) + 1):
                r = rec(i + 1, {**asg, s: Fraction(v)})
                if r:
                    return r
            return None
        r = rec(0, asg)
        if r:
            return {k.split('#')[0]: int(v) for k, v in r.items()}
    return None


def cell_is_floor_at(cx: Ctx, cell, t: int, bad_cls: set) -> bool:
    """the constant cell is provably a Floor cell at time t (interior, not overwritten)"""
    for w in cx.writes:
        if w.time >= t or w.cls == 'Floor':
            continue
        if cell_disjoint_region(cx, cell, w.region) is None:
            return False
    return True


def separated(cx: Ctx, w: Write) -> Tuple[str, str]:
    """('proved'|'refuted'|'undecided', explanation) for the final agent cell vs write w"""
    if cx.agent is None or cx.agent[0] is None:
        return 'undecided', 'agent position not understood'
    ag, ta = cx.agent[0], cx.agent[1]
    reg = w.region
    # (a) agent drawn from a Floor-filtered list built after the write
    if ag[0] == 'elem' and ag[1].kind == 'floor' and ag[1].time > w.time:
        return 'proved', '(a) agent drawn from a Floor-filtered list built after the write'
    if ag[0] == 'selem':
        base, size, nrep = cx.samples[ag[1]]
        if base.kind == 'floor' and base.time > w.time and \
                not (reg and reg[0] in ('selem', 'sslice', 'sall') and reg[1] == ag[1]):
            return 'proved', '(a) agent sampled from a Floor-filtered list built after the write'
        if reg and reg[0] in ('selem', 'sslice', 'sall') and reg[1] == ag[1]:
            # (c) same sample
            if not nrep:
                return 'refuted', (f'agent and {w.cls} cells come from one sample drawn WITH '
                                   f'replacement: they can coincide')
            if reg[0] == 'selem' and reg[2] != ag[2]:
                return 'proved', '(c) distinct elements of one without-replacement sample'
            if reg[0] == 'sslice':
                lo = reg[2]
                try:
                    lo_v = int(lo)
                except ValueError:
                    # `1 + num_beacons` with num_beacons >= 1 (ValueError fact): at least 2
                    lo_v = 2 if lo.replace(' ', '').startswith('1+') else None
                try:
                    hi_v = int(reg[3])
                except ValueError:
                    hi_v = None
                if isinstance(ag[2], int) and lo_v is not None and ag[2] < lo_v:
                    return 'proved', (f'(c) agent is element {ag[2]}, the {w.cls} cells are the '
                                      f'slice [{reg[2]}:{reg[3]}] of one without-replacement '
                                      f'sample')
                if isinstance(ag[2], int) and lo_v is not None and ag[2] >= lo_v and \
                        (reg[3] == 'end' or (hi_v is not None and ag[2] < hi_v)):
                    return 'refuted', (f'agent is element {ag[2]} of the sample and the {w.cls} '
                                       f'cells are its slice [{reg[2]}:{reg[3]}], which contains '
                                       f'it')
                return 'undecided', f'agent element {ag[2]} vs slice [{reg[2]}:{reg[3]}]'
            if reg[0] == 'sall':
                return 'refuted', f'the agent cell is itself one of the sampled {w.cls} cells'
            return 'undecided', 'same sample, indices not understood'
    # the agent itself is drawn from a list that is not filtered to Floor cells
    alist = None
    if ag[0] == 'elem':
        alist = ag[1]
    elif ag[0] == 'selem':
        alist = cx.samples[ag[1]][0]
    if alist is not None and alist.kind in ('inside', 'all') and w.time < ta:
        if reg and reg[0] == 'border' and alist.kind == 'inside':
            return 'proved', '(a) agent drawn from the strict interior'
        wcell = reg if reg and reg[0] == 'cell' else None
        if wcell is None and reg and reg[0] == 'elem' and reg[1].kind in ('inside', 'all', 'floor'):
            return 'refuted', (f'the agent is drawn from `{alist.text[:60]}`, which is not '
                               f'filtered to Floor cells, after a {w.cls} was placed on a cell of '
                               f'the same region: they can coincide')
        if wcell is not None and wcell[1] is not None and wcell[2] is not None and \
                (alist.kind == 'all' or interior(cx, wcell[1], wcell[2])) and not (
                    alist.excl_cell is not None and alist.excl_cell[1] == wcell[1]
                    and alist.excl_cell[2] == wcell[2]):
            return 'refuted', (f'the agent is drawn from `{alist.text[:60]}`, which is not '
                               f'filtered to Floor cells and contains the {w.cls} cell '
                               f'({wcell[1]}, {wcell[2]})')
    # the agent was drawn *before* the write, from a list that contains the cell written later
    # (the Floor filter of that list says nothing about objects placed afterwards)
    if alist is not None and alist.kind in ('floor', 'inside', 'all') and alist.time < w.time \
            and reg and reg[0] == 'cell' and reg[1] is not None and reg[2] is not None:
        wc = ('cell', reg[1], reg[2])
        in_list = alist.kind == 'all' or interior(cx, reg[1], reg[2])
        excluded = alist.excl_cell is not None and alist.excl_cell[1] == reg[1] \
            and alist.excl_cell[2] == reg[2]
        if in_list and not excluded and \
                (alist.kind != 'floor' or cell_is_floor_at(cx, wc, alist.time, BAD)):
            return 'refuted', (f'the agent is drawn from `{alist.text[:60]}` before the {w.cls} '
                               f'is placed on ({reg[1]}, {reg[2]}), a cell of that list: the '
                               f'agent can start on it')
    # (b) written cells drawn from a list excluding the agent's cell
    lst: Optional[ListInfo] = None
    if reg and reg[0] == 'elem':
        lst = reg[1]
    elif reg and reg[0] in ('selem', 'sslice', 'sall'):
        lst = cx.samples[reg[1]][0]
    if lst is not None and lst.kind in ('floor', 'inside', 'all'):
        if lst.excl_agent is not None:
            ex_val, ex_t = lst.excl_agent
            if _same_value(ex_val, ag):
                return 'proved', '(b) cells drawn from a list that excludes the agent position'
            return 'undecided', 'the excluded position is not the final agent position'
        if lst.excl_cell is not None and ag[0] == 'cell' and \
                ag[1] == lst.excl_cell[1] and ag[2] == lst.excl_cell[2]:
            return 'proved', '(b) cells drawn from a list that excludes the agent\'s fixed cell'
        # no exclusion: refuted when the agent's cell is certainly in the list
        if ag[0] == 'cell' and ag[1].is_const() and ag[2].is_const() and ta >= 0:
            inside = interior(cx, ag[1], ag[2])
            floor_ok = lst.kind in ('inside', 'all') or cell_is_floor_at(cx, ag, lst.time, BAD)
            if inside and floor_ok and (ta < lst.time or True):
                return 'refuted', (f'the {w.cls} cell is drawn from `{lst.text[:70]}`, which does '
                                   f'not exclude the agent\'s cell ({ag[1]}, {ag[2]})')
        if ag[0] in ('elem', 'selem'):
            return 'refuted', (f'the {w.cls} cell is drawn from `{lst.text[:70]}`, which does not '
                               f'exclude the agent position fixed earlier')
        return 'undecided', 'list without exclusion, agent cell not constant'
    # (e) the agent's cell is carved to Floor after the write
    if ag[0] == 'cell' and ag[1] is not None and ag[2] is not None and w.cls != 'Floor':
        for f2 in cx.writes:
            if f2.time > w.time and f2.cls == 'Floor' and f2.region and f2.region[0] == 'box' \
                    and all(v is not None for v in f2.region[1:]):
                _, ylo, yhi, xlo, xhi = f2.region
                if cx.le(ylo, ag[1]) and cx.le(ag[1], yhi) and cx.le(xlo, ag[2]) and \
                        cx.le(ag[2], xhi):
                    later_bad = [b for b in cx.writes if b.time > f2.time and b.cls != 'Floor'
                                 and cell_disjoint_region(cx, ag, b.region) is None]
                    if not later_bad:
                        return 'proved', (f'(e) the agent cell lies in `{f2.text[:50]}`, carved '
                                          f'to Floor after the write')
    # (d) intervals
    if ag[0] == 'cell' and ag[1] is not None and ag[2] is not None:
        why = cell_disjoint_region(cx, ag, reg)
        if why:
            return 'proved', why
        if reg and reg[0] == 'elem' and reg[1].kind == 'line' and reg[1].region is not None:
            why = cell_disjoint_region(cx, ag, reg[1].region)
            if why:
                return 'proved', why + ' (cell drawn from that line)'
        wit = witness(cx, ag, reg)
        if wit is not None:
            return 'refuted', f'the agent cell can coincide with the {w.cls} cell: {wit}'
        if reg and reg[0] == 'all':
            later = [f2 for f2 in cx.writes if f2.time > w.time and f2.cls != w.cls]
            if all(cell_disjoint_region(cx, ag, f2.region) is not None for f2 in later):
                return 'refuted', (f'the whole grid is filled with {w.cls} and no later write '
                                   f'reaches the agent cell ({ag[1]}, {ag[2]})')
    return 'undecided', 'no idiom applies'


def _same_value(a, b) -> bool:
    if a is None or b is None:
        return False
    if a[0] == 'cell' and b[0] == 'cell':
        return a[1] == b[1] and a[2] == b[2]
    if a[0] == b[0] == 'elem':
        return a[1].time == b[1].time and a[1].text == b[1].text
    return a == b


def requested_number(index: RepoIndex, rep, rule: str, f, pname: str) -> None:
    """the count parameter reaches its use as given: every re-binding of it either keeps the
    value of every non-negative integer request (`int(n)`, a conversion) or happens under a
    condition no integer request satisfies.  Conditions and values are evaluated over the
    requests 0..8 (extracted expressions, never the code)."""
    from ..guards import show, strip_iter, walk_function
    from ..inteval import CannotEval, ev
    w = walk_function(f.node)
    defs = [d for d in w.defs.get(pname, [])]

    def call(e, env):
        fs = src(e.func)
        if fs in ('int', 'round') and len(e.args) == 1:
            return int(round(ev(e.args[0], env, call)))
        if fs == 'float' and len(e.args) == 1:
            return ev(e.args[0], env, call)
        if fs == 'len':
            return env.get('<len>', 7)
        return NotImplemented
    bad = None
    for d in defs:
        if d[0] != 'value':
            bad = (None, f'`{pname}` is re-bound by unpacking / iteration')
            break
        try:
            gexpr = ast.parse(show(w.expand_formula(strip_iter(d[3]), stop=[pname])),
                              mode='eval').body if d[3] != ('true',) else ast.Constant(True)
        except SyntaxError:
            raise AnalysisError(f'{f.name}: guard of the re-binding of `{pname}` outside the '
                                f'grammar')
        for k in range(0, 9):
            try:
                if ev(gexpr, {pname: k}, call) and ev(d[1], {pname: k}, call) != k:
                    bad = (k, f'a request of {k} becomes `{src(d[1])[:60]}`')
                    break
            except CannotEval as ex:
                raise AnalysisError(f'{f.name}: re-binding of `{pname}` outside the grammar: '
                                    f'{ex}')
        if bad:
            break
    rep.check(bad is None, rule, RESET, f.name, f.node.lineno,
              '; '.join(src(d[1])[:60] for d in defs if d[0] == 'value') or pname,
              f'{f.name} does not use the requested `{pname}` as given: '
              f'{bad[1] if bad else ""}', f'{f.name}: {pname} used as given')


def run(index: RepoIndex, rep) -> None:
    rep.rule('C13.R6', 'row and column quantities are not exchanged in the reset functions and the drawing helpers (axis typing, E14)', floor=1)
    from ..axes import axis_rule
    axis_rule(index, rep, 'C13.R6', ('gym_gridverse/envs/reset_functions.py', 'gym_gridverse/design.py'), floor=50)
    rep.rule('C13.R8', 'a reset function obtained by name receives exactly the parameters it '
             'was configured with (zero and the empty set included), so its own checks decide '
             'what is refused (C17.R4)', floor=10)
    from .c17 import factory_rules
    factory_rules(index, rep, 'C13.R8')
    from .wiring import draw_helpers_always_draw
    draw_helpers_always_draw(index, rep, 'C13.R1')
    rep.rule('C13.R1', 'error discipline: every raise is ValueError; parameters are not '
             'validated by assert', floor=14)
    rep.rule('C13.R2', 'draws of several cells/colours/columns are without replacement', floor=6)
    rep.rule('C13.R3', 'advertised inventory by data flow', floor=10)
    rep.rule('C13.R4', 'the agent cell is separated from exits, obstacles, telepods and '
             'blocking cells (proved / refuted with witness / undecided)', floor=25)
    rep.rule('C13.R7', 'the environment hands out the state its reset function built: '
             'GridWorld.functional_reset returns the result of the configured reset function '
             'unchanged', floor=1)
    from .wiring import reset_passthrough
    reset_passthrough(index, rep, 'C13.R7')
    rep.rule('C13.R5', 'a full wall boundary is drawn; later non-wall writes are inside it',
             floor=8)
    resets = index.registry('reset', 8)
    om = ObjectModel(index)
    blocking = blocking_classes(om)
    ri = ResetInterp(index)

    # ---------------------------------------------------------------- R1
    for name, f in sorted(resets.items()):
        w = walk_function(f.node)
        params = {p.arg for p in f.params()}
        for e in w.events:
            if e.kind != 'raise':
                continue
            if isinstance(e.stmt, ast.Assert):
                names = {n.id for n in ast.walk(e.stmt.test) if isinstance(n, ast.Name)}
                roots = {n for n in names if n in params}
                state_like = any(x in src(e.stmt.test) for x in ('grid[', '.grid', 'False'))
                rep.check(not roots or state_like or src(e.stmt.test) == 'False', 'C13.R1',
                          RESET, name, e.line, src(e.stmt),
                          f'parameter validation by `assert` ({src(e.stmt.test)[:60]}): fails '
                          f'with AssertionError (or not at all under -O) instead of ValueError',
                          f'{name}: assert is an internal invariant')
                continue
            exc = src(e.value) if e.value is not None else ''
            rep.check(exc.startswith('ValueError('), 'C13.R1', RESET, name, e.line, src(e.stmt)[:100],
                      f'{name} raises `{exc[:40]}` for an invalid parameter combination, not '
                      f'ValueError', f'{name}: raises ValueError')
    # the helpers the reset functions are built from (drawing, sampling) follow the same
    # discipline: whatever they refuse, they refuse with ValueError -- an `assert` on their
    # arguments turns an unsatisfiable request into AssertionError (or into nothing under -O)
    for rel in ('gym_gridverse/design.py', 'gym_gridverse/rng.py'):
        hm = index.module(rel)
        for hname, hf in sorted(hm.functions.items()):
            hw = walk_function(hf.node)
            hparams = {p.arg for p in hf.params()}
            for e in hw.events:
                if e.kind != 'raise':
                    continue
                if isinstance(e.stmt, ast.Assert):
                    if src(e.stmt.test) == 'False':
                        continue
                    # names of the test, through the locals they were computed from
                    names = {n.id for n in ast.walk(hw.expand(e.stmt.test))
                             if isinstance(n, ast.Name)}
                    rep.check(not (names & hparams), 'C13.R1', rel, hname, e.line,
                              src(e.stmt)[:100],
                              f'{hname} checks its arguments by `assert` '
                              f'({src(e.stmt.test)[:60]}): a reset function built on it fails '
                              f'with AssertionError instead of ValueError',
                              f'{hname}: no assert on arguments')
                    continue
                exc = src(e.value) if e.value is not None else ''
                if exc and not exc.startswith(('ValueError(', 'NotImplementedError(')):
                    rep.violation('C13.R1', rel, hname, e.line, src(e.stmt)[:100],
                                  f'{hname} raises `{exc[:40]}`, not ValueError')
    for rel, fname in (('gym_gridverse/geometry.py', 'Area.__post_init__'),):
        f = index.func(rel, fname)
        w = walk_function(f.node)
        for e in w.events:
            if e.kind == 'raise' and e.value is not None:
                rep.check(src(e.value).startswith('ValueError('), 'C13.R1', rel, fname, e.line,
                          src(e.stmt)[:80], 'a malformed area does not raise ValueError',
                          f'{fname}: ValueError')

    # ---------------------------------------------------------------- R2
    n_multi = 0
    for name, f in sorted(resets.items()):
        for n in ast.walk(f.node):
            if isinstance(n, ast.Call) and src(n.func) in ('choices', 'rng.choice'):
                kw = {k.arg: k.value for k in n.keywords}
                if 'size' not in kw:
                    continue
                if isinstance(kw['size'], ast.Constant) and kw['size'].value == 1:
                    continue
                n_multi += 1
                ok = 'replace' in kw and src(kw['replace']) == 'False'
                rep.check(ok, 'C13.R2', RESET, name, n.lineno, src(n)[:120],
                          f'{name} draws {src(kw["size"])} items '
                          f'{"with replacement" if "replace" in kw else "without stating replace=False"}'
                          f': two of them can coincide (agent on the exit, one pod instead of two, '
                          f'equal exit colours)', f'{name}: without replacement')
    ch = index.func('gym_gridverse/rng.py', 'choices')
    wch = walk_function(ch.node)
    a_ = ch.node.args
    pr = [x.arg for x in a_.posonlyargs + a_.args]
    kwn = a_.kwarg.arg if a_.kwarg else None
    rets = [e for e in wch.events if e.kind == 'return' and e.value is not None]
    okc = False
    got = ''
    if len(rets) == 1 and len(pr) >= 2 and kwn:
        v = wch.expand(rets[0].value)
        got = src(v)
        if isinstance(v, ast.ListComp) and len(v.generators) == 1 and \
                not v.generators[0].ifs and isinstance(v.generators[0].target, ast.Name):
            g_ = v.generators[0]
            it = g_.iter
            kws = {k.arg: src(k.value) for k in it.keywords} if isinstance(it, ast.Call) else {}
            okc = isinstance(it, ast.Call) and src(it.func) == f'{pr[0]}.choice' and \
                [src(x) for x in it.args] == [f'len({pr[1]})'] and \
                kws.get('size') == 'size' and kws.get(None) == kwn and \
                src(v.elt) == f'{pr[1]}[{g_.target.id}]'
    rep.check(okc, 'C13.R2', 'gym_gridverse/rng.py',
              'choices', ch.node.lineno, got[:160] or 'choices', 'rng.choices does not forward '
              'size and replace to Generator.choice over the indices and return the items at '
              'the drawn indices', 'choices forwards replace')

    # ---------------------------------------------------------------- runs
    runs: Dict[str, List[Ctx]] = {}
    for name, f in sorted(resets.items()):
        names = [p for p, d in f.param_defaults().items()
                 if isinstance(d, ast.Constant) and isinstance(d.value, bool)]
        runs[name] = []
        for combo in itertools.product((False, True), repeat=len(names)):
            fl = dict(zip(names, combo))
            for cx in ri.run(f, fl):
                cx.path = [f'{k}={v}' for k, v in fl.items()]
                runs[name].append(cx)
        if not runs[name]:
            raise AnalysisError(f'reset function {name}: no path reaches a return')

    # ---------------------------------------------------------------- R3
    inventory(index, rep, 'C13.R3', resets, runs)

    # ---------------------------------------------------------------- R4
    for name, f in sorted(resets.items()):
        for cx in runs[name]:
            path = ','.join(cx.path) or '-'
            if cx.agent is None:
                rep.violation('C13.R4', RESET, name, f.node.lineno, name,
                              f'{name}[{path}]: no agent is created')
                continue
            for w in cx.writes:
                cls = w.cls.rstrip('?')
                bad = w.cls in BAD or w.cls in blocking or w.cls == 'object_type?'
                if not bad:
                    continue
                verdict, why = separated(cx, w)
                site = f'{RESET}:{name}[{path}]:{w.line}'
                if verdict == 'proved':
                    rep.holds('C13.R4', site, f'agent vs {w.cls} `{w.text[:50]}`: {why}')
                elif verdict == 'undecided':
                    rep.undecided('C13.R4', site, f'agent vs {w.cls} `{w.text[:50]}`: {why}')
                else:
                    rep.violation('C13.R4', RESET, name, w.line, w.text,
                                  f'{name}[{path}]: the agent can start on a {w.cls} cell: {why}')
            # empty-handed
            rep.check(cx.agent_holds is None, 'C13.R4', RESET, name, cx.agent[3],
                      cx.agent_holds or 'Agent(position, orientation)',
                      f'{name}: the agent starts holding `{cx.agent_holds}`',
                      f'{name}[{path}]: empty-handed')

    # ---------------------------------------------------------------- R5
    for name, f in sorted(resets.items()):
        for cx in runs[name]:
            path = ','.join(cx.path) or '-'
            walls = [w for w in cx.writes if w.cls == 'Wall' and w.region and
                     w.region[0] in ('border', 'all', 'roomgrid')]
            rep.check(bool(walls), 'C13.R5', RESET, name, f.node.lineno, name,
                      f'{name}[{path}]: no full wall boundary is drawn (draw_wall_boundary / '
                      f'draw_room_grid / filled wall area)', f'{name}[{path}]: boundary drawn')
            if not walls:
                continue
            t0 = min(w.time for w in walls)
            for w in cx.writes:
                if w.time <= t0 or w.cls == 'Wall':
                    continue
                reg = w.region
                site = f'{RESET}:{name}[{path}]:{w.line}'
                ok = None
                if reg and reg[0] == 'cell' and reg[1] is not None and reg[2] is not None:
                    ok = interior(cx, reg[1], reg[2])
                    if not ok:
                        wit = witness(cx, reg, ('box', Aff.const(0), Aff.const(0),
                                                Aff.const(0), Aff.sym('w') - 1))
                        wit = wit or witness(cx, reg, ('box', Aff.sym('h') - 1, Aff.sym('h') - 1,
                                                       Aff.const(0), Aff.sym('w') - 1))
                        wit = wit or witness(cx, reg, ('box', Aff.const(0), Aff.sym('h') - 1,
                                                       Aff.const(0), Aff.const(0)))
                        wit = wit or witness(cx, reg, ('box', Aff.const(0), Aff.sym('h') - 1,
                                                       Aff.sym('w') - 1, Aff.sym('w') - 1))
                        if wit:
                            rep.violation('C13.R5', RESET, name, w.line, w.text,
                                          f'{name}[{path}]: a {w.cls} is written on the wall '
                                          f'boundary: {wit}')
                            continue
                        ok = None
                elif reg and reg[0] == 'box' and None not in reg[1:]:
                    ok = interior(cx, reg[1], reg[3]) and interior(cx, reg[2], reg[4])
                    if not ok:
                        ok = None
                elif reg and reg[0] in ('elem',) and reg[1].kind in ('floor', 'inside'):
                    ok = True
                elif reg and reg[0] in ('selem', 'sslice', 'sall') and \
                        cx.samples[reg[1]][0].kind in ('floor', 'inside'):
                    ok = True
                elif reg and reg[0] == 'elem' and reg[1].kind == 'line' and reg[1].region and \
                        None not in reg[1].region[1:]:
                    r = reg[1].region
                    ok = interior(cx, r[1], r[3]) and interior(cx, r[2], r[4]) or None
                if ok:
                    rep.holds('C13.R5', site, f'{w.cls} `{w.text[:50]}` strictly inside the '
                              f'boundary')
                else:
                    rep.undecided('C13.R5', site, f'{w.cls} `{w.text[:50]}`: position not '
                                  f'bounded by the analysis')
    # the boundary helpers themselves (read through their helpers, not matched as text)
    from ..guards import expand_under, strip_iter, truth_under
    from ..inline import inline_pure_exprs, pure_body_expr
    d = index.module('gym_gridverse/design.py')
    f = d.functions.get('draw_wall_boundary')
    da = d.functions.get('draw_area')
    if f is None or da is None:
        raise AnalysisError('anchor vanished: design.draw_wall_boundary / draw_area')
    e0 = pure_body_expr(f.node)
    okw = False
    if e0 is not None:
        e1 = inline_pure_exprs(index, d, None, e0, keep=('draw_area',))
        if isinstance(e1, ast.Call) and src(e1.func) == 'draw_area':
            ps = [a_.arg for a_ in da.node.args.args + da.node.args.kwonlyargs]
            got = dict(zip(ps, [src(a_) for a_ in e1.args]))
            got.update({k.arg: src(k.value) for k in e1.keywords})
            gp = f.node.args.args[0].arg
            dflt = {k: (src(v) if v is not None else None)
                    for k, v in da.param_defaults().items()}
            okw = got.get(ps[0]) == gp and got.get(ps[1]) == f'{gp}.area' and \
                got.get(ps[2]) == 'Wall' and got.get('fill', dflt.get('fill')) == 'False'
    rep.check(okw, 'C13.R5', d.relpath, 'draw_wall_boundary', f.node.lineno,
              src(e0) if e0 is not None else 'draw_wall_boundary',
              'draw_wall_boundary does not draw walls around the whole grid area',
              'draw_wall_boundary')
    # draw_area: every selected position of the area receives a fresh object of the factory;
    # the selection is the border unless `fill`
    w = walk_function(da.node)
    gp, ap, fp = [a_.arg for a_ in da.node.args.args[:3]]
    stores = [e for e in w.events if e.kind == 'store' and isinstance(e.target, ast.Subscript)
              and src(e.target.value) == gp]
    okd = bool(stores)
    sel_seen = {}
    for fill in (False, True):
        at = lambda a_, fill=fill: fill if src(a_) == 'fill' else None      # noqa: E731
        live = [e for e in stores if truth_under(strip_iter(e.guard), at) is not False]
        okd = okd and len(live) == 1
        for e in live:
            okd = okd and truth_under(strip_iter(e.guard), at) is True and \
                src(e.value) == f'{fp}()' and len(e.loops) == 1 and \
                src(e.target.slice) == src(e.loops[0][0])
            if e.loops:
                it = expand_under(w, e.loops[0][1], at)
                while isinstance(it, ast.Call) and src(it.func) in ('list', 'tuple') and \
                        len(it.args) == 1:
                    it = it.args[0]
                sel = None
                if isinstance(it, ast.Call) and src(it.func) == f'{ap}.positions':
                    a0 = it.args[0] if it.args else next(
                        (k.value for k in it.keywords if k.arg == 'selection'), None)
                    if isinstance(a0, ast.IfExp) and src(a0.test) == 'fill':
                        a0 = a0.body if fill else a0.orelse
                    elif isinstance(a0, ast.IfExp) and src(a0.test) == 'not fill':
                        a0 = a0.orelse if fill else a0.body
                    sel = "'all'" if a0 is None else src(a0)
                sel_seen[fill] = sel
    okd = okd and sel_seen.get(False) == "'border'" and sel_seen.get(True) == "'all'"
    rep.check(okd, 'C13.R5', d.relpath, 'draw_area', da.node.lineno,
              '; '.join(src(e.stmt) for e in stores)[:120] or 'draw_area',
              f'draw_area does not write a fresh object on every border (or, when filling, '
              f'every) position of the area (selections read: {sel_seen})', 'draw_area')
    # Area.positions: the border selection is exactly the border, the inside selection exactly
    # the strict interior (denotation of the method at eight small areas, see c11.scan_once)
    from .c11 import scan_once
    scan_once(index, rep, 'C13.R5', declare=False)


def overwritten(cx: Ctx, e: Write):
    """later writes that may land on the cell of write `e` (an exit): [(write, verdict, why)]"""
    out = []
    if not e.region or e.region[0] != 'cell':
        return out
    cell = e.region
    for w in cx.writes:
        if w.time <= e.time or w is e:
            continue
        reg = w.region
        lst = None
        if reg and reg[0] == 'elem':
            lst = reg[1]
        elif reg and reg[0] in ('selem', 'sslice', 'sall'):
            lst = cx.samples[reg[1]][0]
        if lst is not None:
            if lst.kind == 'floor' and lst.time > e.time:
                out.append((w, 'proved', 'drawn from a Floor-filtered list built after the exit'))
            elif lst.kind == 'line' and lst.region is not None and \
                    cell_disjoint_region(cx, cell, lst.region):
                out.append((w, 'proved', 'drawn from a line that misses the exit'))
            elif lst.kind in ('inside', 'all') and not (
                    lst.excl_cell is not None and lst.excl_cell[1] == cell[1]
                    and lst.excl_cell[2] == cell[2]) and interior(cx, cell[1], cell[2]):
                out.append((w, 'refuted', f'drawn from `{lst.text[:70]}`, which contains the '
                            f'exit cell ({cell[1]}, {cell[2]})'))
            else:
                out.append((w, 'undecided', 'list not understood'))
            continue
        why = cell_disjoint_region(cx, cell, reg)
        if why:
            out.append((w, 'proved', why))
            continue
        wit = witness(cx, cell, reg)
        if wit is not None and w.cls != 'Exit':
            out.append((w, 'refuted', f'can be written onto the exit cell: {wit}'))
        else:
            out.append((w, 'undecided', 'position not bounded by the analysis'))
    return out


def inventory(index, rep, rule, resets, runs) -> None:
    def writes_of(cx, cls):
        return [w for w in cx.writes if w.cls == cls]

    # the exit placed by `empty` (and by resets built on it) survives the later writes
    for name in ('empty', 'dynamic_obstacles', 'keydoor', 'crossing', 'teleport', 'memory'):
        for cx in runs.get(name, []):
            path = ','.join(cx.path) or '-'
            for e in writes_of(cx, 'Exit'):
                for w, verdict, why in overwritten(cx, e):
                    site = f'{RESET}:{name}[{path}]:{w.line}'
                    if verdict == 'proved':
                        rep.holds(rule, site, f'exit survives `{w.text[:40]}`: {why}')
                    elif verdict == 'undecided':
                        rep.undecided(rule, site, f'exit vs `{w.text[:40]}`: {why}')
                    else:
                        rep.violation(rule, RESET, name, w.line, w.text,
                                      f'{name}[{path}]: the {w.cls} {why}: the only exit can be '
                                      f'overwritten (no exit left: the episode cannot end and '
                                      f'exit-distance rewards raise)')

    for cx in runs['empty']:
        path = ','.join(cx.path)
        ex = writes_of(cx, 'Exit')
        rep.check(len(ex) == 1, rule, RESET, 'empty',
                  ex[0].line if ex else resets['empty'].node.lineno,
                  '; '.join(w.text for w in ex) or 'empty',
                  f'empty[{path}] stores {len(ex)} exits, advertised exactly one',
                  f'empty[{path}]: one exit')
    for name in ('rooms',):
        for cx in runs[name]:
            ex = writes_of(cx, 'Exit')
            rep.check(len(ex) == 1 and ex[0].region and ex[0].region[0] == 'selem', rule, RESET,
                      name, ex[0].line if ex else 1, '; '.join(w.text for w in ex) or name,
                      f'{name} does not place exactly one exit on a sampled floor cell',
                      f'{name}: one exit on a sampled cell')
    for cx in runs['dynamic_obstacles']:
        path = ','.join(cx.path)
        ob = writes_of(cx, 'MovingObstacle')
        ok = len(ob) == 1 and ob[0].region and ob[0].region[0] == 'sall' and \
            cx.samples[ob[0].region[1]][1] == 'num_obstacles'
        rep.check(bool(ok), rule, RESET, 'dynamic_obstacles', ob[0].line if ob else 1,
                  '; '.join(w.text for w in ob) or 'dynamic_obstacles',
                  f'dynamic_obstacles[{path}]: obstacles are not placed on every cell of a '
                  f'sample of size num_obstacles', f'dynamic_obstacles[{path}]: num_obstacles')
        rep.check(len(writes_of(cx, 'Exit')) == 1, rule, RESET, 'dynamic_obstacles',
                  resets['dynamic_obstacles'].node.lineno, 'exit', 'not exactly one exit',
                  f'dynamic_obstacles[{path}]: one exit')
    requested_number(index, rep, rule, resets['dynamic_obstacles'], 'num_obstacles')
    for cx in runs['keydoor']:
        doors, keys = writes_of(cx, 'Door'), writes_of(cx, 'Key')
        f = resets['keydoor']
        ok = len(doors) == 1 and doors[0].region and doors[0].region[0] == 'elem' and \
            doors[0].region[1].kind == 'line' and 'Door.Status.LOCKED' in doors[0].text
        rep.check(bool(ok), rule, RESET, 'keydoor', doors[0].line if doors else f.node.lineno,
                  '; '.join(w.text for w in doors) or 'keydoor',
                  'keydoor does not place exactly one LOCKED door at a cell drawn from the '
                  'dividing wall line', 'keydoor: one locked door in the wall')
        ok = len(keys) == 1 and doors and keys[0].colour == doors[0].colour and \
            keys[0].colour is not None
        rep.check(bool(ok), rule, RESET, 'keydoor', keys[0].line if keys else f.node.lineno,
                  '; '.join(w.text for w in keys) or 'keydoor',
                  f'keydoor does not place exactly one key of the door\'s colour '
                  f'(key {keys[0].colour if keys else None}, door '
                  f'{doors[0].colour if doors else None})', 'keydoor: matching key')
        # the key lies left of the wall line (agent's side): interval argument
        if keys and keys[0].region and keys[0].region[0] == 'cell':
            wall = [w for w in cx.writes if w.cls == 'Wall' and w.region and
                    w.region[0] == 'box']
            ok = bool(wall) and cx.lt(keys[0].region[2], wall[0].region[3]) and \
                cx.agent and cx.agent[0] and cx.agent[0][0] == 'cell' and \
                cx.lt(cx.agent[0][2], wall[0].region[3])
            exit_ = writes_of(cx, 'Exit')
            ok2 = bool(exit_) and bool(exit_[0].region) and exit_[0].region[0] == 'cell' and bool(wall) and \
                cx.lt(wall[0].region[4], exit_[0].region[2])
            rep.check(bool(ok), rule, RESET, 'keydoor', keys[0].line, keys[0].text,
                      'key and agent are not both strictly left of the dividing wall',
                      'keydoor: agent on the key\'s side')
            rep.check(bool(ok2), rule, RESET, 'keydoor', exit_[0].line if exit_ else 1,
                      exit_[0].text if exit_ else '', 'the exit is not beyond the wall',
                      'keydoor: exit beyond the wall')
    for cx in runs['teleport']:
        pods = writes_of(cx, 'Telepod')
        f = resets['teleport']
        ok = len(pods) == 1 and pods[0].region and pods[0].region[0] == 'sall'
        size_ok = False
        if ok:
            base, size, nrep = cx.samples[pods[0].region[1]]
            w = walk_function(f.node)
            d = w.sole_binding(size) if size.isidentifier() else None
            size_ok = nrep and (size == '2' or (d is not None and src(d[1]) == '2'))
        rep.check(bool(ok and size_ok) and pods[0].colour is not None, rule, RESET, 'teleport',
                  pods[0].line if pods else f.node.lineno,
                  '; '.join(w.text for w in pods) or 'teleport',
                  'teleport does not place two telepods of one colour on a without-replacement '
                  'sample of two floor cells', 'teleport: two pods, one colour')
    for cx in runs['memory']:
        ex, be = writes_of(cx, 'Exit'), writes_of(cx, 'Beacon')
        f = resets['memory']
        cols = [w.colour for w in ex]
        ok = len(ex) == 2 and len(set(cols)) == 2 and all(c and c.startswith('sample') for c in cols) \
            and cols[0].split('[')[0] == cols[1].split('[')[0]
        if ok:
            sid = int(cols[0][len('sample'):].split('[')[0])
            ok = cx.samples[sid][2]
        rep.check(bool(ok), rule, RESET, 'memory', ex[0].line if ex else f.node.lineno,
                  '; '.join(w.text for w in ex), 'memory does not place two exits whose colours '
                  'are distinct elements of one without-replacement draw', 'memory: two exits')
        ok = len(be) >= 1 and all(b.colour in cols for b in be) and len({b.colour for b in be}) == 1
        rep.check(bool(ok), rule, RESET, 'memory', be[0].line if be else f.node.lineno,
                  '; '.join(w.text for w in be), 'the beacons do not all carry the colour of '
                  'exactly one of the exits', 'memory: beacons match one exit')
    for cx in runs['memory_rooms']:
        ex, be = writes_of(cx, 'Exit'), writes_of(cx, 'Beacon')
        f = resets['memory_rooms']
        ok = len(ex) == 1 and len(be) == 1 and ex[0].colour and be[0].colour and \
            ex[0].colour.split('[')[0] == be[0].colour.split('[')[0] and \
            be[0].colour.split('[')[1].startswith('0]') and \
            ex[0].colour.split('[')[1].startswith('i]')
        if ok:
            sid = int(ex[0].colour[len('sample'):].split('[')[0])
            ok = cx.samples[sid][2] and cx.samples[sid][1] == 'num_exits'
        rep.check(bool(ok), rule, RESET, 'memory_rooms', ex[0].line if ex else f.node.lineno,
                  '; '.join(w.text for w in ex + be), 'memory_rooms: exit colours are not a '
                  'without-replacement draw of num_exits colours whose first element colours all '
                  'beacons', 'memory_rooms: colours')
        ag = cx.agent[0] if cx.agent else None
        rep.check(ag is not None and ag[0] == 'selem' and ag[2] == 0 and ex and ex[0].region
                  and ag[1] == ex[0].region[1], rule, RESET, 'memory_rooms',
                  cx.agent[3] if cx.agent else f.node.lineno, cx.agent[2] if cx.agent else '',
                  'memory_rooms: the agent is not element [0] of the joint sample of floor '
                  'cells', 'memory_rooms: agent = sample[0]')
        ok = ex and be and ex[0].region and be[0].region and ex[0].region[0] == 'sslice' and \
            be[0].region[0] == 'sslice' and ex[0].region[1] == be[0].region[1] and \
            be[0].region[2:] == ('1', '1 + num_beacons') and \
            ex[0].region[2:] == ('1 + num_beacons', 'end') and \
            cx.samples[ex[0].region[1]][1] == '1 + num_beacons + num_exits' and \
            cx.samples[ex[0].region[1]][2]
        rep.check(bool(ok), rule, RESET, 'memory_rooms', ex[0].line if ex else f.node.lineno,
                  '; '.join(w.text for w in ex + be), 'memory_rooms: agent, beacons and exits '
                  'are not disjoint slices [0], [1:1+num_beacons], [1+num_beacons:] of one '
                  'without-replacement sample of 1+num_beacons+num_exits floor cells',
                  'memory_rooms: disjoint slices')
