"""C10 -- doors, keys and boxes respond only to a faced ACTUATE, and only as documented."""
from __future__ import annotations

import ast

from ..boolean import Evaluator, Kind
from ..core import AnalysisError, src
from ..dynmodel import FRONT, HELD, TRANS, FnModel, cell, describe_world, equiv
from ..guards import show, walk_function
from ..index import RepoIndex
from .c08 import effect_class, effect_table

EXPLANATION = (
    'The effect table shows that among the registered transition functions only '
    'actuate_door stores a door status and only actuate_box/pickndrop store grid cells; the '
    'dominating guard of every status store is extracted and compared, in every world of the '
    'finite model (8 actions x inside/outside x 13 kinds of faced object x 13 kinds of held '
    'item x colour match), with `ACTUATE and inside(front) and Door and not open and (not '
    'locked or (held is Key and same colour))` (re-opening an open door is a no-op, hence '
    "don't-care); the stored value is Door.Status.OPEN; nothing else is stored (the key is "
    'not consumed); the box store replaces the faced Box by its content under `ACTUATE and '
    'inside and Box`; Door flags follow the status.')
TRUSTED = ['Python semantics of the extracted guards', 'C01.R1 for the bounds premise']

GO = 'gym_gridverse/grid_object.py'
CELL = cell(FRONT)


def _status_table_to_stores(index, f):
    """`door.state = TABLE[door.state, flag]` with TABLE a module-level dict literal over
    every (Door.Status member, bool) pair is the chain of guarded stores it abbreviates: one
    `if door.state is K and <flag / not flag>: door.state = V` per entry that changes the
    status (entries that map a status to itself store what is already there).  Returns a Func
    on the rewritten copy, or f when there is nothing of that shape."""
    import copy
    from ..index import Func
    members = list(index.enum('Door.Status').members)
    changed = [False]

    class T(ast.NodeTransformer):
        def visit_Assign(self, n: ast.Assign):
            if not (len(n.targets) == 1 and isinstance(n.targets[0], ast.Attribute) and
                    n.targets[0].attr == 'state' and isinstance(n.value, ast.Subscript) and
                    isinstance(n.value.value, ast.Name) and
                    isinstance(n.value.slice, ast.Tuple) and len(n.value.slice.elts) == 2):
                return n
            tb = f.module.assigns.get(n.value.value.id, [])
            if len(tb) != 1 or not isinstance(tb[0], ast.Dict):
                return n
            a, b = n.value.slice.elts
            if src(a) != src(n.targets[0]):
                return n
            rows = {}
            for k, v in zip(tb[0].keys, tb[0].values):
                if not (isinstance(k, ast.Tuple) and len(k.elts) == 2 and
                        isinstance(k.elts[1], ast.Constant) and
                        isinstance(k.elts[1].value, bool)):
                    return n
                em = index.enum_member(k.elts[0])
                if not em or em[0] != 'Door.Status':
                    return n
                rows[(em[1], k.elts[1].value)] = (k.elts[0], v)
            if set(rows) != {(m_, fl) for m_ in members for fl in (True, False)}:
                raise AnalysisError(f'{n.value.value.id}: the status table does not cover every '
                                    f'(status, flag) pair (a missing pair is a KeyError)')
            out = []
            for (m_, fl), (k0, v) in sorted(rows.items()):
                if src(v) == src(k0):
                    continue
                cond = ast.BoolOp(ast.And(), [
                    ast.Compare(copy.deepcopy(a), [ast.Is()], [copy.deepcopy(k0)]),
                    copy.deepcopy(b) if fl else ast.UnaryOp(ast.Not(), copy.deepcopy(b))])
                out.append(ast.If(cond, [ast.Assign([copy.deepcopy(n.targets[0])],
                                                    copy.deepcopy(v))], []))
            changed[0] = True
            # the reads happen before any store: the chain is exclusive (each row tests the
            # status it starts from), so at most one store fires; make that explicit
            chain = None
            for st in reversed(out):
                st.orelse = [chain] if chain is not None else []
                chain = st
            return [ast.copy_location(chain, n)] if chain is not None else []
    node = T().visit(copy.deepcopy(f.node))
    if not changed[0]:
        return f
    return Func(f.name, f.module, ast.fix_missing_locations(node), f.cls)


def door_guard_rule(index, rep, rule: str, ev=None) -> None:
    f = _status_table_to_stores(index, index.func(TRANS, 'actuate_door'))
    m = FnModel(index, f, ['S', 'A'], ev)
    ev = m.ev
    st = [e for e in m.effects if effect_class(e) == 'door-status']
    if not st:
        rep.violation(rule, TRANS, 'actuate_door', f.node.lineno, 'actuate_door',
                      'actuate_door never stores a door status')
        return
    for e in st:
        em = index.enum_member(e.value_node) if e.value_node is not None else None
        rep.check(em == ('Door.Status', 'OPEN') and e.kind == 'attrstore', rule, TRANS,
                  'actuate_door', e.line, src(e.ev.stmt),
                  f'a door status is set to `{e.value}`; ACTUATE may only open doors',
                  'value OPEN')
        rep.check(e.target == f'{CELL}.state', rule, TRANS, 'actuate_door', e.line,
                  src(e.ev.stmt), f'the status of `{e.target}` is written, not that of the '
                  f'faced cell `{CELL}`', 'faced door')

    def spec(w, ev):
        a = w.vals[('action',)]
        inside = w.vals.get(('inside', FRONT))
        if a != 'ACTUATE':
            return False
        if inside is None:
            return None
        if not inside:
            return False
        k = w.vals.get(('kind', CELL))
        if k is None:
            return None
        if k.cls != 'Door':
            return False
        if k.status == 'OPEN':
            return None      # re-opening an open door is a no-op
        if k.status == 'CLOSED':
            return True
        h = w.vals.get(('kind', HELD))
        if h is None:
            return None
        if h.cls != 'Key':
            return False
        keys = [kk for kk in w.vals if kk[0] == 'eq' and 'color(' in kk[1] and 'color(' in kk[2]]
        if not keys:
            return None
        return bool(w.vals[keys[0]])

    bad, n = equiv(m, [e.guard for e in st], spec,
                   touch=[f'A is Action.ACTUATE', f'S.grid.area.contains({FRONT})',
                          f'isinstance({CELL}, Door) and {CELL}.is_locked and '
                          f'isinstance({HELD}, Key) and {HELD}.color == {CELL}.color'])
    rep.check(bad is None, rule, TRANS, 'actuate_door', f.node.lineno,
              ' | '.join(show(e.guard) for e in st),
              'door-opening guard differs from `ACTUATE and inside(front) and Door and not open '
              'and (not locked or (held Key of the door\'s colour))`: '
              + (f'{bad[1]} when {describe_world(bad[0])}' if bad else ''),
              f'door guard equivalent in {n} worlds')


def box_rule(index, rep, rule: str, ev=None) -> None:
    f = index.func(TRANS, 'actuate_box')
    m = FnModel(index, f, ['S', 'A'], ev)
    st = [e for e in m.effects if effect_class(e) == 'cell']
    if not st:
        rep.violation(rule, TRANS, 'actuate_box', f.node.lineno, 'actuate_box',
                      'actuate_box never replaces a cell')
        return
    for e in st:
        rep.check(e.target == CELL and e.value == f'{CELL}.content' and e.kind == 'store',
                  rule, TRANS, 'actuate_box', e.line, src(e.ev.stmt),
                  f'actuate_box stores `{e.value}` into `{e.target}`; it must replace the faced '
                  f'box by its content', 'box replaced by content')

    def spec(w, ev):
        if w.vals[('action',)] != 'ACTUATE':
            return False
        inside = w.vals.get(('inside', FRONT))
        if inside is None:
            return None
        if not inside:
            return False
        k = w.vals.get(('kind', CELL))
        if k is None:
            return None
        return k.cls == 'Box'

    bad, n = equiv(m, [e.guard for e in st], spec,
                   touch=['A is Action.ACTUATE', f'S.grid.area.contains({FRONT})',
                          f'isinstance({CELL}, Box)'])
    rep.check(bad is None, rule, TRANS, 'actuate_box', f.node.lineno,
              ' | '.join(show(e.guard) for e in st),
              'box-opening guard differs from `ACTUATE and inside(front) and Box`: '
              + (f'{bad[1]} when {describe_world(bad[0])}' if bad else ''),
              f'box guard equivalent in {n} worlds')


def door_flags(index, rep, rule: str, om) -> None:
    door = index.cls(GO, 'Door')
    for st in om.status.order:
        k = Kind('Door', st)
        vals = {fl: om.flag(k, fl) for fl in ('blocks_movement', 'blocks_vision', 'is_open',
                                              'is_locked', 'holdable')}
        want = {'blocks_movement': st != 'OPEN', 'blocks_vision': st != 'OPEN',
                'is_open': st == 'OPEN', 'is_locked': st == 'LOCKED', 'holdable': False}
        rep.check(vals == want, rule, GO, 'Door', door.node.lineno, f'Door[{st}] flags {vals}',
                  f'a door with status {st} has flags {vals}, documented {want}', f'door {st}')


def door_status_kind(index: RepoIndex, rep, rule: str) -> None:
    """the flags test the status by identity (`self.state is Door.Status.LOCKED`), so what a
    door stores as its status must be a member of Door.Status: the constructor stores its
    parameter, which is declared `Door.Status` and nothing wider (a door built from a raw
    integer index reports the right status index but is neither open, closed nor locked:
    actuate_door then opens it without a key)"""
    door = index.cls(GO, 'Door')
    init = door.methods.get('__init__')
    if init is None:
        raise AnalysisError('anchor vanished: Door.__init__')
    w = walk_function(init.node)
    stores = [e for e in w.events if e.kind == 'attrstore' and src(e.target) == 'self.state']
    if not stores:
        raise AnalysisError('Door.__init__ does not store self.state')
    anns = {a.arg: (src(a.annotation) if a.annotation is not None else '')
            for a in init.node.args.args}
    for e in stores:
        v = w.expand(e.value) if e.value is not None else None
        okv = False
        why = ''
        if isinstance(v, ast.Name) and v.id in anns:
            ann = anns[v.id].strip('\'"')
            okv = ann in ('Door.Status', 'Status')
            why = f'parameter `{v.id}: {anns[v.id] or "<unannotated>"}`'
        elif v is not None and src(v).startswith('Door.Status.') or \
                (isinstance(v, ast.Call) and src(v.func) in ('Door.Status', 'self.Status')):
            okv = True
        else:
            why = f'`{src(v) if v is not None else None}`'
        rep.check(okv, rule, GO, 'Door.__init__', e.line, src(e.stmt),
                  f'Door stores {why} as its status: not necessarily a member of Door.Status, '
                  f'while is_open / is_locked test the status by identity -- a locked door built '
                  f'from its integer index is not locked and opens without a key',
                  'door status is a Door.Status member')


def run(index: RepoIndex, rep) -> None:
    rep.rule('C10.R1', 'a door status is stored only by actuate_door, only with OPEN, only on '
             'the faced cell (effect table)', floor=2)
    rep.rule('C10.R2', 'every status store writes OPEN to the faced cell and its guard is the '
             'documented one (truth table)', floor=3)
    rep.rule('C10.R3', 'actuate_door stores nothing else (keys are not consumed)', floor=1)
    rep.rule('C10.R4', 'actuate_box replaces the faced Box by its content under ACTUATE and '
             'inside and Box', floor=2)
    rep.rule('C10.R5', 'Door flags follow the status', floor=3)
    ev = Evaluator(index)
    effect_table(index, rep, 'C10.R1', {'door-status'})
    door_guard_rule(index, rep, 'C10.R2', ev)
    # R3: nothing but the status store
    f = index.func(TRANS, 'actuate_door')
    m = FnModel(index, f, ['S', 'A'], ev)
    others = [e for e in m.effects if effect_class(e) not in ('', 'door-status')]
    rep.check(not others, 'C10.R3', TRANS, 'actuate_door', f.node.lineno,
              '; '.join(src(e.ev.stmt) for e in others) or 'actuate_door',
              f'actuate_door also writes {[e.target for e in others]} (e.g. consumes the key)',
              'only the status')
    box_rule(index, rep, 'C10.R4', ev)
    door_flags(index, rep, 'C10.R5', ev.om)
    door_status_kind(index, rep, 'C10.R5')
    # R6: the other transition functions never overwrite a door or a box
    rep.rule('C10.R7', 'the faced cell is the cell one step ahead of the agent for every '
             'heading (Agent.front, C18.R5)', floor=4)
    from .c18 import front_rule
    front_rule(index, rep, 'C10.R7')
    rep.rule('C10.R8', 'doors and boxes are separate instances after the per-step copy: '
             'opening one cannot open another (plain deep copy, C09.R5)', floor=15)
    from .c09 import deep_copy_rule
    deep_copy_rule(index, rep, 'C10.R8')
    # a door is one object in one cell: no two cells share it (C03.R8)
    from .c03 import one_object_per_cell
    one_object_per_cell(index, rep, 'C10.R9')
    rep.rule('C10.R10', 'the effect of an action on a door or box reaches the environment: step '
             'installs the state its transition produced on every path (C04.R1, C12.R5)',
             floor=2)
    from .c04 import step_installs
    step_installs(index, rep, 'C10.R10')
    rep.rule('C10.R6', 'no cell store of pickndrop can land on a Door or a Box (only actuation '
             'affects them)', floor=1)
    from ..dynmodel import FRONT, cell, describe_world
    pk = index.func(TRANS, 'pickndrop')
    mp = FnModel(index, pk, ['S', 'A'], ev)
    cst = [e for e in mp.effects if effect_class(e) == 'cell']
    if not cst:
        rep.holds('C10.R6', f'{TRANS}:pickndrop', 'pickndrop stores no cell')
    for e in cst:
        bad = None
        tgt_cell = e.target
        for w_ in mp.worlds([e.guard]):
            try:
                if not ev.holds(e.guard, w_):
                    continue
            except Exception:      # noqa: BLE001 - out-of-grid worlds are C01's business
                continue
            k = w_.vals.get(('kind', tgt_cell))
            if k is not None and k.cls in ('Door', 'Box'):
                bad = (w_, k)
                break
        rep.check(bad is None, 'C10.R6', TRANS, 'pickndrop', e.line, src(e.ev.stmt),
                  f'pickndrop can overwrite the cell `{tgt_cell}` while it holds a '
                  f'{bad[1] if bad else ""} ({describe_world(bad[0]) if bad else ""}): a door or '
                  f'box is affected by an action other than ACTUATE', 'doors and boxes untouched')
