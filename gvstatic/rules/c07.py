"""C07 -- observations are egocentric (invariant under rotating the whole world)."""
from __future__ import annotations

import ast

from ..guards import walk_function
from ..core import AnalysisError, src
from ..geom import Geometry
from ..index import RepoIndex
from ..obsmodel import OBS, Pipeline, Subgrid
from . import c05

EXPLANATION = (
    'The relational property reduces to three static obligations (DESIGN.md A.2): (R1) the '
    'frame-consistency identity of C05 for all four headings -- the view is the world read '
    "through the agent's pose only; (R2) the visibility function receives only the "
    'agent-frame grid, the agent-frame position and rng -- no state, heading or world '
    'coordinate can reach it; (R3) the out-of-grid padding test is two-sided on both axes, '
    'so no heading sees a different edge. Rotating world and pose together conjugates both by '
    'the same rigid motion and leaves the agent-frame view unchanged exactly when R1 holds '
    'for the four headings.')
TRUSTED = c05.TRUSTED


def run(index: RepoIndex, rep) -> None:
    rep.rule('C07.R5', 'row and column quantities are not exchanged when slicing and building the view (axis typing, E14)', floor=1)
    from ..axes import axis_rule
    axis_rule(index, rep, 'C07.R5', ('gym_gridverse/grid.py', 'gym_gridverse/geometry.py', 'gym_gridverse/envs/observation_functions.py'), floor=8)
    # the view depends on (state, area) alone: nothing between the world and the view is
    # memoised on grids / grid objects (their equality ignores identity and Box contents),
    # and the slice shares no storage with the world (C03.R4, C03.R3; both decided before the
    # slice model, which may refuse a rewritten subgrid)
    rep.rule('C07.R6', 'the view is recomputed from the state: no memo keyed on grids or grid '
             'objects, no shared rows between world and view', floor=1)
    from ..effects import Effects
    from ..obsmodel import SubgridUnmodelled
    from .c03 import memo_rules
    memo_rules(index, rep, 'C07.R6', Effects(index), only_rel='gym_gridverse/grid.py')
    rep.holds('C07.R6', 'gym_gridverse/grid.py', 'memoised helpers of grid.py checked')
    geo = Geometry(index)
    pipe = Pipeline(index, geo)
    try:
        sub = Subgrid(index)
    except SubgridUnmodelled as ex:
        for e_, t_ in ex.shared:
            rep.violation('C07.R6', 'gym_gridverse/grid.py', 'Grid.subgrid', e_.line, t_,
                          f'Grid.subgrid can return its own row lists (`{t_[:100]}`): an earlier '
                          f'observation of the same state changes what a later one shows')
        raise
    sgw = walk_function(sub.func.node)
    kept = [e for e in sgw.events if e.kind in ('attrstore', 'augstore')
            and src(e.target).startswith('self.')]
    rep.check(not sub.aliasing_returns and not kept, 'C07.R6', 'gym_gridverse/grid.py',
              'Grid.subgrid', sub.func.node.lineno,
              '; '.join([t for _, t in sub.aliasing_returns] + [src(e.stmt) for e in kept])[:160]
              or 'Grid.subgrid',
              'Grid.subgrid keeps or hands out a slice it built earlier: what an observation '
              'shows would depend on earlier observations of the same state, not on (state, '
              'area) alone', 'subgrid rebuilt at every call')
    rep.rule('C07.R7', 'states that went through a step keep what Grid derives from its '
             'objects (shape, area): the classes of a state use the default copy protocol '
             '(C09.R5)', floor=15)
    from .c03 import copy_protocol
    copy_protocol(index, rep, 'C07.R7')
    from .wiring import records_as_given
    records_as_given(index, rep, 'C07.R7')
    rep.rule('C07.R1', 'frame consistency (C05.R1) for the four headings', floor=9)
    rep.rule('C07.R2', 'the visibility function receives only agent-frame arguments', floor=2)
    rep.rule('C07.R3', 'two-sided padding test on both axes (C05.R2)', floor=3)
    rep.rule('C07.R4', 'every built-in observation function goes through from_visibility, '
             'whose observation agent faces FORWARD at the view anchor (C05.R4, C05.R5)', floor=8)
    c05.wrappers(index, rep, 'C07.R4')
    c05.agent_rule(index, rep, 'C07.R4', pipe)
    c05.frame_consistency(index, rep, 'C07.R1', geo, pipe, sub)
    c05.padding(index, rep, 'C07.R3', sub)
    call = pipe.vis_calls[0].node
    w = pipe.walk
    fn = pipe.func
    kws = {k.arg: k.value for k in call.keywords}
    rep.check(len(call.args) == 2 and set(kws) <= {'rng'}, 'C07.R2', OBS, 'from_visibility',
              call.lineno, src(call),
              'the visibility function is called with arguments other than (grid, position, '
              'rng=..)', 'arity')
    for i, a in enumerate(list(call.args) + [v for k, v in kws.items() if k != 'rng']):
        ex = w.expand(a, pipe.ren, stop=[pipe.grid_name])
        names = {n.id for n in ast.walk(ex) if isinstance(n, ast.Name)}
        rep.check('S' not in names, 'C07.R2', OBS, 'from_visibility', call.lineno, src(ex),
                  f'argument {i} of the visibility call depends on the world-frame state: '
                  f'`{src(ex)}`', f'arg {i} agent-frame')
    # visibility functions take no heading: their protocol parameters are (grid, position, rng)
    vis = index.registry('visibility', 4)
    for name, f in sorted(vis.items()):
        pos = [a.arg for a in f.node.args.posonlyargs + f.node.args.args]
        rep.check(len(pos) == 2, 'C07.R2', f.relpath, name, f.node.lineno,
                  f'def {name}({", ".join(pos)}, ...)',
                  f'visibility function {name} takes positional parameters {pos}, not '
                  f'(grid, position)', f'signature {name}')
