"""C09 -- objects are conserved: nothing is created, destroyed, duplicated or recoloured."""
from __future__ import annotations

import ast
from typing import Dict, List, Optional

from ..boolean import Evaluator, Kind, OutOfGrid
from ..core import AnalysisError, src
from ..dynmodel import FRONT, HELD, TRANS, FnModel, cell, describe_world
from ..guards import show
from ..index import RepoIndex
from . import c10, c11
from .c08 import effect_class, effect_table

EXPLANATION = (
    'Per-step conservation decided statically: an effect table shows that grid cells are '
    'stored only by pickndrop (the faced cell), actuate_box (box -> content) and '
    'move_obstacles (only through Grid.swap, a simultaneous exchange), and the held item only '
    'by pickndrop; pickndrop is evaluated abstractly in every world of the finite model '
    '(action x inside/outside x 13 kinds of faced object x 13 kinds of held item): the '
    'stored values are the symbolic objects FRONT, HELD, a new Floor, a new NoneGridObject, '
    'and in every world the pair (cell, hand) after the step is the documented exchange -- '
    'nothing happens unless PICK_N_DROP with the faced cell inside the grid and Floor or '
    'holdable; Wall, Door, Exit, Floor, Hidden and NoneGridObject are not holdable.')
TRUSTED = ['Python semantics of the extracted guards', 'effects are computed from pre-state '
           'values (checked: no heap read after the first store)']

GO = 'gym_gridverse/grid_object.py'
CELL = cell(FRONT)


def exchange(index: RepoIndex, rep, rule: str) -> None:
    f = index.func(TRANS, 'pickndrop')
    ev = Evaluator(index)
    om = ev.om
    m = FnModel(index, f, ['S', 'A'], ev)
    fl = f.node.lineno
    late = m.post_store_reads()
    if late:
        raise AnalysisError(
            f'pickndrop reads the state again after its first store (line {late[0].line}): '
            f'the pre-state abstraction does not apply')
    cell_st = [e for e in m.effects if effect_class(e) == 'cell']
    held_st = [e for e in m.effects if effect_class(e) == 'held']
    others = [e for e in m.effects if effect_class(e) not in ('', 'cell', 'held')]
    rep.check(not others, rule, TRANS, 'pickndrop', fl,
              '; '.join(src(e.ev.stmt) for e in others) or 'pickndrop',
              f'pickndrop also writes {[e.target for e in others]}', 'only cell and hand')
    for e in cell_st:
        rep.check(e.target == CELL and e.kind == 'store', rule, TRANS, 'pickndrop', e.line,
                  src(e.ev.stmt), f'pickndrop writes the cell `{e.target}`, not the faced cell',
                  'faced cell only')
    allowed_cell = {HELD: 'HELD', 'Floor()': 'FLOOR'}
    allowed_held = {CELL: 'FRONT', 'NoneGridObject()': 'NONE'}
    for e in cell_st:
        rep.check(e.value in allowed_cell, rule, TRANS, 'pickndrop', e.line, src(e.ev.stmt),
                  f'the faced cell receives `{e.value}`: only the held object or a new Floor '
                  f'conserve objects', 'cell value')
    for e in held_st:
        rep.check(e.value in allowed_held and e.kind == 'attrstore', rule, TRANS, 'pickndrop',
                  e.line, src(e.ev.stmt),
                  f'the hand receives `{e.value}`: only the faced object or an empty hand '
                  f'conserve objects', 'hand value')
    guards = [e.guard for e in cell_st + held_st]
    from ..dynmodel import parse_formula
    touch = [parse_formula(t) for t in (
        'A is Action.PICK_N_DROP', f'S.grid.area.contains({FRONT})',
        f'isinstance({CELL}, Floor) or {CELL}.holdable',
        f'isinstance({HELD}, NoneGridObject)')]
    worlds = m.worlds(guards, touch=touch)
    bad = None
    n = 0
    for w in worlds:
        n += 1
        a = w.vals[('action',)]
        inside = w.vals.get(('inside', FRONT), None)
        fk: Optional[Kind] = w.vals.get(('kind', CELL))
        hk: Optional[Kind] = w.vals.get(('kind', HELD))
        try:
            fired_c = [e for e in cell_st if ev.holds(e.guard, w)]
            fired_h = [e for e in held_st if ev.holds(e.guard, w)]
        except OutOfGrid as oog:
            bad = (w, f'reads `{oog.term}` while the faced position is outside the grid')
            break
        got_c = allowed_cell.get(fired_c[-1].value, '?') if fired_c else 'FRONT'
        got_h = allowed_held.get(fired_h[-1].value, '?') if fired_h else 'HELD'
        if a != 'PICK_N_DROP' or inside is False:
            want_c, want_h = 'FRONT', 'HELD'
        else:
            if fk is None or hk is None or inside is None:
                bad = (w, 'the effect does not depend on the faced / held object')
                break
            floor = fk.cls == 'Floor'
            hold = om.flag(fk, 'holdable') is True
            empty = hk.cls == 'NoneGridObject'
            if not (floor or hold):
                want_c, want_h = 'FRONT', 'HELD'
            else:
                want_c = 'FLOOR' if empty else 'HELD'
                want_h = 'FRONT' if hold else 'NONE'
        # an empty slot may be replaced by an empty slot
        def same(got, want, slot_kind):
            if got == want:
                return True
            if slot_kind == 'cell' and {got, want} == {'FRONT', 'FLOOR'} and fk is not None \
                    and fk.cls == 'Floor':
                return True
            if slot_kind == 'cell' and {got, want} == {'HELD', 'FLOOR'}:
                return False
            if slot_kind == 'hand' and {got, want} == {'HELD', 'NONE'} and hk is not None \
                    and hk.cls == 'NoneGridObject':
                return True
            return False
        if not (same(got_c, want_c, 'cell') and same(got_h, want_h, 'hand')):
            bad = (w, f'after the step (cell, hand) = ({got_c}, {got_h}), documented exchange '
                      f'gives ({want_c}, {want_h})')
            break
    rep.check(bad is None, rule, TRANS, 'pickndrop', fl,
              ' | '.join(f'{e.target} <- {e.value}' for e in cell_st + held_st),
              'pick-and-drop is not the documented exchange: '
              + (f'{bad[1]} when {describe_world(bad[0])}' if bad else ''),
              f'exchange verified in {n} worlds')


def holdable_flags(index: RepoIndex, rep, rule: str) -> None:
    ev = Evaluator(index)
    om = ev.om
    for k in om.kinds:
        if k.cls in ('Wall', 'Door', 'Exit', 'Floor', 'Hidden', 'NoneGridObject', 'Box',
                     'MovingObstacle', 'Telepod', 'Beacon'):
            h = om.flag(k, 'holdable')
            c = om.classes[k.cls]
            rep.check(h is False, rule, GO, k.cls, c.node.lineno, f'{k}.holdable = {h}',
                      f'{k} is holdable={h}: scenery could be picked up', f'{k} not holdable')
    kk = Kind('Key', None)
    rep.check(om.flag(kk, 'holdable') is True, rule, GO, 'Key', om.classes['Key'].node.lineno,
              'Key.holdable', 'keys are not holdable', 'Key holdable')


def deep_copy_rule(index: RepoIndex, rep, rule: str) -> None:
    """the per-step copy is a plain deep copy: every object of the next state is its own
    instance (shared by C09.R5 and C10.R8)"""
    from .c03 import copy_protocol
    copy_protocol(index, rep, rule)
    fc = index.func('gym_gridverse/utils/fast_copy.py', 'fast_copy')
    b = fc.body()
    xp = fc.node.args.args[0].arg
    good = {f'pickle.loads(pickle.dumps({xp}))', f'copy.deepcopy({xp})', f'deepcopy({xp})'}
    from ..inline import pure_body_expr as _pbe
    from ..view import deep_copy_of as _dco
    _fe = _pbe(fc.node)
    rep.check(_fe is not None and (src(_fe) in good or _dco(index, fc.module, _fe, xp)),
              rule, 'gym_gridverse/utils/fast_copy.py', 'fast_copy', fc.node.lineno,
              src(b[-1]), 'fast_copy is not a plain deep copy of its argument (a cached or '
              'partial copy can hand back the objects of another state, or one object for two '
              'cells)', 'fast_copy deep')
    # ... and it is the caller's state that is copied, once, and the copy that is returned
    from .wiring import step_on_callers_state
    step_on_callers_state(index, rep, rule)
    # ... and a driven history is made of such steps: InnerEnv.step installs the state of one
    # functional_step of the current state on every path and returns its reward and flag;
    # OuterEnv.step / reset hand the action to the inner environment exactly once
    from .c04 import outer_delegation, state_machine
    state_machine(index, rep, rule)
    outer_delegation(index, rep, rule, strict=False)


def run(index: RepoIndex, rep) -> None:
    rep.rule('C09.R1', 'effect table: cells stored only by pickndrop / actuate_box / '
             'move_obstacles (swap), held item only by pickndrop; box replaced by content',
             floor=6)
    rep.rule('C09.R2', 'pick-and-drop is the documented exchange in every world', floor=6)
    rep.rule('C09.R3', 'scenery is not holdable; keys are', floor=12)
    rep.rule('C09.R4', 'obstacles move only by a true exchange with an in-grid Floor neighbour '
             '(C11.R1)', floor=10)
    rep.rule('C09.R5', 'the per-step copy preserves every object: deep copy by pickle / '
             'deepcopy, default copy protocol (or a __reduce__ that rebuilds every constructor '
             'argument)', floor=15)
    deep_copy_rule(index, rep, 'C09.R5')
    rep.rule('C09.R6', 'the cell pick-and-drop exchanges with is the cell one step ahead of the '
             'agent for every heading (Agent.front, C18.R5)', floor=4)
    from .c18 import front_rule
    front_rule(index, rep, 'C09.R6')
    effect_table(index, rep, 'C09.R1', {'cell', 'held', 'swap'})
    c10.box_rule(index, rep, 'C09.R1')
    exchange(index, rep, 'C09.R2')
    holdable_flags(index, rep, 'C09.R3')
    c11.obstacles(index, rep, 'C09.R4')
