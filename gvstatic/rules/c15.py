"""C15 -- numeric representations always lie inside their declared spaces.
(C16 reuses the channel extraction.)"""
from __future__ import annotations

import ast
import re
import itertools
from fractions import Fraction
from typing import Dict, List, Optional, Tuple

from ..affine import Aff, Facts, NonAffine, aff_of, find_counterexample, prove_ge0
from ..boolean import Kind, ObjectModel
from ..core import AnalysisError, src
from ..guards import dims_of, walk_function
from ..index import Cls, Func, RepoIndex

EXPLANATION = (
    'Affine bound proofs on sibling space/convert pairs: each channel of the default and '
    'no-overlap per-object conversions is extracted as an affine form over t, s, c (type, '
    'status and colour index of the object) and T, S, C (the maxima the space function '
    'computes over the same type and colour sets) and `0 <= channel <= bound` is proved '
    'under 0<=t<=T, 0<=s<=S-1, 0<=c<=C (S>=1) by non-negative combination of the facts; '
    's <= num_states-1 is checked per registered class from its literal attributes and the '
    'status enum; the compact pair is bounded by the maxima of the maps it indexes; the type '
    'sets handed to space and convert agree and include NoneGridObject (and Hidden for '
    'observations); grid spaces tile the per-object bounds by (height, width, 1) and convert '
    'nests y outside x; dtypes are integer for categorical/discrete and float for the '
    'continuous agent vector, whose normalised coordinates have range [-1, 1]; the gym layer '
    'builds Boxes over the same bounds.')
TRUSTED = ['numpy array construction / tile / zeros semantics',
           'C01.R3: a member state has in-space types and colours']

REPR = 'gym_gridverse/representations/representation.py'
STATE = 'gym_gridverse/representations/state_representations.py'
OBSR = 'gym_gridverse/representations/observation_representations.py'
RSP = 'gym_gridverse/representations/spaces.py'


def classify_max(e: ast.AST) -> Optional[str]:
    """max(<x>.type_index() for ..) -> 'T'; num_states -> 'S'; .value -> 'C'"""
    if isinstance(e, ast.Call) and src(e.func) == 'max' and len(e.args) == 1 and \
            isinstance(e.args[0], (ast.GeneratorExp, ast.ListComp)):
        el = src(e.args[0].elt)
        if el.endswith('.type_index()'):
            return 'T'
        if el.endswith('.num_states()'):
            return 'S'
        if el.endswith('.value'):
            return 'C'
    return None


def max_aff(e: ast.AST) -> Optional[Tuple[Aff, str]]:
    """(affine form, kind) of `max(a * q(t) + b for t in ..)` with a > 0 and q one of the three
    index quantities: the maximum of an increasing affine function of q is that function of
    the maximum of q (`max(t.num_states() - 1 for ..)` = S - 1)"""
    k = classify_max(e)
    if k:
        return Aff.sym(k), k
    if not (isinstance(e, ast.Call) and src(e.func) == 'max' and len(e.args) == 1 and
            isinstance(e.args[0], (ast.GeneratorExp, ast.ListComp))
            and len(e.args[0].generators) == 1 and not e.args[0].generators[0].ifs):
        return None

    def leaf(x: ast.AST) -> Optional[Aff]:
        t = src(x)
        if t.endswith('.type_index()'):
            return Aff.sym('T')
        if t.endswith('.num_states()'):
            return Aff.sym('S')
        if t.endswith('.value'):
            return Aff.sym('C')
        return None
    try:
        a = aff_of(e.args[0].elt, leaf)
    except NonAffine:
        return None
    if len(a.c) == 1:
        (sym, coef), = a.c.items()
        if coef > 0:
            return a, sym
    return None


def lexmax_component(e: ast.AST, i: int) -> Optional[Aff]:
    """component i of `max((a(t), b(t)) for t in ..)`: the maximum of tuples is
    lexicographic, so component 0 is the maximum of a, but component 1 is b at the arg-max
    of a -- only *some* value of b, bounded by its maximum (symbol L<kind>)"""
    if isinstance(e, ast.Call) and src(e.func) == 'max' and len(e.args) == 1 and \
            isinstance(e.args[0], (ast.GeneratorExp, ast.ListComp)) and \
            isinstance(e.args[0].elt, ast.Tuple) and 0 <= i < len(e.args[0].elt.elts):
        import copy
        one = copy.copy(e)
        g = copy.copy(e.args[0])
        g.elt = e.args[0].elt.elts[i]
        one.args = [g]
        k = classify_max(one)
        if k is None:
            return None
        return Aff.sym(k) if i == 0 else Aff.sym('L' + k)
    return None


def _at_defaults(f: Func) -> Func:
    """the function read with its None-defaulted options left out: the default-filling idiom
    `if p is None: p = E` at the top level becomes `p = E` (call sites that pass the option are
    read where they are, with the argument bound)"""
    import copy
    dflt = {p_ for p_, d in f.param_defaults().items()
            if isinstance(d, ast.Constant) and d.value is None}
    if not dflt:
        return f
    node = copy.deepcopy(f.node)
    changed = False
    for i, st in enumerate(node.body):
        if isinstance(st, ast.If) and not st.orelse and len(st.body) == 1 and \
                isinstance(st.body[0], ast.Assign) and len(st.body[0].targets) == 1 and \
                isinstance(st.body[0].targets[0], ast.Name) and \
                st.body[0].targets[0].id in dflt and \
                src(st.test) == f'{st.body[0].targets[0].id} is None':
            node.body[i] = st.body[0]
            changed = True
    if not changed:
        return f
    from ..normalise import normalise_function, ssa_params
    return Func(f.name, f.module, normalise_function(ssa_params(node)), f.cls)


def channels(f: Func, index: Optional[RepoIndex] = None,
             cross: tuple = ()) -> Tuple[List[Aff], Dict[str, str]]:
    """affine forms of the elements of the np.array([...]) a function returns"""
    if index is not None:
        from ..view import view
        if not cross:
            f = _at_defaults(f)
        w = view(index, f, cross=cross)[1]
    else:
        w = walk_function(f.node)
    env: Dict[str, Aff] = {}
    origins: Dict[str, str] = {}
    for name, ds in w.defs.items():
        if len(ds) == 1 and ds[0][0] == 'value':
            ma = max_aff(ds[0][1])
            if ma:
                env[name] = ma[0]
                it = ds[0][1].args[0].generators[0].iter
                origins[ma[1]] = src(it)
    gp = [a.arg for a in f.node.args.args]

    def leaf(e: ast.AST, _depth=[0]) -> Optional[Aff]:
        s = src(e)
        if isinstance(e, ast.Name) and e.id in env:
            return env[e.id]
        if isinstance(e, ast.Name) and _depth[0] < 6:
            d = w.single_def(e.id)
            if d is not None and d[0] == 'value':
                _depth[0] += 1
                try:
                    return aff_of(d[1], leaf)
                except NonAffine:
                    return None
                finally:
                    _depth[0] -= 1
            if d is not None and d[0] == 'unpack':
                val, i = d[1]
                val = w.expand(val)
                lm = lexmax_component(val, i)
                if lm is not None:
                    return lm
                if isinstance(val, (ast.Tuple, ast.List)) and i < len(val.elts):
                    _depth[0] += 1
                    try:
                        return aff_of(val.elts[i], leaf)
                    except NonAffine:
                        return None
                    finally:
                        _depth[0] -= 1
        if isinstance(e, ast.Subscript) and isinstance(e.slice, ast.Constant) and \
                isinstance(e.slice.value, int):
            base = w.expand(e.value)
            lm = lexmax_component(base, e.slice.value)
            if lm is not None:
                return lm
            if isinstance(base, (ast.Tuple, ast.List)) and \
                    -len(base.elts) <= e.slice.value < len(base.elts) and _depth[0] < 6:
                _depth[0] += 1
                try:
                    return aff_of(base.elts[e.slice.value], leaf)
                except NonAffine:
                    return None
                finally:
                    _depth[0] -= 1
        if isinstance(e, ast.Call) and src(e.func) == 'len' and len(e.args) == 1 and \
                not e.keywords:
            # the number of configured colours / types: distinct non-negative indices, so at
            # most the largest + 1 (and nothing more is known: symbols NC / NT)
            base = w.expand(e.args[0])
            if isinstance(base, ast.Name) and base.id in gp:
                ann = {a.arg: src(a.annotation) for a in f.node.args.args if a.annotation}
                t_ = ann.get(base.id, '')
                if 'Color' in t_ and 'GridObject' not in t_:
                    return Aff.sym('NC')
                if 'GridObject' in t_ and 'Color' not in t_:
                    return Aff.sym('NT')
        if isinstance(e, ast.Call) and isinstance(e.func, ast.Attribute) and \
                e.func.attr == 'type_index' and not e.args:
            return Aff.sym('t')
        if isinstance(e, ast.Attribute) and e.attr == 'state_index':
            return Aff.sym('s')
        if isinstance(e, ast.Attribute) and e.attr == 'value' and \
                isinstance(e.value, ast.Attribute) and e.value.attr == 'color':
            base = w.expand(e.value.value)
            if isinstance(base, ast.Name) and base.id in gp:
                return Aff.sym('c')
            # the colour of some *other* object (the content of a box, a neighbour): nothing
            # the space declares bounds it -- a free symbol, so no bound can be proved
            return Aff.sym('c_of_' + re.sub(r'\W+', '_', src(base))[:40])
        if isinstance(e, ast.Attribute) and isinstance(e.value, ast.IfExp):
            # (X if c else Y).attr  ==  X.attr if c else Y.attr
            e = ast.IfExp(e.value.test, ast.Attribute(e.value.body, e.attr, ast.Load()),
                          ast.Attribute(e.value.orelse, e.attr, ast.Load()))
        if isinstance(e, ast.IfExp):
            try:
                a_, b_ = aff_of(e.body, leaf), aff_of(e.orelse, leaf)
            except NonAffine:
                a_ = b_ = None
            if a_ is not None and b_ is not None:
                if a_ == b_:
                    return a_
                foreign = [x for x in (a_, b_) if any(str(s_).startswith('c_of_')
                                                      for s_ in getattr(x, 'c', {}))]
                if foreign:
                    return foreign[0]
        ma = max_aff(e)
        if ma:
            return ma[0]
        return None

    rets = [e for e in w.events if e.kind == 'return' and e.value is not None]
    if len(rets) != 1:
        raise AnalysisError(f'{f.name}: expected one return')
    # expand array-valued locals (but not the scalar maxima, which the leaves resolve)
    scalars = {n_ for n_, ds in w.defs.items()
               if len(ds) == 1 and ds[0][0] == 'value' and not (
                   isinstance(ds[0][1], ast.Call) and src(ds[0][1].func) in
                   ('np.array', 'numpy.array', 'Space.make_categorical_space',
                    'Space.make_discrete_space', 'Space.make_continuous_space'))
               and max_aff(ds[0][1])}
    ret = w.expand(rets[0].value, stop=scalars)

    def vec(e: ast.AST, depth: int = 4) -> List[Aff]:
        """the vector an array-valued expression denotes, element by element"""
        if isinstance(e, ast.Call) and src(e.func) in ('np.array', 'numpy.array',
                                                       'np.asarray') and e.args and \
                isinstance(e.args[0], (ast.List, ast.Tuple)):
            return [aff_of(x, leaf) for x in e.args[0].elts]
        if isinstance(e, ast.BinOp) and isinstance(e.op, (ast.Add, ast.Sub)):
            sides = []
            for x in (e.left, e.right):
                try:
                    sides.append(vec(x, depth))
                except AnalysisError:
                    sides.append([aff_of(x, leaf)])        # a scalar, broadcast
            n_ = max(len(x) for x in sides)
            if any(len(x) not in (1, n_) for x in sides):
                raise AnalysisError(f'{f.name}: arrays of different lengths are added')
            a_, b_ = (x * n_ if len(x) == 1 else x for x in sides)
            return [x + y if isinstance(e.op, ast.Add) else x - y for x, y in zip(a_, b_)]
        # the bounds of a space built here, or by another function of the package
        if isinstance(e, ast.Attribute) and e.attr == 'upper_bound':
            return vec(e.value, depth)
        if isinstance(e, ast.Call) and src(e.func).split('.')[-1] in (
                'make_categorical_space', 'make_discrete_space', 'make_continuous_space',
                'Space') and e.args:
            kw = {k.arg: k.value for k in e.keywords}
            return vec(kw.get('upper_bound', e.args[-1]), depth)
        if isinstance(e, ast.Call) and isinstance(e.func, ast.Name) and index is not None and \
                depth > 0:
            h = index.resolve_name(f.module, e.func.id)
            if isinstance(h, Func) and h.cls is None and h is not f:
                got, org = channels(h, index)
                origins.update(org)
                return got
        raise AnalysisError(f'{f.name}: `{src(e)[:80]}` is not an array expression the channel '
                            f'analysis reads')
    try:
        return vec(ret), origins
    except NonAffine as e:
        raise AnalysisError(f'{f.name}: non-affine channel {e}')


def facts_tsc() -> Facts:
    F = Facts()
    S = Aff.sym
    for v, hi in (('t', S('T')), ('c', S('C'))):
        F.add_ge(S(v), 0)
        F.add_le(S(v), hi)
    F.add_ge(S('s'), 0)
    F.add_le(S('s'), S('S') - 1)
    F.add_ge(S('S'), 1)
    F.add_ge(S('T'), 0)
    F.add_ge(S('C'), 0)
    # components of a lexicographic maximum: some value of the quantity, at most its maximum
    F.add_ge(S('LS'), 1)
    F.add_le(S('LS'), S('S'))
    F.add_ge(S('LC'), 0)
    F.add_le(S('LC'), S('C'))
    F.add_ge(S('LT'), 0)
    F.add_le(S('LT'), S('T'))
    # sizes of the configured sets: at least the object / colour at hand, at most one per index
    F.add_ge(S('NC'), 1)
    F.add_le(S('NC'), S('C') + 1)
    F.add_ge(S('NT'), 1)
    F.add_le(S('NT'), S('T') + 1)
    return F


def per_object_bounds(index: RepoIndex, rep, rule: str) -> None:
    F = facts_tsc()
    for pair in ('default', 'no_overlap'):
        fs = index.func(REPR, f'{pair}_grid_object_representation_space')
        fc = index.func(REPR, f'{pair}_grid_object_representation_convert')
        sp, _ = channels(fs, index)
        cv, _ = channels(fc, index)
        rep.check(len(sp) == len(cv) == 3, rule, REPR, fc.name, fc.node.lineno,
                  f'{len(sp)} bounds, {len(cv)} channels',
                  f'{pair}: space has {len(sp)} channels, convert {len(cv)}', f'{pair} arity')
        for i, (b, c) in enumerate(zip(sp, cv)):
            lo_ok = prove_ge0(c, F)
            hi_ok = prove_ge0(b - c, F)
            wit = None
            if not hi_ok:
                wit = find_counterexample(b - c, F, ['t', 's', 'c', 'T', 'S', 'C', 'LS', 'LC', 'LT', 'NC', 'NT'], 0, 4)
            if not lo_ok:
                wit = find_counterexample(c, F, ['t', 's', 'c', 'T', 'S', 'C', 'LS', 'LC', 'LT', 'NC', 'NT'], 0, 4)
            if lo_ok and hi_ok:
                rep.holds(rule, f'{REPR}:{fc.name}:{fc.node.lineno}',
                          f'{pair} channel {i}: 0 <= {c} <= {b}')
            elif wit is not None:
                rep.violation(rule, REPR, fc.name, fc.node.lineno, f'channel {i}: {c}',
                              f'{pair} channel {i} = {c} is not within [0, {b}] (its declared '
                              f'bound): witness {wit}')
            else:
                rep.undecided(rule, f'{REPR}:{fc.name}', f'{pair} channel {i}: {c} vs {b}')
        # categorical space: lower bound zero
    mk = index.func(RSP, 'Space.make_categorical_space')
    w = walk_function(mk.node)
    up = mk.node.args.args[0].arg
    rets = [src(w.expand(e.value)) for e in w.events if e.kind == 'return' and e.value is not None]
    rep.check(rets == [f'Space(SpaceType.CATEGORICAL, np.zeros_like({up}), {up})'], rule, RSP,
              'Space.make_categorical_space', mk.node.lineno, '; '.join(rets),
              'a categorical space is not [0, upper_bound] of the upper bound\'s dtype',
              'categorical lower bound 0')
    # s <= num_states - 1 for every registered class
    om = ObjectModel(index)
    for name in om.order:
        c = om.classes[name]
        ns = om.num_states(name)
        si = c.attrs.get('state_index')
        if isinstance(si, ast.Constant):
            mx = si.value
        elif 'state_index' in c.methods:
            b = c.methods['state_index'].body()
            from ..view import value_text
            if value_text(index, c.methods['state_index']) == 'self.state.value':
                mx = max(om.status.members.values())
                mn = min(om.status.members.values())
                if mn != 0:
                    mx = None
            else:
                mx = None
        else:
            mx = None
        rep.check(ns is not None and mx is not None and 0 <= mx <= ns - 1, rule,
                  'gym_gridverse/grid_object.py', name, c.node.lineno,
                  f'{name}: max state_index {mx}, num_states {ns}',
                  f'{name}: state_index can reach {mx} but num_states() is {ns}: the status '
                  f'channel would exceed its bound', f'{name}: state_index < num_states')
    # compact pair
    fs = index.func(REPR, 'compact_grid_object_representation_space')
    fc = index.func(REPR, 'compact_grid_object_representation_convert')
    ps = [a.arg for a in fs.node.args.args]
    w = walk_function(fs.node)
    rets = [src(w.expand(e.value)) for e in w.events if e.kind == 'return' and e.value is not None]
    want = f'Space.make_categorical_space(np.array([{ps[0]}.max(), {ps[1]}.max(), {ps[2]}.max()]))'
    rep.check(rets == [want], rule, REPR, fs.name, fs.node.lineno, '; '.join(rets),
              'the compact space is not bounded by the maxima of its three index maps',
              'compact bounds = map maxima')
    pc = [a.arg for a in fc.node.args.args]
    w = walk_function(fc.node)
    rets = [src(w.expand(e.value)) for e in w.events if e.kind == 'return' and e.value is not None]
    go = pc[3]
    want = (f'np.array([{pc[0]}[{go}.type_index()], {pc[1]}[{go}.type_index(), '
            f'{go}.state_index], {pc[2]}[{go}.color.value]])')
    rep.check(rets == [want], rule, REPR, fc.name, fc.node.lineno, '; '.join(rets),
              'the compact conversion does not look the three indices up in the maps its '
              'space takes the maxima of', 'compact convert indexes the maps')


def _with_init_attrs(index: RepoIndex, c, m: Func) -> Optional[Func]:
    """the method with every read of an attribute that the constructor assigns exactly once
    (and nothing else in the class assigns) replaced by the constructor's expression:
    constants precomputed in `__init__` are read as what they stand for"""
    import copy
    init = c.methods.get('__init__')
    if init is None:
        return None
    vals: Dict[str, ast.AST] = {}
    count: Dict[str, int] = {}
    for meth in c.methods.values():
        for n in ast.walk(meth.node):
            if isinstance(n, ast.Attribute) and isinstance(n.ctx, (ast.Store, ast.Del)) and \
                    src(n.value) == 'self':
                count[n.attr] = count.get(n.attr, 0) + 1
    for st in init.body():
        if not isinstance(st, ast.Assign) or len(st.targets) != 1:
            continue
        t = st.targets[0]
        if isinstance(t, ast.Attribute) and src(t.value) == 'self':
            vals[t.attr] = st.value
        elif isinstance(t, ast.Tuple) and all(isinstance(x, ast.Attribute)
                                              and src(x.value) == 'self' for x in t.elts):
            for i, x in enumerate(t.elts):
                vals[x.attr] = ast.Subscript(st.value, ast.Constant(i), ast.Load())
    vals = {a: v for a, v in vals.items() if count.get(a) == 1}

    class T(ast.NodeTransformer):
        depth = 0

        def visit_Attribute(self, n: ast.Attribute):
            if isinstance(n.ctx, ast.Load) and src(n.value) == 'self' and n.attr in vals and \
                    self.depth < 4 and not n.attr.endswith('_space'):
                self.depth += 1
                out = self.visit(copy.deepcopy(vals[n.attr]))
                self.depth -= 1
                return out
            return self.generic_visit(n)
    node = T().visit(copy.deepcopy(m.node))
    ast.fix_missing_locations(node)
    return Func(m.name, m.module, node, c)


def _without_precomputed(index: RepoIndex, c, call_text: Optional[str]) -> Optional[str]:
    """`f(a, b, k=self.X)` read as `f(a, b)` when `k` is an optional parameter the pinned
    tree did not have, `f` starts with `if k is None: k = E(params)`, and the value passed is
    that very E on the call's own arguments -- through a (cached) property of the class whose
    body is `v = E'; [v.setflags(..)]; return v`.  None when the call is not of that shape."""
    from ..pinned_names import PARAMS
    if not call_text:
        return None
    try:
        call = ast.parse(call_text, mode='eval').body
    except SyntaxError:
        return None
    if not (isinstance(call, ast.Call) and isinstance(call.func, ast.Name)):
        return None
    f = index.resolve_name(c.module, call.func.id)
    if not isinstance(f, Func) or f.cls is not None:
        return None
    pinned = set(PARAMS.get(f'{f.module.relpath}:{f.short}', []))
    extra = [k for k in call.keywords if k.arg is not None and k.arg not in pinned]
    if not extra or len(extra) != len([k for k in call.keywords]):
        return None
    params = [a.arg for a in f.node.args.posonlyargs + f.node.args.args]
    bound = dict(zip(params, call.args))
    body = [s_ for s_ in f.node.body if not (isinstance(s_, ast.Expr)
                                             and isinstance(s_.value, ast.Constant))]
    import copy
    from ..inline import _SubstNames
    for k in extra:
        dflt = f.param_defaults().get(k.arg)
        if not (isinstance(dflt, ast.Constant) and dflt.value is None):
            return None
        init = [s_ for s_ in body if isinstance(s_, ast.If) and not s_.orelse
                and src(s_.test) == f'{k.arg} is None' and len(s_.body) == 1
                and isinstance(s_.body[0], ast.Assign) and len(s_.body[0].targets) == 1
                and src(s_.body[0].targets[0]) == k.arg]
        if len(init) != 1:
            return None
        want_v = src(_SubstNames(bound).visit(copy.deepcopy(init[0].body[0].value)))
        v = k.value
        if isinstance(v, ast.Attribute) and src(v.value) == 'self' and \
                v.attr not in c.methods and '__init__' in c.methods:
            # computed once by the constructor and kept: self.X = E(..) in __init__
            wi = walk_function(c.methods['__init__'].node)
            sts = [e_ for e_ in wi.events if e_.kind == 'attrstore'
                   and src(e_.target) == f'self.{v.attr}' and e_.guard == ('true',)]
            others = [m_ for mn_, m_ in c.methods.items() if mn_ != '__init__'
                      and any(isinstance(x_, (ast.Assign, ast.AugAssign, ast.AnnAssign)) and
                              f'self.{v.attr}' in [src(t_) for t_ in (
                                  x_.targets if isinstance(x_, ast.Assign) else [x_.target])]
                              for x_ in ast.walk(m_.node))]
            if len(sts) != 1 or others or src(sts[0].value) != want_v:
                return None
            continue
        if not (isinstance(v, ast.Attribute) and src(v.value) == 'self' and
                v.attr in c.methods and c.methods[v.attr].node.decorator_list):
            return None
        pb = [s_ for s_ in c.methods[v.attr].node.body
              if not (isinstance(s_, ast.Expr) and isinstance(s_.value, ast.Constant))]
        pb = [s_ for s_ in pb if not (isinstance(s_, ast.Expr) and isinstance(s_.value, ast.Call)
                                      and isinstance(s_.value.func, ast.Attribute)
                                      and s_.value.func.attr == 'setflags')]
        if not (len(pb) == 2 and isinstance(pb[0], ast.Assign) and len(pb[0].targets) == 1
                and isinstance(pb[1], ast.Return) and
                src(pb[1].value) == src(pb[0].targets[0])) and \
                not (len(pb) == 1 and isinstance(pb[0], ast.Return)):
            return None
        got_v = src(pb[0].value)
        if got_v != want_v:
            return None
    return src(ast.Call(call.func, call.args, []))


def _same_channels_as_sibling(index: RepoIndex, c, fn_pref: str) -> Optional[bool]:
    """second reading of `<Cls>.convert`: with constructor constants expanded and new helpers
    read through, it computes the same three affine channels as the sibling conversion
    function, with maxima taken over the very sets the class's `space` takes them over"""
    try:
        cv = _with_init_attrs(index, c, c.methods['convert'])
        fc = index.func(REPR, f'{fn_pref}_grid_object_representation_convert')
        if cv is None:
            return None
        got, _ = channels(cv, index, cross=(fc.name,))
        ref, _ = channels(fc, index)
        # the set the class's `space` hands to the space function, as the constructor builds it
        probe = ast.parse('def probe(self):\n    return self._grid_object_types').body[0]
        pr = _with_init_attrs(index, c, Func('probe', c.module, probe, c))
        types_text = src(pr.node.body[0].value)
    except AnalysisError:
        return None         # unreadable: not a verdict
    from ..view import view
    node, vw, _ = view(index, cv, cross=(fc.name,))
    iters = {src(vw.expand(n.args[0].generators[0].iter)) for n in ast.walk(node)
             if classify_max(n) in ('T', 'S')}
    return len(got) == len(ref) and all(a == b for a, b in zip(got, ref)) and \
        iters == {types_text}


def type_sets(index: RepoIndex, rep, rule: str) -> None:
    for rel, kind, extra in ((STATE, 'State', '{NoneGridObject}'),
                             (OBSR, 'Observation', '{Hidden, NoneGridObject}')):
        sp_attr = f'self.{kind.lower()}_space'
        for pref, fn_pref, passes_sets in (('Default', 'default', False),
                                           ('NoOverlap', 'no_overlap', True)):
            c = index.cls(rel, f'{pref}GridObject{kind}Representation')
            init = index.method(c, '__init__')      # possibly inherited from a shared base
            if init is None:
                raise AnalysisError(f'{c.name}.__init__ vanished')
            w = walk_function(init.node)
            # the constructor's own parameter is the space it stores
            ips = [a.arg for a in init.node.args.args[1:]]

            def _canon(d):
                if d is None or not ips:
                    return d
                return (frozenset(sp_attr + a[len(ips[0]):] if a.startswith(ips[0] + '.')
                                  else a for a in d[0]), d[1])
            st = {src(e.target): src(e.value) for e in w.events if e.kind == 'attrstore'}
            # read as sets: `frozenset([*space.object_types, NoneGridObject])` is the same set
            from ..setden import set_den
            stv = {src(e.target): e.value for e in w.events if e.kind == 'attrstore'}
            dt = _canon(set_den(stv['self._grid_object_types'])
                        if 'self._grid_object_types' in stv else None)
            dc = _canon(set_den(stv['self._grid_object_colors'])
                        if 'self._grid_object_colors' in stv else None)
            want_t = {f'{sp_attr}.object_types'} | {
                'elt:' + x.strip() for x in extra.strip('{}').split(',')}
            ok = dt is not None and dc is not None and dt[0] == want_t and dt[1] and \
                dc[0] == {f'{sp_attr}.colors'} and dc[1]
            rep.check(ok, rule, rel, f'{c.name}.__init__', init.node.lineno,
                      f'{st.get("self._grid_object_types")}; {st.get("self._grid_object_colors")}',
                      f'{c.name}: the type set is not the space\'s object types plus {extra} '
                      f'(or the colour set is not the space\'s colours): a held None / a Hidden '
                      f'cell would exceed the type bound', f'{c.name} sets')
            sp = c.methods['space']
            b = sp.body()
            want = f'{fn_pref}_grid_object_representation_space(self._grid_object_types, ' \
                   f'self._grid_object_colors)'
            from ..view import value_text
            rep.check(value_text(index, sp) == want or
                      _without_precomputed(index, c, value_text(index, sp)) == want,
                      rule, rel, f'{c.name}.space', sp.node.lineno, src(b[-1]),
                      f'{c.name}.space does not derive its bounds from the same type/colour sets',
                      f'{c.name}.space sets')
            cv = c.methods['convert']
            b = cv.body()
            go = cv.node.args.args[1].arg
            want = (f'{fn_pref}_grid_object_representation_convert(self._grid_object_types, '
                    f'self._grid_object_colors, {go})') if passes_sets else \
                f'{fn_pref}_grid_object_representation_convert({go})'
            okc = value_text(index, cv) == want or \
                _without_precomputed(index, c, value_text(index, cv)) == want
            if not okc and passes_sets:
                okc = _same_channels_as_sibling(index, c, fn_pref)
                if okc is None:
                    raise AnalysisError(f'{c.name}.convert: `{(value_text(index, cv) or "")[:90]}` '
                                        f'is neither the sibling conversion on the class\'s own '
                                        f'sets nor readable as three affine channels')
            rep.check(okc,
                      rule, rel, f'{c.name}.convert', cv.node.lineno, src(b[-1]),
                      f'{c.name}.convert does not use the sibling conversion with the same sets',
                      f'{c.name}.convert sets')
        c = index.cls(rel, f'CompactGridObject{kind}Representation')
        init = c.methods['__init__']
        from ..view import view
        vnode, w, _ = view(index, init, cross=('compact_grid_object_representation_maps',),
                           keep=('_sorted_object_types', '_sorted_colors'))
        # every sort-by-type-index / sort-by-colour-value in the (normalised) constructor
        type_args, colour_args = [], []
        for n in ast.walk(vnode):
            if not (isinstance(n, ast.Call) and n.args):
                continue
            fs = src(n.func)
            key = next((src(k.value) for k in n.keywords if k.arg == 'key'), '')
            def set_of(e_: ast.AST) -> str:
                # `set(S)` of something that already is a set denotes S
                x = w.expand(e_)
                while isinstance(x, ast.Call) and src(x.func) in ('set', 'frozenset') and \
                        len(x.args) == 1 and not x.keywords and (
                            isinstance(x.args[0], (ast.Set, ast.SetComp)) or
                            (isinstance(x.args[0], ast.BinOp) and
                             isinstance(x.args[0].op, ast.BitOr)) or
                            (isinstance(x.args[0], ast.Call) and
                             src(x.args[0].func) in ('set', 'frozenset'))):
                    x = x.args[0]
                return src(x)
            if fs.endswith('_sorted_object_types') or (fs == 'sorted' and 'type_index()' in key):
                type_args.append(set_of(n.args[0]))
            elif fs.endswith('_sorted_colors') or (fs == 'sorted' and key.endswith('.value')):
                colour_args.append(set_of(n.args[0]))
        inner = extra.strip('{}').split(', ')
        good_t = {f'set({sp_attr}.object_types) | {{{", ".join(p_)}}}'
                  for p_ in itertools.permutations(inner)}
        ok = bool(type_args) and all(t in good_t for t in type_args)
        rep.check(bool(ok), rule, rel, f'{c.name}.__init__', init.node.lineno,
                  '; '.join(type_args), f'{c.name}: the compact maps are not built over the '
                  f'space\'s object types plus {extra}', f'{c.name} type set')
        okc = bool(colour_args) and all(t in (f'{sp_attr}.colors', f'set({sp_attr}.colors)')
                                        for t in colour_args)
        rep.check(okc, rule, rel,
                  f'{c.name}.__init__', init.node.lineno, '; '.join(colour_args),
                  f'{c.name}: the compact colour map is not built over the space\'s colours',
                  f'{c.name} colour set')


def shapes_dtypes(index: RepoIndex, rep, rule_shape: str, rule_dtype: str) -> None:
    from ..view import view
    # trusted by the shape canonicalisation (guards.dims_of): Shape.as_tuple is (height, width)
    at = index.func('gym_gridverse/geometry.py', 'Shape.as_tuple')
    b = at.body()
    from ..view import value_text
    rep.check(value_text(index, at) in ('(self.height, self.width)',), rule_shape,
              'gym_gridverse/geometry.py', 'Shape.as_tuple', at.node.lineno, src(b[-1]),
              'Shape.as_tuple is not (height, width): every array shaped by it would be '
              'transposed', 'Shape.as_tuple = (height, width)')
    for rel, kind, var in ((STATE, 'State', 'state'), (OBSR, 'Observation', 'observation')):
        sp_attr = f'self.{var}_space'
        c = index.cls(rel, f'Grid{kind}Representation')
        sp = c.methods['space']
        w = view(index, sp)[1]
        retx = [w.expand(e.value) for e in w.events if e.kind == 'return' and e.value is not None]
        rets = [src(x) for x in retx]
        gor = 'self.grid_object_representation.space'
        hw = [f'{sp_attr}.grid_shape.height', f'{sp_attr}.grid_shape.width', '1']
        # Func.node is in single-assignment form for straight-line re-assignments, so the
        # expanded return is the whole expression

        def tiled(x: ast.AST, bound: str) -> bool:
            # np.tile(b, (h, w, 1))  /  np.broadcast_to(b, (h, w) + b.shape)[.copy()]: the
            # per-object bound vector repeated over the cells of the grid
            if isinstance(x, ast.Call) and src(x.func) in ('np.tile', 'numpy.tile') and \
                    len(x.args) == 2 and not x.keywords and \
                    src(x.args[0]) == f'{gor}.{bound}' and dims_of(x.args[1]) == hw:
                return True
            if isinstance(x, ast.Call) and isinstance(x.func, ast.Attribute) and \
                    x.func.attr == 'copy' and not x.args and not x.keywords:
                x = x.func.value
            if isinstance(x, ast.Call) and src(x.func) in ('np.broadcast_to',
                                                           'numpy.broadcast_to') and \
                    len(x.args) == 2 and not x.keywords and src(x.args[0]) == f'{gor}.{bound}':
                sh = x.args[1]
                own = {f'{gor}.shape', f'{gor}.{bound}.shape'}
                if isinstance(sh, ast.BinOp) and isinstance(sh.op, ast.Add) and \
                        src(sh.right) in own:
                    return dims_of(sh.left) == hw[:2]
                if isinstance(sh, ast.Tuple) and sh.elts and \
                        isinstance(sh.elts[-1], ast.Starred) and src(sh.elts[-1].value) in own:
                    return dims_of(ast.Tuple(sh.elts[:-1], ast.Load())) == hw[:2]
            return False
        r0 = retx[0] if len(retx) == 1 else None
        if r0 is not None:
            from ..inline import inline_methods_by_name
            from ..view import VOCABULARY
            r0 = inline_methods_by_name(index, r0, exclude=VOCABULARY)
        ok = isinstance(r0, ast.Call) and src(r0.func) == 'Space' and len(r0.args) == 3 and \
            not r0.keywords and src(r0.args[0]) == f'{gor}.space_type' and \
            tiled(r0.args[1], 'lower_bound') and tiled(r0.args[2], 'upper_bound')
        rep.check(ok, rule_shape, rel, f'{c.name}.space', sp.node.lineno, '; '.join(rets)[:160],
                  f'{c.name}.space does not tile the per-object bounds by (height, width, 1) of '
                  f'the space\'s grid shape', f'{c.name}.space tiled (h, w, 1)')
        cv = c.methods['convert']
        p = cv.node.args.args[1].arg
        vnode = view(index, cv)[0]
        # a dictionary that only memoises the per-object conversion within one call is read
        # through -- provided its key determines the encoding (the three fields of C16.R1)
        from ..normalise import eliminate_local_memo, normalise_function
        em = eliminate_local_memo(vnode)
        if em is not None:
            w0 = walk_function(vnode)
            for M_, K_, E_ in em[1]:
                cell = src(E_.args[0]) if isinstance(E_, ast.Call) and len(E_.args) == 1 else None
                kx = w0.expand(ast.parse(K_, mode='eval').body, stop=[cell] if cell else [])
                parts = {src(x) for x in (kx.elts if isinstance(kx, ast.Tuple) else [kx])}
                need = [{f'type({cell})'}, {f'{cell}.state_index', f'{cell}.state'},
                        {f'{cell}.color', f'{cell}.color.value'}]
                missing = [sorted(n_)[0] for n_ in need if not (n_ & parts)]
                rep.check(cell is not None and not missing, rule_shape, rel, f'{c.name}.convert',
                          cv.node.lineno, f'{M_}[{src(kx)}] = {src(E_)}',
                          f'{c.name}.convert memoises encodings under a key that leaves out '
                          f'{missing}: two cells that differ there share one encoding',
                          f'{c.name}.convert memo key')
            vnode = normalise_function(em[0])
        w = walk_function(vnode)
        rets = [e for e in w.events if e.kind == 'return' and e.value is not None]
        ok = bool(rets)
        got = ''
        recognised = bool(rets)
        for ret_ in rets:
            r = w.expand(ret_.value)
            got = src(r)
            ok1 = False
            if isinstance(r, ast.Call) and src(r.func) == 'np.array' and r.args and \
                    isinstance(r.args[0], ast.ListComp) and \
                    isinstance(r.args[0].elt, ast.ListComp):
                from ..cellimage import _cols_of, _rows_of2
                outer, inner = r.args[0], r.args[0].elt
                yv, xv = src(outer.generators[0].target), src(inner.generators[0].target)
                G = f'{p}.grid'
                cells = (f'{G}[{yv}, {xv}]', f'{G}[({yv}, {xv})]', f'{G}.objects[{yv}][{xv}]',
                         f'{G}[Position({yv}, {xv})]')
                ok1 = len(outer.generators) == 1 and len(inner.generators) == 1 and \
                    not outer.generators[0].ifs and not inner.generators[0].ifs and \
                    _rows_of2(outer.generators[0].iter) == G and \
                    _cols_of(inner.generators[0].iter) == G and \
                    src(inner.elt) in [f'self.grid_object_representation.convert({c_})'
                                       for c_ in cells]
                dt = [src(a) for a in r.args[1:]] + [src(k.value) for k in r.keywords
                                                     if k.arg == 'dtype']
                rep.check(dt == ['int'], rule_dtype, rel, f'{c.name}.convert', cv.node.lineno,
                          got[:120], f'{c.name}.convert builds dtype {dt}, not int',
                          f'{c.name}.convert int')
            else:
                recognised = False
            ok = ok and ok1
        if not ok and not recognised:
            # a vectorised conversion: a different algorithm, not a verdict
            raise AnalysisError(f'{c.name}.convert is not a cell-by-cell nested comprehension '
                                f'(outside the grammar of the positional rule)')
        rep.check(ok, rule_shape, rel, f'{c.name}.convert', cv.node.lineno, got[:200],
                  f'{c.name}.convert does not place the encoding of cell (y, x) at entry [y][x] '
                  f'(y over the height outside, x over the width inside)',
                  f'{c.name}.convert positional')
        c = index.cls(rel, f'AgentIDGrid{kind}Representation')
        sp = c.methods['space']
        w = view(index, sp)[1]
        retx = [w.expand(e.value) for e in w.events if e.kind == 'return' and e.value is not None]
        rets = [src(x) for x in retx]
        hw = [f'{sp_attr}.grid_shape.height', f'{sp_attr}.grid_shape.width']

        def filled(x: ast.AST, fn: str) -> bool:
            if not (isinstance(x, ast.Call) and src(x.func) in (f'np.{fn}', f'numpy.{fn}')
                    and x.args and dims_of(x.args[0]) == hw):
                return False
            dt = [src(a) for a in x.args[1:]] + [src(k.value) for k in x.keywords
                                                 if k.arg == 'dtype']
            return dt == ['int'] and all(k.arg == 'dtype' for k in x.keywords)
        r0 = retx[0] if len(retx) == 1 else None
        okb = isinstance(r0, ast.Call) and src(r0.func) == 'Space.make_discrete_space' and \
            len(r0.args) == 2 and not r0.keywords and filled(r0.args[0], 'zeros') and \
            filled(r0.args[1], 'ones')
        rep.check(okb, rule_shape, rel, f'{c.name}.space', sp.node.lineno,
                  '; '.join(rets), f'{c.name}.space is not the integer box [0, 1]^(height, width)',
                  f'{c.name}.space')
        cv = c.methods['convert']
        p = cv.node.args.args[1].arg
        w = view(index, cv)[1]
        rets = [e for e in w.events if e.kind == 'return' and e.value is not None]
        arr = src(rets[0].value) if len(rets) == 1 else ''
        d = w.sole_binding(arr) if arr.isidentifier() else None
        stores = [e for e in w.events if e.kind == 'store' and src(e.target.value) == arr]
        ok = False
        if d is not None and d[0] == 'value' and len(stores) == 1:
            z = w.expand(d[1])
            dt = [src(a) for a in z.args[1:]] + [src(k.value) for k in z.keywords] \
                if isinstance(z, ast.Call) else []
            sl = src(w.expand(ast.Subscript(ast.Name('_', ast.Load()), stores[0].target.slice,
                                            ast.Load())).slice)
            ok = isinstance(z, ast.Call) and src(z.func) in ('np.zeros', 'numpy.zeros') and \
                len(z.args) >= 1 and \
                dims_of(z.args[0]) == [f'{p}.grid.shape.height', f'{p}.grid.shape.width'] and \
                dt == ['int'] and all(k.arg == 'dtype' for k in z.keywords) and \
                sl in (f'{p}.agent.position.yx',
                       f'({p}.agent.position.y, {p}.agent.position.x)') and \
                src(stores[0].value) == '1' and stores[0].guard == ('true',)
        rep.check(bool(ok), rule_shape, rel, f'{c.name}.convert', cv.node.lineno,
                  '; '.join(src(e.stmt) for e in stores),
                  f'{c.name}.convert is not a zero integer array of the grid shape with exactly '
                  f'one 1 at the agent position', f'{c.name}.convert marker')
        c = index.cls(rel, f'Item{kind}Representation')
        for mn, want in (('space', 'self.grid_object_representation.space'),
                         ('convert', None)):
            m = c.methods[mn]
            b = m.body()
            if want is None:
                p = m.node.args.args[1].arg
                want = f'self.grid_object_representation.convert({p}.agent.grid_object)'
            from ..view import value_text
            rep.check(value_text(index, m) == want,
                      rule_shape, rel, f'{c.name}.{mn}', m.node.lineno, src(b[-1]),
                      f'{c.name}.{mn} is not the per-object {mn} of the held item',
                      f'{c.name}.{mn}')
        dc = index.cls(rel, f'Dict{kind}Representation')
        for mn, el in (('space', 'representation.space'), ('convert', None)):
            m = dc.methods[mn]
            w = walk_function(m.node)
            rets = [src(e.value) for e in w.events if e.kind == 'return' and e.value is not None]
            if el is None:
                p = m.node.args.args[1].arg
                el = f'representation.convert({p})'
            want = f'{{key: {el} for key, representation in self.representations.items()}}'
            rep.check(rets == [want], rule_shape, rel, f'{dc.name}.{mn}', m.node.lineno,
                      '; '.join(rets), f'{dc.name}.{mn} does not map every key to its part\'s '
                      f'{mn}', f'{dc.name}.{mn} key by key')


def agent_vector(index: RepoIndex, rep, rule: str, rule_dtype: str) -> None:
    c = index.cls(STATE, 'AgentStateRepresentation')
    sp = c.methods['space']
    w = walk_function(sp.node)
    rets = [src(e.value) for e in w.events if e.kind == 'return' and e.value is not None]
    want = ('Space.make_continuous_space(np.array([-1.0, -1.0, 0.0, 0.0, 0.0, 0.0]), '
            'np.array([1.0, 1.0, 1.0, 1.0, 1.0, 1.0]))')
    rep.check(rets == [want], rule_dtype, STATE, 'AgentStateRepresentation.space',
              sp.node.lineno, '; '.join(rets),
              'the agent space is not the float box [-1,1]^2 x [0,1]^4', 'agent space floats')
    cv = c.methods['convert']
    p = cv.node.args.args[1].arg
    from ..view import view
    _node, w, _inl = view(index, cv)
    rets = [e for e in w.events if e.kind == 'return' and e.value is not None]
    try:
        from ..inline import inline_pure_exprs
        rv = inline_pure_exprs(index, cv.module, cv.cls, rets[0].value) if len(rets) == 1 \
            else None
        cells, is_float = vector_of(w, rv) if rv is not None else (None, False)
    except AnalysisError as ex:
        if 'outside the vector' not in str(ex):
            raise           # a spelling the vector grammar does not cover is not a verdict
        cells, is_float = None, False
        rep.note(f'agent vector: {ex}')
    rep.check(cells is not None and len(cells) == 6 and is_float, rule_dtype, STATE,
              'AgentStateRepresentation.convert', cv.node.lineno,
              src(rets[0].value) if rets else '',
              'the agent vector is not a float array of length 6', 'agent vector float[6]')
    if cells is None or len(cells) != 6:
        return
    for idx, coord, dim in ((0, 'y', 'height'), (1, 'x', 'width')):
        v = cells[idx] if cells[idx][0] == 'expr' else None
        v = v[1] if v else None
        ok = False
        detail = src(v) if v is not None else ''
        if isinstance(v, ast.BinOp) and isinstance(v.op, ast.Div):
            env = {f'{p}.agent.position.{coord}': Aff.sym('p'),
                   f'{p}.grid.shape.{dim}': Aff.sym('H')}
            try:
                num = aff_of(v.left, lambda e: env.get(src(e)))
                den = aff_of(v.right, lambda e: env.get(src(e)))
                S = Aff.sym
                # range over 0 <= p <= H-1, H >= 2:  num + den >= 0 and den - num >= 0, den > 0
                F = Facts()
                F.add_ge(S('p'), 0)
                F.add_le(S('p'), S('H') - 1)
                F.add_ge(S('H'), 2)
                ok = prove_ge0(num + den, F) and prove_ge0(den - num, F) and \
                    prove_ge0(den - 1, F)
                # tight: attains -1 at p = 0 and 1 at p = H-1
                ok = ok and (num + den).subst({'p': Aff.const(0)}) == Aff.const(0) and \
                    (den - num).subst({'p': S('H') - 1}) == Aff.const(0)
            except NonAffine:
                ok = False
        rep.check(ok, rule, STATE, 'AgentStateRepresentation.convert', cv.node.lineno, detail,
                  f'the normalised {coord} coordinate `{detail}` does not range over [-1, 1] for '
                  f'0 <= {coord} <= {dim}-1', f'agent {coord} in [-1, 1]')
    ori = index.enum('Orientation')
    hot = cells[2:]
    ok = all(h[0] == 'hot' for h in hot) and len({(h[1], h[2], h[4]) for h in hot}) == 1 and \
        [h[3] for h in hot] == [0, 1, 2, 3] and hot[0][1] == f'{p}.agent.orientation.value' \
        and hot[0][2] == '1' and hot[0][4] == 4
    vals = sorted(ori.members.values())
    rep.check(ok and vals == [0, 1, 2, 3], rule, STATE, 'AgentStateRepresentation.convert',
              cv.node.lineno, '; '.join(str(h[:4]) for h in hot),
              'the heading is not one-hot encoded at index 2 + orientation.value with values '
              '0..3 (index at most 5)', 'one-hot heading within the vector')


_FLOATS = ('float', 'np.float64', 'np.float32')


def _zero_block(w, v: ast.AST):
    """(length, is_float) of a fresh all-zero vector: np.zeros(n), a display of zeros,
    `[0.0] * n`; None otherwise"""
    v = w.expand(v)
    if isinstance(v, ast.Call) and src(v.func) in ('np.zeros', 'numpy.zeros') and \
            len(v.args) == 1 and isinstance(v.args[0], ast.Constant) and \
            isinstance(v.args[0].value, int):
        isf = not v.keywords or all(k.arg == 'dtype' and src(k.value) in _FLOATS
                                    for k in v.keywords)
        return v.args[0].value, isf
    if isinstance(v, ast.List) and v.elts and \
            all(isinstance(x, ast.Constant) and x.value == 0 and not isinstance(x.value, bool)
                for x in v.elts):
        return len(v.elts), all(isinstance(x.value, float) for x in v.elts)
    if isinstance(v, ast.BinOp) and isinstance(v.op, ast.Mult):
        for l, n in ((v.left, v.right), (v.right, v.left)):
            if isinstance(l, ast.List) and len(l.elts) == 1 and \
                    isinstance(l.elts[0], ast.Constant) and l.elts[0].value == 0 and \
                    isinstance(n, ast.Constant) and isinstance(n.value, int) and n.value > 0:
                return n.value, isinstance(l.elts[0].value, float)
    return None


def _block_of(w, name: str):
    """cells of a named zero vector after its element stores, or None"""
    d = w.sole_binding(name)
    if d is None or d[0] != 'value':
        return None
    zb = _zero_block(w, d[1])
    if zb is None:
        return None
    n, isf = zb
    cells = [('zero',)] * n
    for ev in w.events:
        if ev.kind == 'store' and isinstance(ev.target, ast.Subscript) and \
                src(ev.target.value) == name:
            idx = w.expand(ev.target.slice)
            val = w.expand(ev.value)
            if isinstance(val, ast.Constant) and isinstance(val.value, float):
                isf = True
            if isinstance(idx, ast.Constant) and isinstance(idx.value, int) and \
                    0 <= idx.value < n:
                cells[idx.value] = ('expr', val)
                continue
            base, var = 0, idx
            if isinstance(idx, ast.BinOp) and isinstance(idx.op, ast.Add):
                for a, b in ((idx.left, idx.right), (idx.right, idx.left)):
                    if isinstance(a, ast.Constant) and isinstance(a.value, int):
                        base, var = a.value, b
            if not 0 <= base < n:
                raise AnalysisError(f'store `{src(ev.stmt)}` outside the vector')
            hv = src(val)
            if isinstance(val, ast.Constant) and val.value == 1:
                hv = '1'
            for k in range(base, n):
                cells[k] = ('hot', src(var), hv, k - base, n - base)
        elif ev.kind in ('augstore', 'attrstore') and src(ev.target).startswith(name):
            raise AnalysisError(f'vector `{name}` is updated by `{src(ev.stmt)}`')
    return cells, isf


def vector_of(w, e: ast.AST, depth: int = 4):
    """cells of a small vector-valued expression: ('expr', node) | ('zero',) |
    ('hot', index text, value text, position in the block, block width), and whether the
    array is float-typed.  Understood: a zero vector (np.zeros(n), a display of zeros,
    `[0.0] * n`) filled by element stores (constant index, or constant + index expression: a
    one-hot block reaching the end of the vector), list / tuple / np.array displays with
    starred parts, np.concatenate / np.hstack of such parts"""
    if depth <= 0:
        raise AnalysisError('vector expression too deep')
    if isinstance(e, ast.Name):
        blk = _block_of(w, e.id)
        if blk is not None:
            return blk
        d = w.sole_binding(e.id)
        if d is None or d[0] != 'value':
            raise AnalysisError(f'vector `{e.id}` has no single definition')
        return vector_of(w, d[1], depth - 1)
    if isinstance(e, (ast.List, ast.Tuple)):
        cells = []
        floats = []
        for x in e.elts:
            if isinstance(x, ast.Starred):
                c, f_ = vector_of(w, x.value, depth - 1)
                cells += c
                floats.append(f_)
            else:
                v = w.expand(x)
                cells.append(('expr', v))
                floats.append(isinstance(v, ast.BinOp) and isinstance(v.op, ast.Div) or
                              (isinstance(v, ast.Constant) and isinstance(v.value, float)))
        # numpy promotes a display with any float entry; a display of ints only is integer
        return cells, bool(floats) and all(floats)
    if isinstance(e, ast.Call) and src(e.func) in ('np.array', 'numpy.array', 'np.asarray') and \
            e.args:
        cells, isf = vector_of(w, e.args[0], depth - 1)
        kw = {k.arg: src(k.value) for k in e.keywords}
        if 'dtype' in kw:
            isf = kw['dtype'] in _FLOATS
        return cells, isf
    if isinstance(e, ast.Call) and src(e.func) in ('np.concatenate', 'np.hstack',
                                                   'numpy.concatenate') and len(e.args) == 1 \
            and isinstance(e.args[0], (ast.Tuple, ast.List)) and not e.keywords:
        cells, isf = [], False
        for part in e.args[0].elts:
            c, f_ = vector_of(w, part, depth - 1)
            cells += c
            isf = isf or f_       # numpy promotes to float when any part is float
        return cells, isf
    raise AnalysisError(f'vector expression outside the grammar: `{src(e)[:60]}`')


def run(index: RepoIndex, rep) -> None:
    rep.rule('C15.R8', 'row and column quantities are not exchanged in the representations (axis typing, E14)', floor=1)
    from ..axes import axis_rule
    axis_rule(index, rep, 'C15.R8', ('gym_gridverse/representations/', 'gym_gridverse/spaces.py'), floor=12)
    rep.rule('C15.R1', 'per-object bounds: 0 <= channel <= bound (affine proof); state_index < '
             'num_states per class; compact bounded by map maxima', floor=20)
    rep.rule('C15.R2', 'the type/colour sets handed to space and convert agree and include '
             'NoneGridObject (and Hidden for observations)', floor=16)
    rep.rule('C15.R3', 'shapes: grid spaces tile (height, width, 1); convert nests y outside x; '
             'marker grids (height, width); dict keys', floor=16)
    rep.rule('C15.R4', 'dtypes: integer for categorical/discrete, float for the agent vector',
             floor=4)
    rep.rule('C15.R5', 'agent vector: normalised coordinates in [-1, 1], one-hot index <= 5',
             floor=3)
    rep.rule('C15.R6', 'gym spaces are Boxes over the representation bounds and follow a '
             'representation switch (C20.R3, C20.R5)', floor=5)
    rep.rule('C15.R7', 'membership predicates check colours (C01.R3)', floor=20)
    per_object_bounds(index, rep, 'C15.R1')
    type_sets(index, rep, 'C15.R2')
    shapes_dtypes(index, rep, 'C15.R3', 'C15.R4')
    agent_vector(index, rep, 'C15.R5', 'C15.R4')
    from .c20 import check_gym_space, representation_switch
    check_gym_space(index, rep, 'C15.R6')
    representation_switch(index, rep, 'C15.R6')
    from .c20 import constructor_spaces
    constructor_spaces(index, rep, 'C15.R6')
    from .c01 import membership
    membership(index, rep, 'C15.R7')
    # Space checks dtype compatibility on construction
    # which numpy kind each space type admits: CATEGORICAL / DISCRETE integer, CONTINUOUS
    # floating -- read as a table over the members of SpaceType from either spelling (a chain
    # of `space_type is SpaceType.X` returns, or a lookup in a module-level table)
    sp = index.func(RSP, 'is_dtype_compatible')
    from ..guards import expand_under, strip_iter, truth_under
    from .c20 import _dtype_by_space_type
    xp, tp = [a_.arg for a_ in sp.node.args.args[:2]]
    wsp = walk_function(sp.node)
    KIND = {'np.integer': 'integer', 'np.floating': 'floating', 'numpy.integer': 'integer',
            'numpy.floating': 'floating'}

    def kind_leaf(x: ast.AST):
        t = src(x)
        if t in KIND:
            return KIND[t]
        if t == f'is_dtype_integer({xp})':
            return 'integer'
        if t == f'is_dtype_floating({xp})':
            return 'floating'
        if isinstance(x, ast.Call) and src(x.func) in ('np.issubdtype', 'numpy.issubdtype') and \
                len(x.args) == 2 and src(x.args[0]) == f'{xp}.dtype' and src(x.args[1]) in KIND:
            return KIND[src(x.args[1])]
        return None
    got_kinds = {}
    for mem in index.enum('SpaceType').members:
        def at(a_, mem=mem):
            if isinstance(a_, ast.Call) and src(a_.func) == 'isinstance' and len(a_.args) == 2 \
                    and src(a_.args[0]) == tp:
                return src(a_.args[1]) == 'SpaceType'       # a member is a SpaceType
            if isinstance(a_, ast.Compare) and len(a_.ops) == 1 and src(a_.left) == tp and \
                    src(a_.comparators[0]).startswith('SpaceType.'):
                same = src(a_.comparators[0]) == f'SpaceType.{mem}'
                if isinstance(a_.ops[0], (ast.Is, ast.Eq)):
                    return same
                if isinstance(a_.ops[0], (ast.IsNot, ast.NotEq)):
                    return not same
            return None

        def no_raise(fm):
            return False if fm[0] == 'raises' else None     # a member is a key of the table
        val = None
        for e_ in wsp.events:
            if e_.kind in ('return', 'raise') and \
                    truth_under(strip_iter(e_.guard), at, no_raise) is True:
                if e_.kind == 'return' and e_.value is not None:
                    val = expand_under(wsp, e_.value, at, other=no_raise)
                break
        if val is None:
            got_kinds[mem] = None
            continue
        if isinstance(val, ast.Call) and isinstance(val.func, ast.Subscript) and \
                isinstance(val.func.value, ast.Name) and src(val.func.slice) == tp:
            # `_CHECKS[space_type](x)`: the entry of a module-level table over the members
            from ..consteval import module_constant
            tv = module_constant(sp.module, val.func.value.id)
            if isinstance(tv, ast.Call) and len(tv.args) == 1:
                tv = tv.args[0]             # MappingProxyType({...}) / dict({...})
            if isinstance(tv, ast.Dict):
                ent = {src(k__): v__ for k__, v__ in zip(tv.keys, tv.values) if k__ is not None}
                if f'SpaceType.{mem}' in ent:
                    val = ast.Call(ent[f'SpaceType.{mem}'], val.args, val.keywords)
        k_ = kind_leaf(val)
        if k_ is None and isinstance(val, ast.Call) and \
                src(val.func) in ('np.issubdtype', 'numpy.issubdtype') and len(val.args) == 2 \
                and src(val.args[0]) == f'{xp}.dtype':
            tbl = _dtype_by_space_type(index, sp, val.args[1], '', st=tp, leaf=kind_leaf)
            k_ = tbl.get(mem) if tbl else None
        got_kinds[mem] = k_
    if any(v_ is None for v_ in got_kinds.values()):
        raise AnalysisError(f'is_dtype_compatible: the kind admitted per space type is not '
                            f'readable ({got_kinds})')
    rep.check(got_kinds == {'CATEGORICAL': 'integer', 'DISCRETE': 'integer',
                            'CONTINUOUS': 'floating'}, 'C15.R4', RSP, 'is_dtype_compatible',
              sp.node.lineno, str(got_kinds),
              f'space dtype compatibility is {got_kinds}, documented: categorical and discrete '
              f'spaces hold integers, continuous ones floats', 'dtype compatibility table')
