"""C20 -- the gym adapter is a faithful view of the wrapped environment."""
from __future__ import annotations

import ast
from typing import Dict, List, Optional

from ..core import AnalysisError, src
from ..guards import GuardWalk, show, strip_iter, walk_function
from ..index import RepoIndex

EXPLANATION = (
    'Delegation and ordering templates decided on the guard walk of the seven adapter '
    'methods: the action index is mapped through ActionSpace.int_to_action (= actions[i]) '
    'and passed unchanged to outer_env.step exactly once; the observation returned by '
    'step/reset is read after the delegated call; reward and flag are the components of '
    'that same call; the state wrapper returns env.state and forwards the wrapped '
    'observation in info; representation switches update representation and advertised '
    'space together; the gym spaces are Boxes over the representation bounds.')
TRUSTED = ['gym library semantics (Box, Dict, Discrete, Wrapper)', 'C04.R5, C15.R6']

GYM = 'gym_gridverse/gym.py'
SPACES = 'gym_gridverse/spaces.py'


def order_of_first_call(w: GuardWalk, func_src: str) -> Optional[int]:
    for e in w.events:
        if e.kind == 'call' and src(e.node.func) == func_src:
            return e.order
    return None


def read_after(w: GuardWalk, elt: ast.AST, want: str, after: int, ret_order: int) -> bool:
    """`elt` (an element of the returned tuple) denotes `want` evaluated after order `after`"""
    if src(elt) == want:
        return ret_order > after
    if isinstance(elt, ast.Name):
        d = w.single_def(elt.id)
        if d is not None and d[0] == 'value' and src(d[1]) == want:
            return d[2] > after
    return False


def _possible(f, term: str, isnone: bool) -> bool:
    """the guard can hold with `term is None` = isnone, for some valuation of its other atoms"""
    from ..guards import prop_assignments, prop_truth
    keys = {f'{term} is None': isnone, f'{term} is not None': not isnone}
    for asg in prop_assignments(f):
        if all(asg.get(k, v) == v for k, v in keys.items()) and prop_truth(f, asg):
            return True
    return False


def calls_to(w, text: str):
    """call events whose callee, locals expanded, is `text`"""
    return [e for e in w.events if e.kind == 'call' and src(w.expand(e.node.func)) == text]


def run(index: RepoIndex, rep) -> None:
    from ..view import view
    rep.rule('C20.R1', 'GymEnvironment.step/reset: index -> actions[i] -> outer_env.step once; '
             'observation read after the call; reward/flag of that call', floor=8)
    rep.rule('C20.R2', 'GymStateWrapper returns env.state, forwards the observation in info, '
             'advertises the state space', floor=6)
    rep.rule('C20.R3', 'set_*_representation update representation and gym space together',
             floor=4)
    rep.rule('C20.R4', 'constructor derives the three gym spaces from the outer environment',
             floor=3)
    rep.rule('C20.R5', 'outer_space_to_gym_space: Box(low=lower_bound, high=upper_bound, float '
             'iff continuous) per key', floor=1)
    rep.rule('C20.R6', 'seed forwards to inner_env.set_seed', floor=1)

    ge = index.cls(GYM, 'GymEnvironment')
    # int_to_action
    m = index.func(SPACES, 'ActionSpace.int_to_action')
    p = m.node.args.args[1].arg
    b = m.body()
    from ..view import value_text
    rep.check(value_text(index, m) == f'self.actions[{p}]', 'C20.R1', SPACES,
              'ActionSpace.int_to_action', m.node.lineno, src(b[-1]),
              'int_to_action(i) is not actions[i]', 'int_to_action')
    for prop, want in (('observation', 'self.outer_env.observation'),
                       ('state', 'self.outer_env.state')):
        m = ge.methods.get(prop)
        if m is None:
            raise AnalysisError(f'anchor vanished: GymEnvironment.{prop}')
        b = m.body()
        rep.check(value_text(index, m) == want,
                  'C20.R1', GYM, f'GymEnvironment.{prop}', m.node.lineno, src(b[-1]),
                  f'GymEnvironment.{prop} is not {want}', f'property {prop}')
    # step
    m = ge.methods.get('step')
    if m is None:
        raise AnalysisError('anchor vanished: GymEnvironment.step')
    w = view(index, m)[1]
    ap = m.node.args.args[1].arg
    steps = calls_to(w, 'self.outer_env.step')
    rep.check(len(steps) == 1 and not steps[0].loops, 'C20.R1', GYM, 'GymEnvironment.step',
              m.node.lineno, '; '.join(src(s.node) for s in steps),
              f'step calls outer_env.step {len(steps)} times', 'one step call')
    if steps:
        sc = steps[0]
        arg = src(w.expand(sc.node.args[0])) if sc.node.args else ''
        if arg == ap and len(sc.node.args) == 1:
            # the index is handed down as it is: OuterEnv.step resolves what is not an Action
            from .c04 import outer_step_argument
            op_ = index.cls('gym_gridverse/outer_env.py', 'OuterEnv').methods['step'] \
                .node.args.args[1].arg
            if outer_step_argument(index, False) == f'self.action_space.int_to_action({op_})':
                arg = f'self.outer_env.action_space.int_to_action({ap})'
        rep.check(arg == f'self.outer_env.action_space.int_to_action({ap})' and len(sc.node.args) == 1,
                  'C20.R1', GYM, 'GymEnvironment.step', sc.line, src(sc.node),
                  f'outer_env.step receives `{arg}`, not int_to_action of the given index',
                  'action mapping')
        rets = [e for e in w.events if e.kind == 'return' and e.value is not None]
        rep.check(len(rets) >= 1, 'C20.R1', GYM, 'GymEnvironment.step', m.node.lineno, 'return',
                  'step does not return')
        call_s = src(w.expand(sc.node))
        for r in rets:
            v = r.value
            ok = isinstance(v, ast.Tuple) and len(v.elts) == 4
            if ok:
                ex = [src(w.expand(x)) for x in v.elts]
                ok = read_after(w, v.elts[0], 'self.observation', sc.order, r.order) and \
                    ex[1] == f'{call_s}[0]' and ex[2] == f'{call_s}[1]' and ex[3] in ('{}', 'dict()')
            rep.check(ok, 'C20.R1', GYM, 'GymEnvironment.step', r.line, src(r.stmt),
                      'step does not return (observation read after the step, reward, flag of '
                      'that step, {})', 'step result')
    # reset
    m = ge.methods.get('reset')
    if m is None:
        raise AnalysisError('anchor vanished: GymEnvironment.reset')
    w = view(index, m)[1]
    rc = calls_to(w, 'self.outer_env.reset')
    rets = [e for e in w.events if e.kind == 'return' and e.value is not None]
    rep.check(len(rc) == 1 and bool(rets) and all(
        read_after(w, r.value, 'self.observation', rc[0].order, r.order) for r in rets),
        'C20.R1', GYM, 'GymEnvironment.reset', m.node.lineno,
        '; '.join(src(r.stmt) for r in rets),
        'reset does not call outer_env.reset() once and then return the fresh observation',
        'reset')

    # ---------------------------------------------------------------- R2
    sw = index.cls(GYM, 'GymStateWrapper')
    m = sw.methods.get('observation')
    b = m.body() if m else []
    rep.check(m is not None and value_text(index, m) == 'self.env.state', 'C20.R2', GYM,
              'GymStateWrapper.observation', m.node.lineno if m else sw.node.lineno,
              src(b[-1]) if b else '', 'the state wrapper\'s observation is not env.state',
              'wrapper observation')
    m = sw.methods.get('step')
    if m is None:
        raise AnalysisError('anchor vanished: GymStateWrapper.step')
    w = view(index, m)[1]
    ap = m.node.args.args[1].arg
    steps = calls_to(w, 'self.env.step')
    rep.check(len(steps) == 1 and [src(a) for a in steps[0].node.args] == [ap], 'C20.R2', GYM,
              'GymStateWrapper.step', m.node.lineno, '; '.join(src(s.node) for s in steps),
              'the wrapper does not call env.step(action) exactly once', 'one step call')
    if steps:
        sc = steps[0]
        call_s = src(sc.node)
        stores = [e for e in w.events if e.kind == 'store']
        info_ok = any(src(w.expand(e.target)) == f"{call_s}[3]['observation']"
                      and e.value is not None and src(w.expand(e.value)) == f'{call_s}[0]'
                      for e in stores)
        rep.check(info_ok, 'C20.R2', GYM, 'GymStateWrapper.step', sc.line,
                  '; '.join(src(e.stmt) for e in stores),
                  "the wrapped observation is not passed through info['observation']",
                  'info observation')
        for r in [e for e in w.events if e.kind == 'return' and e.value is not None]:
            v = r.value
            ok = isinstance(v, ast.Tuple) and len(v.elts) == 4
            if ok:
                ex = [src(w.expand(x)) for x in v.elts]
                ok = read_after(w, v.elts[0], 'self.observation', sc.order, r.order) and \
                    ex[1] == f'{call_s}[1]' and ex[2] == f'{call_s}[2]' and ex[3] == f'{call_s}[3]'
            rep.check(ok, 'C20.R2', GYM, 'GymStateWrapper.step', r.line, src(r.stmt),
                      'the wrapper does not return (state after the step, reward, flag, info)',
                      'wrapper result')
    m = sw.methods.get('reset')
    if m is None:
        raise AnalysisError('anchor vanished: GymStateWrapper.reset')
    w = walk_function(m.node)
    rc = [e for e in w.events if e.kind == 'call' and src(e.node.func) == 'self.env.reset']
    rets = [e for e in w.events if e.kind == 'return' and e.value is not None]
    rep.check(len(rc) == 1 and bool(rets) and all(
        read_after(w, r.value, 'self.observation', rc[0].order, r.order) for r in rets),
        'C20.R2', GYM, 'GymStateWrapper.reset', m.node.lineno,
        '; '.join(src(r.stmt) for r in rets),
        'wrapper reset does not call env.reset() once and then return the state', 'wrapper reset')
    m = sw.methods.get('__init__')
    if m is None:
        raise AnalysisError('anchor vanished: GymStateWrapper.__init__')
    w = walk_function(m.node)
    ep = m.node.args.args[1].arg
    st = [e for e in w.events if e.kind == 'attrstore'
          and src(e.target) == 'self.observation_space']
    rep.check(len(st) == 1 and src(st[0].value) == f'{ep}.state_space', 'C20.R2', GYM,
              'GymStateWrapper.__init__', m.node.lineno, '; '.join(src(e.stmt) for e in st),
              'the wrapper does not advertise the wrapped state space as its observation space',
              'wrapper space')

    # ---------------------------------------------------------------- R3
    representation_switch(index, rep, 'C20.R3')

    # ---------------------------------------------------------------- R4
    constructor_spaces(index, rep, 'C20.R4')

    # ---------------------------------------------------------------- R5
    check_gym_space(index, rep, 'C20.R5')

    # ---------------------------------------------------------------- R7
    rep.rule('C20.R7', 'the outer environment converts the current inner state/observation on '
             'every read and delegates reset/step (C04.R5)', floor=6)
    outer_env_rules(index, rep, 'C20.R7')

    rep.rule('C20.R8', 'what the adapter returns lies in the advertised spaces: per-object '
             'bounds of the representations (C15.R1) over the type sets of the space (C15.R2)',
             floor=20)
    from .c15 import per_object_bounds, type_sets
    per_object_bounds(index, rep, 'C20.R8')
    type_sets(index, rep, 'C20.R8')
    from .c15 import shapes_dtypes
    shapes_dtypes(index, rep, 'C20.R8', 'C20.R8')
    # the bounds are snapshots taken when the spaces are built, type_index is looked up in the
    # registry at conversion time: the registry may only grow at its end (C16.R1)
    from .c16 import registry_append_only
    registry_append_only(index, rep, 'C20.R8')

    # ---------------------------------------------------------------- R6
    m = ge.methods.get('seed')
    if m is None:
        raise AnalysisError('anchor vanished: GymEnvironment.seed')
    w = walk_function(m.node)
    calls = [e for e in w.events if e.kind == 'call'
             and src(e.node.func) == 'self.outer_env.inner_env.set_seed']
    if not calls:
        # through a pass-through of the outer environment: `self.outer_env.set_seed(seed)`
        # with OuterEnv.set_seed handing its own parameter to inner_env.set_seed, once
        via = [e for e in w.events if e.kind == 'call'
               and src(e.node.func) == 'self.outer_env.set_seed']
        om = index.cls('gym_gridverse/outer_env.py', 'OuterEnv').methods.get('set_seed')
        if len(via) == 1 and len(via[0].node.args) == 1 and om is not None:
            ow = walk_function(om.node)
            ops = [a.arg for a in om.node.args.args[1:]]
            inner = [e for e in ow.events if e.kind == 'call'
                     and src(e.node.func) == 'self.inner_env.set_seed']
            if len(inner) == 1 and len(inner[0].node.args) == 1 and ops and \
                    src(inner[0].node.args[0]) == ops[0] and \
                    show(strip_iter(inner[0].guard)) == 'True' and not ow.defs.get(ops[0]):
                calls = via
    rep.check(len(calls) == 1 and len(calls[0].node.args) == 1, 'C20.R6', GYM,
              'GymEnvironment.seed', m.node.lineno, '; '.join(src(c.node) for c in calls),
              'seed() does not forward a seed to inner_env.set_seed', 'seed')


def _dtype_by_space_type(index: RepoIndex, f, e: ast.AST, v: str, st: str = '', leaf=None):
    """{member of SpaceType: dtype text} denoted by a dtype expression over `v.space_type`: a
    conditional on identity / equality / membership tests, or a lookup in a module-level dict
    literal keyed by the members.  None when the expression is neither."""
    members = list(index.enum('SpaceType').members)
    st = st or f'{v}.space_type'

    def member(x: ast.AST):
        t = src(x)
        return t.split('.')[-1] if t.startswith('SpaceType.') and t.split('.')[-1] in members \
            else None

    def truth(t: ast.AST, m: str):
        if isinstance(t, ast.UnaryOp) and isinstance(t.op, ast.Not):
            r = truth(t.operand, m)
            return None if r is None else not r
        if isinstance(t, ast.Compare) and len(t.ops) == 1:
            l, r, op = t.left, t.comparators[0], t.ops[0]
            if src(r) == st:
                l, r = r, l
            if src(l) != st:
                return None
            if isinstance(op, (ast.Is, ast.Eq, ast.IsNot, ast.NotEq)):
                mm = member(r)
                if mm is None:
                    return None
                return (mm == m) == isinstance(op, (ast.Is, ast.Eq))
            if isinstance(op, (ast.In, ast.NotIn)) and isinstance(r, (ast.Tuple, ast.List,
                                                                      ast.Set)):
                ms = [member(x) for x in r.elts]
                if None in ms:
                    return None
                return (m in ms) == isinstance(op, ast.In)
        return None

    def val(x: ast.AST, m: str, depth: int = 4):
        if depth < 0:
            return None
        if leaf is not None:
            lv = leaf(x)
            if lv is not None:
                return lv
        elif isinstance(x, ast.Name) and x.id in ('int', 'float'):
            return x.id
        elif isinstance(x, ast.Attribute) and src(x.value) in ('np', 'numpy') or \
                isinstance(x, ast.Constant) and isinstance(x.value, str):
            # numpy's names for the two kinds the conversions produce; any other width is
            # its own kind (a float32 box does not contain the float64 arrays of convert)
            t_ = x.attr if isinstance(x, ast.Attribute) else x.value
            return {'float64': 'float', 'float_': 'float', 'double': 'float',
                    'int64': 'int', 'int_': 'int'}.get(t_, t_)
        if isinstance(x, ast.IfExp):
            t = truth(x.test, m)
            return None if t is None else val(x.body if t else x.orelse, m, depth - 1)
        if isinstance(x, ast.Subscript) and src(x.slice) == st and isinstance(x.value, ast.Name):
            e_ = entry(x.value.id, m)
            return None if e_ is None else val(e_[0], m, depth - 1)
        if isinstance(x, ast.Attribute) and isinstance(x.value, ast.Subscript) and \
                src(x.value.slice) == st and isinstance(x.value.value, ast.Name):
            # TABLE[v.space_type].field with TABLE's values built by a NamedTuple / dataclass
            e_ = entry(x.value.value.id, m)
            if e_ is None or not isinstance(e_[0], ast.Call) or \
                    not isinstance(e_[0].func, ast.Name):
                return None
            c_ = e_[1].classes.get(e_[0].func.id)
            if c_ is None:
                return None
            fields = [s_.target.id for s_ in c_.node.body
                      if isinstance(s_, ast.AnnAssign) and isinstance(s_.target, ast.Name)]
            got = dict(zip(fields, e_[0].args))
            got.update({k.arg: k.value for k in e_[0].keywords})
            return None if x.attr not in got else val(got[x.attr], m, depth - 1)
        return None

    def entry(table: str, m: str):
        """(value expression, defining module) of TABLE[SpaceType.<m>] for a module-level dict
        literal (possibly wrapped in MappingProxyType / dict) of this or another module"""
        mods = [f.module] + [mm for mm in index.modules.values()
                             if mm.relpath.startswith('gym_gridverse/') and mm is not f.module]
        for mm in mods:
            tb = mm.assigns.get(table, [])
            if len(tb) != 1:
                continue
            t_ = tb[0]
            if isinstance(t_, ast.Call) and src(t_.func).split('.')[-1] in (
                    'MappingProxyType', 'dict') and len(t_.args) == 1:
                t_ = t_.args[0]
            if isinstance(t_, ast.Dict):
                hits = [vv for kk, vv in zip(t_.keys, t_.values)
                        if kk is not None and member(kk) == m]
                if len(hits) == 1:
                    return hits[0], mm
            return None
        return None
    out = {m: val(e, m) for m in members}
    return None if None in out.values() else out


def check_gym_space(index: RepoIndex, rep, rule: str) -> None:
    f = index.func(GYM, 'outer_space_to_gym_space')
    from ..view import view
    w = view(index, f)[1]
    sp = f.node.args.args[0].arg
    rets = [e for e in w.events if e.kind == 'return' and e.value is not None]
    ok = False
    why = 'is not gym.spaces.Dict({k: Box(low=v.lower_bound, high=v.upper_bound, dtype=float ' \
          'if continuous else int) for k, v in space.items()})'
    if len(rets) == 1:
        r = w.expand(rets[0].value)
        # methods / properties added to Space later are read as the expression they stand for
        from ..inline import inline_methods_by_name
        from ..view import VOCABULARY
        r = inline_methods_by_name(index, r, exclude=VOCABULARY)
        if isinstance(r, ast.Call) and src(r.func) == 'gym.spaces.Dict' and len(r.args) == 1 \
                and isinstance(r.args[0], ast.DictComp):
            dc = r.args[0]
            g = dc.generators[0]
            if isinstance(g.target, ast.Tuple) and len(g.target.elts) == 2 and \
                    src(g.iter) == f'{sp}.items()' and not g.ifs:
                k, v = (src(x) for x in g.target.elts)
                val = dc.value
                if src(dc.key) == k and isinstance(val, ast.Call) and \
                        src(val.func) == 'gym.spaces.Box':
                    kw = {x.arg: src(x.value) for x in val.keywords}
                    names = ['low', 'high', 'shape', 'dtype']
                    for i, a in enumerate(val.args):
                        kw[names[i]] = src(a)
                    dte = next((x.value for x in val.keywords if x.arg == 'dtype'),
                               val.args[3] if len(val.args) > 3 else None)
                    table = _dtype_by_space_type(index, f, dte, v) if dte is not None else None
                    if dte is not None and table is None:
                        raise AnalysisError(f'outer_space_to_gym_space: dtype `{src(dte)[:80]}` '
                                            f'is not readable as a table over SpaceType')
                    # bounds cast to the very dtype the box is given are the bounds
                    cast = f'.astype({src(dte)})' if dte is not None else None
                    for b_ in ('low', 'high'):
                        if cast and kw.get(b_, '').endswith(cast):
                            kw[b_] = kw[b_][:-len(cast)]
                    ok = kw.get('low') == f'{v}.lower_bound' and \
                        kw.get('high') == f'{v}.upper_bound' and \
                        table == {'CATEGORICAL': 'int', 'DISCRETE': 'int', 'CONTINUOUS': 'float'}
                    if table is not None:
                        kw['dtype'] = f'{kw.get("dtype")} = {table}'
                    if not ok:
                        why = f'builds Box({kw})'
    rep.check(ok, rule, GYM, 'outer_space_to_gym_space', f.node.lineno,
              src(rets[0].value)[:200] if rets else '', f'outer_space_to_gym_space {why}',
              'gym space conversion')


def constructor_spaces(index: RepoIndex, rep, rule: str) -> None:
    """GymEnvironment.__init__ derives each advertised gym space from the representation
    of the same name (C20.R4; the gym-layer facet of C15)"""
    from ..view import value_text, view
    ge = index.cls(GYM, 'GymEnvironment')
    m = ge.methods.get('__init__')
    if m is None:
        raise AnalysisError('anchor vanished: GymEnvironment.__init__')
    w = view(index, m, keep=('outer_space_to_gym_space',))[1]
    op = m.node.args.args[1].arg
    st = {src(e.target): e for e in w.events if e.kind == 'attrstore'}
    from ..guards import none_truth, strip_iter
    for attr, rattr in (('self.state_space', 'state_representation'),
                        ('self.observation_space', 'observation_representation')):
        evs = [e for e in w.events if e.kind == 'attrstore' and src(e.target) == attr]
        term = f'{op}.{rattr}'
        want = {True: 'None', False: f'outer_space_to_gym_space({term}.space)'}
        got = {}
        ok = bool(evs)
        for e in evs:
            t = none_truth(w.expand_formula(strip_iter(e.guard)), term)
            if t is None:
                # the guard also depends on the other representation (paths were split):
                # judge it on the atoms about this one only
                from ..guards import prop_atoms
                f_ = w.expand_formula(strip_iter(e.guard))
                t = {}
                for isnone in (True, False):
                    t[isnone] = _possible(f_, term, isnone)
            v = src(w.expand(e.value)) if e.value is not None else 'None'
            for isnone in (True, False):
                if t[isnone]:
                    got.setdefault(isnone, set()).add(v)
        ok = ok and got == {k: {v} for k, v in want.items()}
        rep.check(ok, rule, GYM, 'GymEnvironment.__init__', m.node.lineno,
                  '; '.join(f'{k}: {sorted(v)}' for k, v in sorted(got.items())),
                  f'{attr} is not derived from {op}.{rattr}.space (or None when absent)',
                  f'init {attr}')
    e = st.get('self.action_space')
    rep.check(e is not None and src(w.expand(e.value)) ==
              f'gym.spaces.Discrete({op}.action_space.num_actions)', rule, GYM,
              'GymEnvironment.__init__', m.node.lineno, src(e.stmt) if e else '',
              'the gym action space is not Discrete(number of actions)', 'init action space')
    na = index.func(SPACES, 'ActionSpace.num_actions')
    b = na.body()
    rep.check(value_text(index, na) == 'len(self.actions)', rule, SPACES,
              'ActionSpace.num_actions', na.node.lineno, src(b[-1]),
              'num_actions is not len(actions)', 'num_actions')


def representation_switch(index: RepoIndex, rep, rule: str) -> None:
    ge = index.cls(GYM, 'GymEnvironment')
    for meth, rattr, sattr, maker, ispace in (
            ('set_state_representation', 'state_representation', 'state_space',
             'make_state_representation', 'state_space'),
            ('set_observation_representation', 'observation_representation',
             'observation_space', 'make_observation_representation', 'observation_space')):
        m = ge.methods.get(meth)
        if m is None:
            raise AnalysisError(f'anchor vanished: GymEnvironment.{meth}')
        from ..view import view
        w = view(index, m, keep=('outer_space_to_gym_space',))[1]
        np_ = m.node.args.args[1].arg
        st = [e for e in w.events if e.kind == 'attrstore']
        r1 = [e for e in st if src(w.expand(e.target)) == f'self.outer_env.{rattr}']
        r2 = [e for e in st if src(w.expand(e.target)) == f'self.{sattr}']
        ok1 = len(r1) == 1 and src(w.expand(r1[0].value)) == \
            f'{maker}({np_}, self.outer_env.inner_env.{ispace})'
        rep.check(ok1, rule, GYM, f'GymEnvironment.{meth}', m.node.lineno,
                  '; '.join(src(e.stmt) for e in r1),
                  f'{meth} does not install {maker}(name, inner_env.{ispace})',
                  f'{meth} representation')
        new_repr = src(w.expand(r1[0].value)) if r1 else ''
        # a helper that maps "no representation" to "no space" leaves a `= None` store on the
        # path where the representation just installed is None: not the path of a switch
        from ..guards import show as _show
        none_paths = [e for e in r2 if isinstance(e.value, ast.Constant) and e.value.value is None
                      and _show(w.expand_formula(strip_iter(e.guard))) in (
                          f'self.outer_env.{rattr} is None', f'{new_repr} is None')]
        r2 = [e for e in r2 if e not in none_paths]
        v2 = r2[0].value if len(r2) == 1 else None

        def evaluated_at(e: ast.AST, at: int, depth: int = 6) -> int:
            """when the expression was evaluated: a local names the value it was given at its
            own assignment, which can be earlier than the store that uses it"""
            for n_ in ast.walk(e):
                if isinstance(n_, ast.Name) and depth > 0:
                    d_ = w.single_def(n_.id)
                    # only a local whose value read the attribute that is being replaced can
                    # be stale (`outer_env = self.outer_env` is an alias of the object)
                    if d_ is not None and d_[0] == 'value' and \
                            f'.{rattr}' in src(w.expand(d_[1])):
                        at = min(at, evaluated_at(d_[1], d_[2], depth - 1))
            return at
        ok2 = v2 is not None and bool(r1) and (
            (evaluated_at(v2, r2[0].order) > r1[0].order and
             src(w.expand(v2)) == f'outer_space_to_gym_space(self.outer_env.{rattr}.space)')
            or src(w.expand(v2)) == f'outer_space_to_gym_space({new_repr}.space)')
        rep.check(bool(ok2), rule, GYM, f'GymEnvironment.{meth}', m.node.lineno,
                  '; '.join(src(e.stmt) for e in r2),
                  f'{meth} does not update the advertised gym space from the new '
                  f'representation', f'{meth} space')


def outer_env_rules(index: RepoIndex, rep, rule: str) -> None:
    OUTER = 'gym_gridverse/outer_env.py'
    oc = index.cls(OUTER, 'OuterEnv')
    for prop, rep_attr, inner in (('state', 'state_representation', 'state'),
                                  ('observation', 'observation_representation', 'observation')):
        m = oc.methods.get(prop)
        if m is None:
            raise AnalysisError(f'anchor vanished: OuterEnv.{prop}')
        from ..view import view
        w = view(index, m)[1]
        rets = [e for e in w.events if e.kind == 'return' and e.value is not None]
        want = f'self.{rep_attr}.convert(self.inner_env.{inner})'
        rep.check(len(rets) >= 1 and all(src(w.expand(r.value)) == want for r in rets),
                  rule, OUTER, f'OuterEnv.{prop}', m.node.lineno,
                  '; '.join(src(r.stmt) for r in rets),
                  f'OuterEnv.{prop} does not return {want} computed at the time of the read (a '
                  f'cached conversion ignores a representation switch or a new state)',
                  f'convert {prop}')
        if prop == 'state':
            vnode = view(index, m)[0]
            obs_reads = [n for n in ast.walk(vnode) if isinstance(n, ast.Attribute)
                         and n.attr == 'observation'
                         and src(w.expand(n.value)) == 'self.inner_env']
            rep.check(not obs_reads, rule, OUTER, 'OuterEnv.state', m.node.lineno,
                      '; '.join(src(n) for n in obs_reads) or 'OuterEnv.state',
                      'reading the state also reads inner_env.observation, which generates (and '
                      'memoises) an observation: a pure state read consumes randomness',
                      'state read does not touch the observation')
        st = [e for e in w.events if e.kind in ('attrstore', 'store', 'augstore')]
        rep.check(not st, rule, OUTER, f'OuterEnv.{prop}', m.node.lineno,
                  '; '.join(src(e.stmt) for e in st) or prop,
                  f'reading OuterEnv.{prop} stores into the environment (a cache)',
                  f'{prop} read is side-effect free')
    for meth, want in (('reset', 'self.inner_env.reset()'), ('step', None)):
        m = oc.methods.get(meth)
        if m is None:
            raise AnalysisError(f'anchor vanished: OuterEnv.{meth}')
        from ..view import view
        w = view(index, m)[1]
        calls = [src(w.expand(e.node)) for e in w.events if e.kind == 'call']
        if want is None:
            p = [a.arg for a in m.node.args.args[1:]]
            want = f'self.inner_env.step({p[0]})' if p else ''
        if meth == 'step' and calls != [want] and p:
            # an index resolved by OuterEnv.step itself before the one delegation (C04.R5)
            from .c04 import outer_step_argument
            if outer_step_argument(index, True) == p[0] and \
                    outer_step_argument(index, False) == \
                    f'self.action_space.int_to_action({p[0]})' and \
                    sorted(c for c in calls if not c.startswith('isinstance')) == sorted(
                        [want, f'self.action_space.int_to_action({p[0]})']):
                calls = [want]
        rep.check(calls == [want], rule, OUTER, f'OuterEnv.{meth}', m.node.lineno,
                  '; '.join(calls), f'OuterEnv.{meth} does not delegate with exactly one call '
                  f'{want}', f'delegate {meth}')
