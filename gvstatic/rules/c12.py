"""C12 -- rewards and termination mean what they say, and agree with each other."""
from __future__ import annotations

import ast
import os
from typing import Callable, Dict, List, Optional, Sequence, Tuple

from ..boolean import Evaluator, Kind, OutOfGrid, World
from ..core import AnalysisError, src
from ..dynmodel import (FRONT, NEXT, REWARD, TERM, FnModel, cell, describe_world,
                        parse_formula)
from ..guards import formula_of, show, walk_function
from ..index import Func, RepoIndex

EXPLANATION = (
    'Decision tables decided statically: for every registered reward and terminating '
    'function the (guard, value) pairs of its returns are extracted and, in every world of a '
    'finite model (action x inside/outside x object kinds of the cells and items consulted x '
    'orderings of the two distances x free atoms), the value returned is compared with the '
    'documented table; which of state / next_state each component reads is checked; reward '
    'and terminating siblings (overlap, bump_into_wall, reach_exit, bump_moving_obstacle) '
    'are compared predicate by predicate, so the exit reward is paid exactly when exit '
    'termination fires; the composites apply sum / any / all to every part with the same '
    '(state, action, next_state, rng); GridWorld.functional_step and the YAML factory wire '
    'them on the (state, action, next_state) of one step.')
TRUSTED = ['numeric values of the distance functions (Dijkstra, Euclid) are declined',
           'Python semantics of the extracted guards']

GW = 'gym_gridverse/envs/gridworld.py'
FACTORY = 'gym_gridverse/envs/yaml/factory.py'
NPOS = 'N.agent.position'
NCELL = cell(NPOS, 'N')


def returned_value(m: FnModel, w: World) -> Tuple[Optional[str], Optional[ast.AST]]:
    for r in m.returns:
        if m.ev.holds(r.guard, w):
            return r.value, r.value_node
    return None, None


def table(m: FnModel, rep, rule: str, relpath: str, spec: Callable[[World], Optional[str]],
          touch: Sequence[str], what: str, boolean: bool = False) -> None:
    f = m.func
    tf = [parse_formula(t) for t in touch]
    probes = [r.guard for r in m.returns]
    if boolean:
        for r in m.returns:
            if r.value_node is not None:
                probes.append(formula_of(r.value_node))
    worlds = m.worlds(probes, touch=tf)
    bad = None
    n = 0
    for w in worlds:
        n += 1
        try:
            want = spec(w)
        except OutOfGrid:
            want = None
        try:
            val, node = returned_value(m, w)
            if boolean and node is not None:
                val = str(bool(m.ev.holds(formula_of(node), w)))
        except OutOfGrid as oog:
            if want is None:
                continue
            bad = (w, f'reads the cell `{oog.term}` while its position is outside the grid')
            break
        if want is None:
            continue
        if val != want:
            bad = (w, f'returns {val}, documented value is {want}')
            break
    rep.check(bad is None, rule, relpath, f.name, f.node.lineno,
              ' | '.join(f'{r.value} WHEN {show(r.guard)}' for r in m.returns)[:400],
              f'{what}: ' + (f'{bad[1]} when {describe_world(bad[0])}' if bad else ''),
              f'{f.name} table verified in {n} worlds')


def roles_read(m: FnModel) -> set:
    names = set()
    for r in m.returns:
        nodes = []
        if r.value_node is not None:
            nodes.append(r.value_node)
        from ..guards import atoms_of
        nodes += atoms_of(r.guard)
        for nd in nodes:
            for x in ast.walk(nd):
                if isinstance(x, ast.Name) and x.id in ('S', 'N'):
                    names.add(x.id)
    return names


def call_kwargs(call: ast.Call, names: Sequence[str]) -> Dict[str, str]:
    out = {n: src(a) for n, a in zip(names, call.args)}
    for k in call.keywords:
        if k.arg:
            out[k.arg] = src(k.value)
    return out


def _map_atoms(f, fn):
    k = f[0]
    if k == 'atom':
        return ('atom', fn(f[1]))
    if k == 'not':
        return ('not', _map_atoms(f[1], fn))
    if k in ('and', 'or'):
        return (k,) + tuple(_map_atoms(x, fn) for x in f[1:])
    return f


def delegation(m: FnModel, rep, rule: str, relpath: str, target: str, want: Dict[str, str],
               tm: Optional[FnModel] = None, boolean: bool = False) -> None:
    """`m` is `target` with the given parameters: either it returns that call, or (when the
    model `tm` of the target is given) its guarded returns agree with the target's, the
    parameters substituted, in every world of the finite model"""
    f = m.func
    ok = len(m.returns) == 1 and isinstance(m.returns[0].value_node, ast.Call) \
        and src(m.returns[0].value_node.func) == target
    got = {}
    if ok:
        got = call_kwargs(m.returns[0].value_node, ['state', 'action', 'next_state'])
        ok = got == want
    why = ''
    if not ok and tm is not None and m.returns and \
            not any(isinstance(n, ast.Call) and src(n.func) == target
                    for r in m.returns if r.value_node is not None
                    for n in ast.walk(r.value_node)):
        import copy
        from ..inline import _SubstNames
        mp = {k: ast.parse(v, mode='eval').body for k, v in want.items()
              if k not in ('state', 'action', 'next_state', 'rng')}
        sub = lambda e: _SubstNames(mp).visit(copy.deepcopy(e))
        t_rets = [(_map_atoms(r.guard, sub), sub(r.value_node) if r.value_node is not None
                   else None) for r in tm.returns]

        def value_in(rets, w):
            for g, v in rets:
                if m.ev.holds(g, w):
                    if v is None:
                        return 'None'
                    if boolean:
                        return str(bool(m.ev.holds(formula_of(v), w)))
                    return src(v)
            return None
        m_rets = [(r.guard, r.value_node) for r in m.returns]
        probes = [g for g, _ in m_rets + t_rets]
        if boolean:
            probes += [formula_of(v) for _, v in m_rets + t_rets if v is not None]
        ok = True
        for w in m.worlds(probes):
            try:
                a, b = value_in(m_rets, w), value_in(t_rets, w)
            except OutOfGrid:
                continue
            if a != b:
                ok = False
                why = f': it yields {a} where {target} yields {b} when {describe_world(w)}'
                break
    rep.check(ok, rule, relpath, f.name, f.node.lineno,
              m.returns[0].value if m.returns else f.name,
              f'{f.name} does not delegate to {target}({want}); it returns '
              f'`{m.returns[0].value if m.returns else None}`{why}', f'{f.name} -> {target}')


def _atoms_of(f) -> List[ast.AST]:
    if f[0] == 'atom':
        return [f[1]]
    if f[0] in ('not', 'and', 'or'):
        return [a for x in f[1:] for a in _atoms_of(x)]
    return []


def cell_stream(m: FnModel, e: ast.AST, depth: int = 8):
    """(element, filters) of an iterable over grid cells, both written over the position
    variable P: `G.area.positions()` is (P, []); a comprehension / generator over a stream
    substitutes its target; `map(G.__getitem__, S)` and `map(lambda p: .., S)` substitute the
    function.  None when `e` is not such a stream."""
    import copy
    from ..inline import _Rename
    if depth < 0:
        return None
    w = m.walk
    if isinstance(e, ast.Name):
        d = w.single_def(e.id)
        if d is None or d[0] != 'value':
            return None
        return cell_stream(m, d[1], depth - 1)
    if isinstance(e, ast.Call) and isinstance(e.func, ast.Attribute) and \
            e.func.attr == 'positions' and not e.keywords and \
            (not e.args or src(e.args[0]) == "'all'"):
        base = w.expand(e.func.value, m.ren)
        if isinstance(base, ast.Attribute) and base.attr == 'area':
            return ast.Name('P', ast.Load()), [], src(base.value)
        return None
    if isinstance(e, (ast.GeneratorExp, ast.ListComp)) and len(e.generators) == 1:
        g = e.generators[0]
        inner = cell_stream(m, g.iter, depth - 1)
        if inner is None or not isinstance(g.target, ast.Name):
            return None
        elt0, fl0, base = inner

        class Sub(ast.NodeTransformer):
            def visit_Name(self, n):
                return copy.deepcopy(elt0) if n.id == g.target.id else n
        conv = lambda x: Sub().visit(copy.deepcopy(x))
        return conv(e.elt), fl0 + [conv(c) for c in g.ifs], base
    if isinstance(e, ast.Call) and src(e.func) == 'map' and len(e.args) == 2 and not e.keywords:
        inner = cell_stream(m, e.args[1], depth - 1)
        if inner is None:
            return None
        elt0, fl0, base = inner
        f = e.args[0]
        if isinstance(f, ast.Name):
            d = w.single_def(f.id)
            f = d[1] if d is not None and d[0] == 'value' else f
        if isinstance(f, ast.Attribute) and f.attr == '__getitem__':
            return ast.Subscript(f.value, elt0, ast.Load()), fl0, base
        if isinstance(f, ast.Lambda) and len(f.args.args) == 1 and not f.args.defaults:
            p = f.args.args[0].arg

            class SubL(ast.NodeTransformer):
                def visit_Name(self, n):
                    return copy.deepcopy(elt0) if n.id == p else n
            return SubL().visit(copy.deepcopy(f.body)), fl0, base
        return None
    return None


def first_of_stream(m: FnModel, e: ast.AST):
    """normal form of `next(S)`, `next(S).attr`, `next(iter(S))`: (element text, filter texts)
    over the position variable P, with the roles renamed; None when not of that form"""
    attrs = []
    w = m.walk
    for _ in range(6):
        if isinstance(e, ast.Name):
            d = w.single_def(e.id)
            if d is None or d[0] != 'value':
                return None
            e = d[1]
        elif isinstance(e, ast.Attribute):
            attrs.append(e.attr)
            e = e.value
        else:
            break
    if not (isinstance(e, ast.Call) and src(e.func) == 'next' and len(e.args) == 1
            and not e.keywords):
        return None
    arg = e.args[0]
    if isinstance(arg, ast.Call) and src(arg.func) == 'iter' and len(arg.args) == 1:
        arg = arg.args[0]
    st = cell_stream(m, arg)
    if st is None:
        return None
    elt, filters, _base = st
    for a in reversed(attrs):
        elt = ast.Attribute(elt, a, ast.Load())
    ex = lambda x: src(m.walk.expand(x, m.ren, stop=['P']))
    return ex(elt), [ex(c) for c in filters]


def bfs_rule(index: RepoIndex, rep, rule: str) -> None:
    """the shortest-path distances of `dijkstra`, as written: a worklist loop that, for each
    popped cell, visits the four unit neighbours and -- exactly when the neighbour lies inside
    the array on both axes, is walkable and not yet visited -- stores the popped cell's
    distance plus one, marks it and puts it on the worklist.  Each clause is a necessary
    condition of "distance in the bounded grid" (numpy indices wrap below zero, so a missing
    lower bound makes the grid a torus).  Guards are evaluated at small points (extracted
    expressions, never the code).  Anything else -- a vectorised wavefront, a library call --
    is outside the grammar (exit 2)."""
    import itertools
    from ..guards import strip_iter
    from ..inteval import CannotEval, ev
    f = index.func(REWARD, 'dijkstra')
    w = walk_function(f.node)
    rets = [e for e in w.events if e.kind == 'return' and e.value is not None]
    if len(rets) != 1 or not isinstance(rets[0].value, ast.Name):
        raise AnalysisError('dijkstra: expected one returned distance array')
    dist = rets[0].value.id
    rolls = [n_ for n_ in ast.walk(f.node) if isinstance(n_, ast.Call)
             and src(n_.func) in ('np.roll', 'numpy.roll')]
    rep.check(not rolls, rule, REWARD, 'dijkstra', f.node.lineno,
              '; '.join(src(r_)[:60] for r_ in rolls) or 'no circular shift',
              'np.roll is circular: cells on opposite borders become neighbours',
              'no circular shift')
    stores_ = [e for e in w.events if e.kind == 'store' and isinstance(e.target, ast.Subscript)
               and src(e.target.value) == dist and e.loops]
    if len(stores_) != 1 or len(stores_[0].loops) != 2 or \
            src(stores_[0].loops[0][0]) != '_while_':
        raise AnalysisError('dijkstra is not a worklist loop over unit neighbours (outside '
                            'the grammar of C12.R6)')
    dd = w.sole_binding(dist)
    ok0 = dd is not None and dd[0] == 'value' and isinstance(dd[1], ast.Call) and \
        src(dd[1].func) in ('np.full', 'numpy.full') and len(dd[1].args) == 2 and \
        src(dd[1].args[1]) in ("float('inf')", 'np.inf', 'math.inf', 'numpy.inf')
    rep.check(bool(ok0), rule, REWARD, 'dijkstra', f.node.lineno,
              src(dd[1]) if dd is not None and dd[0] == 'value' else dist,
              'distances do not start at infinity for every cell', 'distances start at inf')
    src_p = f.node.args.args[1].arg
    stores = [e for e in w.events if e.kind == 'store' and isinstance(e.target, ast.Subscript)
              and src(e.target.value) == dist]
    init = [e for e in stores if not e.loops]
    loop = [e for e in stores if e.loops]
    rep.check(len(init) == 1 and src(init[0].target.slice) == src_p and
              src(init[0].value) in ('0.0', '0') and init[0].guard == ('true',), rule, REWARD,
              'dijkstra', f.node.lineno, '; '.join(src(e.stmt) for e in init),
              'the source cell does not start at distance 0', 'source at 0')
    if len(loop) != 1 or len(loop[0].loops) != 2 or \
            src(loop[0].loops[0][0]) != '_while_':
        raise AnalysisError('dijkstra is not a worklist loop over unit neighbours (outside '
                            'the grammar of C12.R6)')
    st = loop[0]
    frontier = src(st.loops[0][1])
    pops = [e for e in w.events if e.kind == 'call' and isinstance(e.node.func, ast.Attribute)
            and src(e.node.func.value) == frontier and e.node.func.attr in ('popleft', 'pop')]
    if len(pops) != 1:
        raise AnalysisError('dijkstra: the worklist is not popped exactly once per round')
    old = None
    for nm, ds in w.defs.items():
        pass
    olds = [nm for nm, ds in w.defs.items() for d in ds
            if d[0] == 'unpack' and d[1][0] is pops[0].node]
    if len(olds) != 2:
        raise AnalysisError('dijkstra: the popped cell is not unpacked into two coordinates')
    yo, xo = sorted(olds, key=lambda n: [d[1][1] for d in w.defs[n]][0])
    # neighbour offsets
    tvar, it = st.loops[1]
    offs = None
    itx = w.expand(it)
    if isinstance(itx, ast.Name) and not w.defs.get(itx.id):
        vals_ = f.module.assigns.get(itx.id, [])
        if len(vals_) == 1:
            itx = vals_[0]          # a module-level table of offsets
    if isinstance(itx, (ast.List, ast.Tuple)) and \
            all(isinstance(t_, ast.Tuple) and len(t_.elts) == 2 for t_ in itx.elts):
        try:
            offs = sorted((int(ev(t_.elts[0], {})), int(ev(t_.elts[1], {}))) for t_ in itx.elts)
        except CannotEval:
            offs = None
    rep.check(offs == [(-1, 0), (0, -1), (0, 1), (1, 0)], rule, REWARD, 'dijkstra', st.line,
              src(it)[:120], f'the neighbours visited are {offs}, not the four unit steps',
              'four unit neighbours')
    if offs is None or not (isinstance(tvar, ast.Tuple) and len(tvar.elts) == 2):
        return
    dy, dx = (src(t_) for t_ in tvar.elts)
    idx = w.expand(st.target.slice, stop=[yo, xo, dy, dx])
    idx_raw = st.target.slice
    if not (isinstance(idx, ast.Tuple) and len(idx.elts) == 2):
        raise AnalysisError('dijkstra: the updated cell is not indexed by (row, column)')
    arr = None
    for nm in w.defs:
        d = w.sole_binding(nm)
        if d is not None and d[0] == 'value' and isinstance(d[1], ast.Call) and \
                src(d[1].func) in ('np.array', 'numpy.array') and d[1].args and \
                src(d[1].args[0]) == f.node.args.args[0].arg:
            arr = nm
    if arr is None:
        raise AnalysisError('dijkstra: the layout array is not np.array(layout)')
    visited = [nm for nm in w.defs if nm not in (dist, arr) and w.sole_binding(nm) is not None
               and w.sole_binding(nm)[0] == 'value' and isinstance(w.sole_binding(nm)[1], ast.Call)
               and src(w.sole_binding(nm)[1].func) in ('np.zeros', 'numpy.zeros')]
    guard = w.expand_formula(strip_iter(st.guard),
                             stop=[yo, xo, dy, dx, arr, dist, frontier] + visited)
    from ..guards import truth_under
    bad = None
    n = 0
    for (H, W_), (y0, x0), (oy, ox), walk_ok, seen in itertools.product(
            ((2, 3), (3, 2)), ((0, 0), (1, 1), (1, 2), (2, 1)), offs, (True, False),
            (True, False)):
        if not (y0 < H and x0 < W_):
            continue
        env = {yo: y0, xo: x0, dy: oy, dx: ox, f'{arr}.shape[0]': H, f'{arr}.shape[1]': W_,
               f'{arr}.shape': (H, W_), f'len({arr})': H, f'len({arr}[0])': W_}

        def call(e, env_):
            return NotImplemented
        try:
            ny, nx = int(ev(idx.elts[0], env)), int(ev(idx.elts[1], env))
            env[f'{arr}[{src(idx.elts[0])}, {src(idx.elts[1])}]'] = walk_ok
            ytxt, xtxt = src(st.target.slice.elts[0]) if isinstance(st.target.slice, ast.Tuple) \
                else '', src(st.target.slice.elts[1]) if isinstance(st.target.slice, ast.Tuple) \
                else ''
            for a_ in (arr,) + tuple(visited):
                val = walk_ok if a_ == arr else seen
                for t_ in (f'{a_}[{src(idx.elts[0])}, {src(idx.elts[1])}]',
                           f'{a_}[{ytxt}, {xtxt}]'):
                    env[t_] = val
            env[frontier] = True
            for a_ in (arr,) + tuple(visited):
                val = walk_ok if a_ == arr else seen
                for t_ in (f'{a_}[({src(idx.elts[0])}, {src(idx.elts[1])})]',
                           f'{a_}[{src(st.target.slice)}]'):
                    env[t_] = val

            def atom_truth(a_e):
                return bool(ev(w.expand(a_e, stop=[yo, xo, dy, dx, arr, dist, frontier]
                                        + visited), env, call))

            def other(leaf):
                # `try: v = array[index] except IndexError`: numpy raises only beyond the far
                # edges; an index in [-n, -1] silently wraps around
                if leaf[0] == 'raises' and 'IndexError' in leaf[1]:
                    return not (-H <= ny < H and -W_ <= nx < W_)
                raise CannotEval(f'{leaf[0]} leaf')
            t_ = truth_under(guard, atom_truth, other)
            if t_ is None:
                raise CannotEval(show(guard)[:80])
            got = bool(t_)
        except CannotEval as ex:
            raise AnalysisError(f'dijkstra: update guard outside the grammar: {ex}')
        inside = 0 <= ny < H and 0 <= nx < W_
        want = inside and walk_ok and not seen
        n += 1
        if got != want and bad is None:
            bad = (H, W_, (y0, x0), (ny, nx), walk_ok, seen, got)
    rep.check(bad is None, rule, REWARD, 'dijkstra', st.line, show(guard)[:200],
              'a neighbour is given a distance not exactly when it is inside the array on '
              'both axes, walkable and unvisited'
              + (f': {bad[0]}x{bad[1]} layout, from {bad[2]} to {bad[3]} (walkable={bad[4]}, '
                 f'visited={bad[5]}) the update {"happens" if bad[6] else "is skipped"}'
                 if bad else ''), f'update guard at {n} points')
    val = w.expand(st.value, stop=[yo, xo, dy, dx, dist])
    rep.check(src(val) in (f'{dist}[{yo}, {xo}] + 1', f'1 + {dist}[{yo}, {xo}]',
                           f'{dist}[{yo}, {xo}] + 1.0'), rule, REWARD, 'dijkstra', st.line,
              src(st.stmt), 'the neighbour\'s distance is not the popped cell\'s plus one',
              'distance + 1')
    marks = [e for e in w.events if e.kind == 'store' and e.loops and visited and
             src(e.target.value) in visited and src(e.value) == 'True'
             and src(e.target.slice) == src(st.target.slice) and e.guard == st.guard]
    pushes = [e for e in w.events if e.kind == 'call' and isinstance(e.node.func, ast.Attribute)
              and src(e.node.func.value) == frontier and e.node.func.attr == 'append'
              and e.guard == st.guard]
    rep.check(len(marks) == 1 and len(pushes) == 1 and
              src(pushes[0].node.args[0]).strip('()') == src(st.target.slice).strip('()'),
              rule, REWARD, 'dijkstra', st.line,
              '; '.join(src(e.stmt) for e in marks + pushes),
              'an updated neighbour is not marked visited and queued (under the same '
              'condition)', 'mark and queue')


def closer_table(m: FnModel, rep, rule: str) -> None:
    """getting_closer / getting_closer_shortest_path: the returned value is selected by the
    order of two distance terms which are one and the same expression D evaluated in the
    state and in the next state (D may be a nested helper, a module helper, or inline)"""
    f = m.func
    from ..guards import atoms_of
    import copy
    from ..inline import _Rename
    pairs = []
    for r in m.returns:
        for a in atoms_of(r.guard):
            for n in ast.walk(a):
                if isinstance(n, ast.Compare) and len(n.ops) == 1 and \
                        isinstance(n.ops[0], (ast.Lt, ast.Gt, ast.LtE, ast.GtE, ast.Eq, ast.NotEq)):
                    pairs.append((n.left, n.comparators[0]))
    if not pairs:
        rep.violation(rule, REWARD, f.name, f.node.lineno, f.name,
                      'the reward is not selected by comparing two distances')
        return

    def states_of(e):
        return {x.id for x in ast.walk(e) if isinstance(x, ast.Name) and x.id in ('S', 'N')}
    a, b = pairs[0]
    sa, sb = states_of(a), states_of(b)
    if sa == {'S'} and sb == {'N'}:
        prev_e, next_e = a, b
    elif sa == {'N'} and sb == {'S'}:
        prev_e, next_e = b, a
    else:
        rep.violation(rule, REWARD, f.name, f.node.lineno, f'{src(a)[:80]} ~ {src(b)[:80]}',
                      f'the two distances compared are not one measured in the state and one in '
                      f'the next state (they read {sorted(sa)} and {sorted(sb)})')
        return
    prev_t, next_t = src(prev_e), src(next_e)
    swapped = src(_Rename({'S': 'N'}).visit(copy.deepcopy(prev_e)))
    from ..inline import unprefix
    rep.check(unprefix(swapped) == unprefix(next_t), rule, REWARD, f.name, f.node.lineno,
              f'{prev_t[:100]} ~ {next_t[:100]}',
              'the distance before and the distance after the step are not the same measure '
              'applied to state and next_state', 'same measure in both states')
    # nested helpers called by the terms must use their own argument
    text = prev_t
    for hn, helper in m.walk.local_funcs.items():
        if hn not in {x.id for x in ast.walk(prev_e) if isinstance(x, ast.Name)}:
            continue
        hp = [x.arg for x in helper.args.args]
        free = {x.id for x in ast.walk(helper) if isinstance(x, ast.Name)}
        outer_states = [x.arg for x in f.node.args.args[:3] if x.arg != f.node.args.args[1].arg]
        leaked = [s_ for s_ in outer_states if s_ in free and s_ not in hp]
        rep.check(len(hp) == 1 and not leaked, rule, REWARD, f.name, helper.lineno,
                  f'def {hn}({", ".join(hp)})',
                  f'the distance helper reads the enclosing `{leaked}` instead of its own '
                  f'argument: both distances would be measured in the same state',
                  'helper uses its argument')
        from ..inline import inline_pure_exprs
        hx = inline_pure_exprs(m.index, f.module, None, helper)
        text += ' ' + src(_Rename({hp[0]: 'S'}).visit(copy.deepcopy(hx))) if hp else src(hx)
        # module-level helpers the nested helper hands its argument to (`_unique_object_position(
        # state, object_type)`): read one level through, parameters renamed to the arguments
        for c_ in ast.walk(hx):
            if isinstance(c_, ast.Call) and isinstance(c_.func, ast.Name) and \
                    c_.func.id in f.module.functions and not c_.keywords:
                g_ = f.module.functions[c_.func.id]
                gp = [a.arg for a in g_.node.args.args]
                if len(gp) == len(c_.args):
                    ren_ = {p_: (src(a_) if isinstance(a_, ast.Name) else p_)
                            for p_, a_ in zip(gp, c_.args)}
                    ren_ = {k: ('S' if hp and v == hp[0] else v) for k, v in ren_.items()}
                    body_ = ast.Module(body=copy.deepcopy(g_.body()), type_ignores=[])
                    text += ' ' + src(_Rename(ren_).visit(body_))
    # the cells of the state's grid are tested for the requested type, however the scan over the
    # grid is spelled (subscripts of the grid, rows of `grid.objects`, a fused pass)
    import re as _re
    tests = _re.findall(r'isinstance\((?:[^()]|\([^()]*\))*, (?:\w*_)?object_type\)',
                        unprefix(text))
    # the compared terms may name locals of an inlined helper: read them through
    text += ' ' + src(m.walk.expand(prev_e, depth=12))
    rep.check('S.agent.position' in text and 'S.grid' in text and bool(tests)
              and 'object_type' in text, rule, REWARD, f.name, f.node.lineno, prev_t[:120],
              'the distance does not measure from the agent position to the object of the '
              'given type', 'measures agent-object distance')

    def spec(w: World) -> Optional[str]:
        keys = [k for k in w.vals if k[0] == 'ord' and set(k[1:]) == {prev_t, next_t}]
        if not keys:
            return None
        k = keys[0]
        o = w.vals[k]
        # k = ('ord', a, b): a o b
        if k[1] == next_t:
            rel = o           # next o prev
        else:
            rel = {'lt': 'gt', 'gt': 'lt', 'eq': 'eq'}[o]
        return {'lt': 'reward_closer', 'gt': 'reward_further', 'eq': '0.0'}[rel]

    table(m, rep, rule, REWARD, spec, [f'{next_t} < {prev_t}'],
          'distance shaping does not have the sign of the change in distance')


def object_search(index: RepoIndex, rep, rule: str) -> None:
    """the object a distance is measured to: in the three distance rewards, the argument of
    `one(..)` / `next(..)` denotes the positions of the grid of the helper's own state whose
    cell is an instance of the requested type -- read as a cell stream (E16), so a scan of
    `area.positions()`, of the rows, or of a flat enumeration decoded by `divmod(i, width)` are
    the same denotation, and a flat index decoded by the height is not.  A search the stream
    reader cannot read is recorded as undecided (the textual facet of C12.R1 still applies)."""
    from ..cellstream import StreamReader
    from ..inline import inline_methods_by_name
    FIRST = {'mitt.one', 'one', 'more_itertools.one', 'next', 'mitt.first', 'first',
             'mitt.only', 'only'}
    for name in ('proportional_to_distance', 'getting_closer', 'getting_closer_shortest_path'):
        f = index.func(REWARD, name)
        scopes = [f.node] + [n for n in ast.walk(f.node)
                             if isinstance(n, ast.FunctionDef) and n is not f.node]
        called = {n.func.id for sc in scopes for n in ast.walk(sc)
                  if isinstance(n, ast.Call) and isinstance(n.func, ast.Name)}
        for hn in sorted(called):
            h = f.module.functions.get(hn)
            if h is not None and h.node not in scopes and not h.node.decorator_list:
                scopes.append(h.node)
        found = 0
        for sc in scopes:
            own = [n for n in ast.walk(sc) if isinstance(n, ast.Call) and src(n.func) in FIRST
                   and n.args and not any(n in ast.walk(o) for o in scopes
                                          if o is not sc and o in ast.walk(sc))]
            if not own:
                continue
            w = walk_function(sc)
            params = {a.arg for a in sc.args.posonlyargs + sc.args.args + sc.args.kwonlyargs}
            for c in own:
                arg = c.args[0]
                if isinstance(arg, ast.Call) and src(arg.func) == 'iter' and len(arg.args) == 1:
                    arg = arg.args[0]
                x = inline_methods_by_name(index, w.expand(arg), new_only=True)
                rd = StreamReader(index, f.module, w)
                st = rd.read(x)
                site = f'{name}:{sc.name}:{src(c)[:50]}'
                if rd.problems:
                    rep.violation(rule, REWARD, name, c.lineno, src(c)[:120],
                                  f'{name}: the object position is mis-decoded: '
                                  + '; '.join(rd.problems) + ' -- on a non-square grid the '
                                  'distance is measured to a cell that does not hold the object')
                    found += 1
                    continue
                if st is None:
                    rep.undecided(rule, site, f'search `{src(x)[:60]}` is not a cell stream the '
                                  f'reader understands')
                    continue
                found += 1
                root = st.grid.split('.')[0]
                filt = sorted(src(c_) for c_ in st.filters)
                okf = len(filt) == 1 and filt[0].startswith('isinstance(O, ') and \
                    filt[0][len('isinstance(O, '):-1].endswith('object_type')
                rep.check(st.kind == 'cells' and st.grid.endswith('.grid') and root in params
                          and okf, rule, REWARD, name, c.lineno, src(c)[:120],
                          f'{name}: the distance is measured to {st.kind} of `{st.grid}` '
                          f'filtered by {filt}, not to the cell of the state\'s grid that holds '
                          f'the requested object type', f'{name} object search in {sc.name}')
        if not found:
            rep.undecided(rule, f'{name}:search', 'no readable search for the object position')


def run(index: RepoIndex, rep) -> None:
    rep.rule('C12.R7', 'the distance rewards locate the object as the cell of the state\'s grid '
             'holding the requested type (cell-stream denotation of the search)', floor=1)
    object_search(index, rep, 'C12.R7')
    rep.rule('C12.R1', 'decision tables of the reward / terminating components', floor=12)
    rep.rule('C12.R2', 'which of state / next_state each component reads', floor=6)
    rep.rule('C12.R3', 'delegation and sibling agreement between reward and termination',
             floor=6)
    rep.rule('C12.R4', 'composition: reduce applies the reduction to every part; sum/any/all',
             floor=8)
    from .wiring import late_binding_closures
    late_binding_closures(index, rep, 'C12.R4', (
        'gym_gridverse/envs/reward_functions.py',
        'gym_gridverse/envs/terminating_functions.py'))
    rep.rule('C12.R8', 'what a driven environment reports is what the components computed for '
             'that step: InnerEnv.step returns the reward and flag of its one functional_step '
             'call, OuterEnv.step returns the inner answer (C04.R1, C04.R5)', floor=8)
    from .c04 import outer_delegation, state_machine
    state_machine(index, rep, 'C12.R8')
    outer_delegation(index, rep, 'C12.R8', strict=False)
    rep.rule('C12.R5', 'GridWorld.functional_step wires reward and termination on the '
             '(state, action, next_state) of one step', floor=3)
    rw = index.registry('reward', 13)
    tm = index.registry('terminating', 7)
    ev = Evaluator(index)
    R = {n: FnModel(index, f, ['S', 'A', 'N'], ev) for n, f in rw.items()}
    T = {n: FnModel(index, f, ['S', 'A', 'N'], ev) for n, f in tm.items()}

    def need(d, name, what):
        if name not in d:
            raise AnalysisError(f'anchor vanished: {what} function {name}')
        return d[name]

    # ---- overlap
    m = need(R, 'overlap', 'reward')

    def spec_overlap(w):
        k = [x for x in w.vals if x[0] == 'isinst' and x[1] == NCELL]
        if not k:
            return None
        return 'reward_on' if w.vals[k[0]] else 'reward_off'
    table(m, rep, 'C12.R1', REWARD, spec_overlap, [f'isinstance({NCELL}, object_type)'],
          'overlap reward is not reward_on iff the agent\'s next cell is of the given type')
    rep.check(roles_read(m) == {'N'}, 'C12.R2', REWARD, 'overlap', m.func.node.lineno,
              'overlap', f'reward overlap reads {sorted(roles_read(m))}, documented: next state '
              f'only', 'overlap reads N')
    m = need(T, 'overlap', 'terminating')

    def spec_overlap_t(w):
        k = [x for x in w.vals if x[0] == 'isinst' and x[1] == NCELL]
        if not k:
            return None
        return str(bool(w.vals[k[0]]))
    table(m, rep, 'C12.R1', TERM, spec_overlap_t, [f'isinstance({NCELL}, object_type)'],
          'overlap termination is not `the agent\'s next cell is of the given type`',
          boolean=True)
    rep.check(roles_read(m) == {'N'}, 'C12.R2', TERM, 'overlap', m.func.node.lineno,
              'overlap', f'terminating overlap reads {sorted(roles_read(m))}, documented: next '
              f'state only', 'overlap reads N')

    # ---- delegations
    std = {'state': 'S', 'action': 'A', 'next_state': 'N', 'rng': 'rng'}
    delegation(need(R, 'reach_exit', 'reward'), rep, 'C12.R3', REWARD, 'overlap',
               dict(std, object_type='Exit', reward_on='reward_on', reward_off='reward_off'),
               need(R, 'overlap', 'reward'))
    delegation(need(R, 'bump_moving_obstacle', 'reward'), rep, 'C12.R3', REWARD, 'overlap',
               dict(std, object_type='MovingObstacle', reward_on='reward', reward_off='0.0'),
               need(R, 'overlap', 'reward'))
    delegation(need(T, 'reach_exit', 'terminating'), rep, 'C12.R3', TERM, 'overlap',
               dict(std, object_type='Exit'), need(T, 'overlap', 'terminating'), boolean=True)
    delegation(need(T, 'bump_moving_obstacle', 'terminating'), rep, 'C12.R3', TERM, 'overlap',
               dict(std, object_type='MovingObstacle'), need(T, 'overlap', 'terminating'),
               boolean=True)

    # ---- sibling predicates: the reward condition is the termination predicate
    for name in ('overlap', 'bump_into_wall'):
        mr, mt = R[name], need(T, name, 'terminating')
        on = [r for r in mr.returns if r.value not in ('reward_off', '0.0')]
        pred_r = show(on[0].guard) if len(on) == 1 else None
        pred_t = show(formula_of(mt.returns[0].value_node)) \
            if len(mt.returns) == 1 and mt.returns[0].value_node is not None else None
        same = pred_r is not None and pred_r == pred_t
        if not same and len(on) == 1 and mt.returns and \
                all(r.value_node is not None for r in mt.returns):
            # guard clauses (`if not inside: return False` / `return isinstance(..)`): the
            # termination fires under the disjunction of (path condition and returned
            # predicate); compared with the reward's condition as propositions
            from ..guards import f_and, f_or, prop_equiv
            ft = f_or(*[f_and(r.guard, formula_of(r.value_node)) for r in mt.returns])
            try:
                same = prop_equiv(on[0].guard, ft) is None
            except AnalysisError:
                same = False
            pred_t = show(ft)
        rep.check(same, 'C12.R3', REWARD, name,
                  mr.func.node.lineno, f'{pred_r}  vs  {pred_t}',
                  f'reward {name} pays under `{pred_r}` but terminating {name} fires under '
                  f'`{pred_t}`: reward and termination disagree', f'sibling {name}')

    # ---- living reward
    m = need(R, 'living_reward', 'reward')
    rep.check([r.value for r in m.returns] == ['reward'] and m.returns[0].guard == ('true',),
              'C12.R1', REWARD, 'living_reward', m.func.node.lineno,
              '; '.join(r.value for r in m.returns),
              'living_reward does not return its `reward` parameter unconditionally',
              'living reward')

    # ---- distance shaping
    for name in ('getting_closer', 'getting_closer_shortest_path'):
        m = need(R, name, 'reward')
        closer_table(m, rep, 'C12.R1')
    m = need(R, 'proportional_to_distance', 'reward')
    vals = [r.value for r in m.returns]
    # the only way not to reach the single return is a validation raise of an inlined helper
    from ..guards import atoms_of as _atoms
    raise_atoms = {src(a) for e_ in m.walk.events if e_.kind == 'raise'
                   for a in _atoms(e_.guard)}
    reach_ok = len(m.returns) == 1 and (
        m.returns[0].guard == ('true',) or
        all(src(a) in raise_atoms for a in _atoms(m.returns[0].guard)))
    okp = len(vals) == 1 and reach_ok and (
        vals[0].startswith('reward_per_unit_distance * distance_function(N.agent.position, ')
        or vals[0].endswith(') * reward_per_unit_distance'))
    rep.check(okp, 'C12.R1', REWARD, 'proportional_to_distance', m.func.node.lineno,
              '; '.join(vals)[:200],
              'proportional_to_distance is not rate * distance(next agent position, object)',
              'proportional')
    rep.check(roles_read(m) == {'N'}, 'C12.R2', REWARD, 'proportional_to_distance',
              m.func.node.lineno, 'proportional_to_distance',
              f'proportional_to_distance reads {sorted(roles_read(m))}, documented: next state',
              'proportional reads N')

    # ---- bump into wall
    def spec_bump(on: str, off: str):
        def spec(w):
            ins = w.vals.get(('inside', NEXT))
            if ins is None:
                return None
            if not ins:
                return off
            k = w.vals.get(('kind', cell(NEXT)))
            if k is None:
                return None
            return on if k.cls == 'Wall' else off
        return spec
    m = need(R, 'bump_into_wall', 'reward')
    table(m, rep, 'C12.R1', REWARD, spec_bump('reward', '0.0'),
          [f'S.grid.area.contains({NEXT}) and isinstance({cell(NEXT)}, Wall)'],
          'bump_into_wall reward is not `reward` iff the attempted move targets an in-grid Wall '
          'of the pre-state')
    rep.check(roles_read(m) == {'S'}, 'C12.R2', REWARD, 'bump_into_wall', m.func.node.lineno,
              'bump_into_wall', f'reward bump_into_wall reads {sorted(roles_read(m))}, '
              f'documented: the pre-state only', 'bump reads S')
    m = need(T, 'bump_into_wall', 'terminating')
    table(m, rep, 'C12.R1', TERM, spec_bump('True', 'False'),
          [f'S.grid.area.contains({NEXT}) and isinstance({cell(NEXT)}, Wall)'],
          'bump_into_wall termination is not `the attempted move targets an in-grid Wall of '
          'the pre-state`', boolean=True)
    rep.check(roles_read(m) == {'S'}, 'C12.R2', TERM, 'bump_into_wall', m.func.node.lineno,
              'bump_into_wall', f'terminating bump_into_wall reads {sorted(roles_read(m))}, '
              f'documented: the pre-state only', 'bump reads S')

    # ---- actuate_door reward
    m = need(R, 'actuate_door', 'reward')
    SC, NC = cell(FRONT), cell(FRONT, 'N')

    def spec_door(w):
        if w.vals[('action',)] != 'ACTUATE':
            return '0.0'
        ins = w.vals.get(('inside', FRONT))
        if ins is None:
            return None
        if not ins:
            return '0.0'
        a, b = w.vals.get(('kind', SC)), w.vals.get(('kind', NC))
        if a is None:
            return None
        if a.cls != 'Door':
            return '0.0'
        if b is None:
            return None
        if b.cls != 'Door':
            return '0.0'
        o, o2 = a.status == 'OPEN', b.status == 'OPEN'
        if not o and o2:
            return 'reward_open'
        if o and not o2:
            return 'reward_close'
        return '0.0'
    table(m, rep, 'C12.R1', REWARD, spec_door,
          ['A is Action.ACTUATE', f'S.grid.area.contains({FRONT})',
           f'isinstance({SC}, Door) and isinstance({NC}, Door) and {SC}.is_open and {NC}.is_open'],
          'door reward does not fire exactly on the change of the faced door\'s open status')

    # ---- pickndrop reward
    m = need(R, 'pickndrop', 'reward')

    def spec_pick(w):
        a = [x for x in w.vals if x[0] == 'isinst' and x[1] == 'S.agent.grid_object']
        b = [x for x in w.vals if x[0] == 'isinst' and x[1] == 'N.agent.grid_object']
        if not a or not b:
            return None
        had, has = w.vals[a[0]], w.vals[b[0]]
        if not had and has:
            return 'reward_pick'
        if had and not has:
            return 'reward_drop'
        return '0.0'
    table(m, rep, 'C12.R1', REWARD, spec_pick,
          ['isinstance(S.agent.grid_object, object_type) and '
           'isinstance(N.agent.grid_object, object_type)'],
          'pick/drop reward does not fire exactly on the change of the held item')

    # ---- memory exit
    m = need(R, 'reach_exit_memory', 'reward')

    def spec_mem(w):
        k = w.vals.get(('kind', NCELL))
        if k is None:
            return None
        if k.cls != 'Exit':
            return '0.0'
        eqs = [x for x in w.vals if x[0] == 'eq' and f'color({NCELL})' in x[1:]]
        if not eqs:
            return None
        return 'reward_good' if w.vals[eqs[0]] else 'reward_bad'
    table(m, rep, 'C12.R1', REWARD, spec_mem, [f'isinstance({NCELL}, Exit)'],
          'memory reward is not good iff the exit\'s colour matches the beacon')
    # the colour compared with the exit's: `next(...)` over the cells of the NEXT state's grid,
    # in positions() order, filtered to Beacons, projected to the colour
    others = []
    for r in m.returns:
        for a in _atoms_of(r.guard):
            if isinstance(a, ast.Compare) and len(a.ops) == 1 and \
                    isinstance(a.ops[0], (ast.Is, ast.Eq, ast.IsNot, ast.NotEq)):
                l, rr = a.left, a.comparators[0]
                if src(l) == f'{NCELL}.color':
                    others.append(rr)
                elif src(rr) == f'{NCELL}.color':
                    others.append(l)
    streams = [first_of_stream(m, o) for o in others]
    want = ('N.grid[P].color', ['isinstance(N.grid[P], Beacon)'])
    rep.check(bool(others) and all(st == want for st in streams), 'C12.R2', REWARD,
              'reach_exit_memory', m.func.node.lineno,
              '; '.join(src(o) for o in others)[:200] + f' -> {streams[:1]}',
              'the colour compared with the exit is not that of a Beacon of the next state',
              'beacon of N')

    rep.rule('C12.R6', 'shortest-path distances: worklist loop over the four unit '
             'neighbours, updated exactly when inside the array (both axes, both sides), '
             'walkable and unvisited', floor=6)
    bfs_rule(index, rep, 'C12.R6')

    # ---- composition
    for d, relpath, plural, single in ((R, REWARD, 'reward_functions', 'reward_function'),
                                       (T, TERM, 'terminating_functions',
                                        'terminating_function')):
        m = need(d, 'reduce', relpath)
        ok = False
        v = m.returns[0].value_node if len(m.returns) == 1 else None
        if isinstance(v, ast.Call) and src(v.func) == 'reduction' and len(v.args) == 1 \
                and isinstance(v.args[0], (ast.GeneratorExp, ast.ListComp)):
            ge = v.args[0]
            g = ge.generators
            if len(g) == 1 and not g[0].ifs and src(g[0].iter) == plural \
                    and isinstance(ge.elt, ast.Call) and src(ge.elt.func) == src(g[0].target):
                kw = call_kwargs(ge.elt, ['state', 'action', 'next_state'])
                ok = kw == {'state': 'S', 'action': 'A', 'next_state': 'N', 'rng': 'rng'}
        rep.check(ok, 'C12.R4', relpath, 'reduce', m.func.node.lineno,
                  m.returns[0].value if m.returns else 'reduce',
                  f'reduce does not apply `reduction` to every element of {plural} called with '
                  f'(state, action, next_state, rng=rng)', f'{relpath.split("/")[-1]} reduce')
    for d, relpath, name, red, plural in ((R, REWARD, 'reduce_sum', 'sum', 'reward_functions'),
                                          (T, TERM, 'reduce_any', 'any', 'terminating_functions'),
                                          (T, TERM, 'reduce_all', 'all', 'terminating_functions')):
        m = need(d, name, relpath)
        delegation(m, rep, 'C12.R4', relpath, 'reduce',
                   {'state': 'S', 'action': 'A', 'next_state': 'N', plural: plural,
                    'reduction': red, 'rng': 'rng'}, need(d, 'reduce', relpath),
                   boolean=d is T)
    fe = index.func(FACTORY, 'factory_env_from_data')
    w = walk_function(fe.node)
    gwc = [e_ for e_ in w.events if e_.kind == 'return' and isinstance(e_.value, ast.Call)
           and src(e_.value.func) == 'GridWorld']
    built = [w.expand(a_) for e_ in gwc for a_ in list(e_.value.args) +
             [k.value for k in e_.value.keywords]]

    def _composite(fname: str, red: str, plural: str) -> bool:
        for x in built:
            if isinstance(x, ast.Call) and src(x.func) == fname and len(x.args) == 1 and \
                    isinstance(x.args[0], ast.Dict) and not x.keywords:
                dd = {src(k): src(v) for k, v in zip(x.args[0].keys, x.args[0].values)}
                if dd == {"'name'": f"'{red}'", f"'{plural}'": f"data['{plural}']"}:
                    return True
        return False
    rep.check(_composite('factory_reward_function', 'reduce_sum', 'reward_functions'), 'C12.R4',
              FACTORY, 'factory_env_from_data',
              fe.node.lineno, 'reward_function = ...',
              'the YAML factory does not sum the listed reward functions (reduce_sum)',
              'yaml rewards summed')
    rep.check(_composite('factory_transition_function', 'chain', 'transition_functions'),
              'C12.R4', FACTORY,
              'factory_env_from_data', fe.node.lineno, 'transition_function = ...',
              'the YAML factory does not chain the listed transition functions',
              'yaml transitions chained')

    # every configured part reaches the composite, as a list it can iterate at every step
    from .c17 import composite_parts
    composite_parts(index, rep, 'C12.R4')
    # components obtained by name keep every accepted parameter (zero values included)
    sk = index.func('gym_gridverse/utils/functions.py', 'select_kwargs')
    from .c17 import select_kwargs_ok
    rep.check(select_kwargs_ok(sk), 'C12.R4',
              'gym_gridverse/utils/functions.py', 'select_kwargs', sk.node.lineno,
              'select_kwargs',
              'select_kwargs does not keep exactly the accepted parameters: e.g. a reward '
              'configured as 0.0 would silently fall back to its non-zero default',
              'parameters reach the component')
    # ... through factories that hand the configured parameters on unchanged (C17.R4)
    from .c17 import factory_rules
    factory_rules(index, rep, 'C12.R4')
    # ---- wiring (normal form: helpers, private methods and transition_with_copy inlined)
    from ..view import step_wiring
    sw = step_wiring(index)
    fs, w, sp, ap = sw['func'], sw['walk'], sw['state'], sw['action']
    ren = {sp: 'S', ap: 'A'}
    tc = sw['tcalls']
    rep.check(len(tc) == 1 and not tc[0].loops, 'C12.R5', GW, 'GridWorld.functional_step',
              fs.node.lineno, '; '.join(src(c.node) for c in tc),
              f'functional_step runs the transition {len(tc)} times', 'one transition')
    C = sw['copy']
    rets = [e for e in w.events if e.kind == 'return' and e.value is not None]
    ok = len(rets) == 1 and C is not None and sw['copy_deep']
    got = src(w.expand(rets[0].value, ren, stop=[C] if C else [])) if rets else ''
    want = f'({C}, self._reward_function(S, A, {C}), self._termination_function(S, A, {C}))'
    rep.check(ok and got == want, 'C12.R5', GW, 'GridWorld.functional_step', fs.node.lineno,
              got[:300], 'functional_step does not return (next_state, reward(state, action, '
              'next_state), termination(state, action, next_state)) of one transition on a '
              'copy of the state', 'step wiring')
    if tc:
        a = tc[0].node.args
        rep.check(len(a) >= 2 and src(w.expand(a[1])) == ap, 'C12.R5', GW,
                  'GridWorld.functional_step', tc[0].line, src(tc[0].node),
                  'the transition does not receive the action of this step', 'same action')
    rc = [e for e in w.events if e.kind == 'call'
          and src(e.node.func) in ('self._reward_function', 'self._termination_function')]
    rep.check(len(rc) == 2 and all(tc and c.order > tc[0].order for c in rc), 'C12.R5', GW,
              'GridWorld.functional_step', fs.node.lineno,
              '; '.join(src(c.node) for c in rc), 'reward/termination are not each evaluated '
              'exactly once, after the transition', 'one evaluation each')
