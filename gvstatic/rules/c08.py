"""C08 -- agent kinematics: moves and turns do exactly what the action says."""
from __future__ import annotations

import ast
from typing import Dict, List, Set

from ..boolean import Evaluator, ObjectModel, OutOfGrid
from ..core import AnalysisError, src
from ..dynmodel import (FRONT, HELD, NEXT, POS, TRANS, FnModel, cell, describe_world)
from ..geom import Geometry
from ..guards import show
from ..index import RepoIndex

EXPLANATION = (
    'Per-step kinematics decided statically: the literal action tables are compared with the '
    'documented mapping; the guard of the single store to the agent position in move_agent '
    'is extracted (dominating path condition, locals expanded) and evaluated against the '
    'required guard `is_move and inside(next) and not blocks_movement(cell(next))` in every '
    'world of a finite model (8 actions x inside/outside x 13 object kinds x free atoms), '
    'the stored value being the tentative next position of the current pose; turn_agent '
    'stores only the heading, composed with the table entry, only for the two turn actions; '
    'an effect table states which registered transition function may write the pose; '
    'Door.blocks_movement is `not is_open`.')
TRUSTED = ['C18 (pose algebra, get_next_position)', 'Python semantics of the extracted guards']

UTILS = 'gym_gridverse/envs/utils.py'
ACTION = 'gym_gridverse/action.py'
GO = 'gym_gridverse/grid_object.py'

# effect classes a registered transition function may have (C08.R5, C09.R1, C10.R1)
ALLOWED_EFFECTS: Dict[str, Set[str]] = {
    'chain': set(),
    'move_agent': {'position'},
    'turn_agent': {'orientation'},
    'pickndrop': {'cell', 'held'},
    'move_obstacles': {'swap'},
    'actuate_door': {'door-status'},
    'actuate_box': {'cell'},
    'teleport': {'position'},
}


def effect_class(e) -> str:
    t = e.target
    if e.kind == 'call':
        name = t.split('.')[-1]
        if name == 'swap':
            return 'swap'
        return ''
    if e.kind == 'fcall':
        return ''
    if t in ('S.agent.position', 'S.agent.transform.position'):
        return 'position'
    if t in ('S.agent.orientation', 'S.agent.transform.orientation'):
        return 'orientation'
    if t in ('S.agent.transform',):
        return 'position+orientation'
    if t == 'S.agent.grid_object':
        return 'held'
    if e.kind == 'store' and (t.startswith('S.grid[') or t.startswith('S.grid.objects[')):
        return 'cell'
    if e.kind in ('attrstore', 'augstore') and t.startswith('S.grid[') and t.endswith('.state'):
        return 'door-status'
    if t.startswith('S.') or t.startswith('S['):
        return f'other:{t}'
    return ''


def effect_table(index: RepoIndex, rep, rule: str, want_class: Set[str]) -> None:
    """who may write: registered transition functions vs ALLOWED_EFFECTS, for the effect
    classes in `want_class`"""
    reg = index.registry('transition', 8)
    from ..effects import Effects
    eff = Effects(index)
    for name, f in sorted(reg.items()):
        m = FnModel(index, f, ['S', 'A'])
        classes: Dict[str, List] = {}
        for e in m.effects:
            c = effect_class(e)
            if c:
                classes.setdefault(c, []).append(e)
        # mutation through helpers: callees that mutate the state argument
        for e in m.effects:
            if e.kind in ('fcall', 'call'):
                for t in eff.resolve(eff.qual(f), e.ev.node):
                    if t.cls is not None and t.cls.name == 'Grid':
                        continue   # Grid.swap/__setitem__: classified above
                    ts = eff.summary(t)
                    b = eff.bind_args(t, e.ev.node)
                    for p, a in b.items():
                        if p in ts.mut_params and 'state' in {n.id for n in ast.walk(a) if isinstance(n, ast.Name)} | set():
                            if name == 'chain':
                                continue
                            classes.setdefault(f'helper:{t.short}', []).append(e)
        allowed = ALLOWED_EFFECTS.get(name)
        if allowed is None:
            rep.note(f'transition function {name} is not in the effect table (not built-in at '
                     f'the pinned commit); its effects are {sorted(classes)}')
            continue
        for c, evs in sorted(classes.items()):
            relevant = any(c.startswith(k) or k in c for k in want_class) or \
                c.startswith('other') or c.startswith('helper')
            if not relevant:
                continue
            ok = c in allowed
            rep.check(ok, rule, TRANS, name, evs[0].line, src(evs[0].ev.stmt),
                      f'transition function {name} writes {c} (`{evs[0].target}`); the effect '
                      f'table allows it only {sorted(allowed) or "nothing"}',
                      f'{name} writes {c}')
        for c in sorted(allowed & want_class):
            rep.check(c in classes, rule, TRANS, name, f.node.lineno, name,
                      f'transition function {name} no longer writes {c}', f'{name} has {c}')


def run(index: RepoIndex, rep) -> None:
    rep.rule('C08.R1', 'action tables: MOVE_* -> like-named orientation, TURN_LEFT -> L, '
             'TURN_RIGHT -> R, _MOVE_ACTIONS/_TURN_ACTIONS exact', floor=3)
    rep.rule('C08.R2', 'tentative next position agrees with the pose algebra for every heading '
             'and action (C18.R7)', floor=32)
    rep.rule('C08.R3', 'movement gate: the only position store of move_agent fires iff is_move '
             'and inside(next) and not blocks_movement(cell(next)), with value next', floor=2)
    rep.rule('C08.R4', 'turn_agent stores only the heading, composed with the table entry, '
             'only for turn actions', floor=2)
    rep.rule('C08.R5', 'who may write the pose among registered transition functions', floor=3)
    rep.rule('C08.R6', 'Door.blocks_movement is `not is_open`', floor=3)
    rep.rule('C08.R8', 'the copy a step works on is a plain deep copy: the grid the agent moves '
             'in has the extent of the original (no custom pickling / copy protocol; C09.R5)',
             floor=15)
    from .c09 import deep_copy_rule
    deep_copy_rule(index, rep, 'C08.R8')
    rep.rule('C08.R10', 'composed dynamics: chain runs each configured part exactly once per '
             'step with the given state and action, and the factory binds the parts as '
             'configured (a part that runs twice moves or turns the agent twice)', floor=3)
    from .wiring import chain_once, transition_factory_passthrough
    chain_once(index, rep, 'C08.R10')
    transition_factory_passthrough(index, rep, 'C08.R10')
    from .wiring import late_binding_closures
    late_binding_closures(index, rep, 'C08.R10', (
        'gym_gridverse/envs/transition_functions.py',))
    rep.rule('C08.R9', 'no pose object is shared between states: module-level Transform / Agent '
             'objects are only read through, never stored into a state (C03.R8)', floor=1)
    from .c03 import shared_mutable_constants
    shared_mutable_constants(index, rep, 'C08.R9')
    rep.rule('C08.R7', 'teleportation displaces the agent only from a Telepod, to another pod of '
             'its colour (C11.R3)', floor=5)
    ev = Evaluator(index)
    om = ev.om
    acts = index.enum('Action')

    # ---------------------------------------------------------------- R1
    if '_move_action_to_orientation' in index.module(UTILS).assigns:
        tab = index.table(UTILS, '_move_action_to_orientation')
        got = {}
        for k, v in zip(tab.keys, tab.values):
            a, o = index.enum_member(k), index.enum_member(v)
            if not a or not o:
                raise AnalysisError('_move_action_to_orientation: non-literal entry')
            got[a[1]] = o[1]
        want = {'MOVE_FORWARD': 'FORWARD', 'MOVE_BACKWARD': 'BACKWARD', 'MOVE_LEFT': 'LEFT',
                'MOVE_RIGHT': 'RIGHT'}
        rep.check(got == want, 'C08.R1', UTILS, '_move_action_to_orientation', tab.lineno,
                  src(tab), f'move table is {got}, documented mapping is {want}', 'move table')
    else:
        rep.note('no _move_action_to_orientation table: the move mapping is decided by the '
                 'denotation of get_next_position (C08.R2)')
    if '_action_orientations' in index.module(TRANS).assigns and \
            isinstance(index.table(TRANS, '_action_orientations'), ast.Dict):
        tab = index.table(TRANS, '_action_orientations')
        got = {}
        for k, v in zip(tab.keys, tab.values):
            a, o = index.enum_member(k), index.enum_member(v)
            if not a or not o:
                raise AnalysisError('_action_orientations: non-literal entry')
            got[a[1]] = o[1]
        want = {'TURN_LEFT': 'LEFT', 'TURN_RIGHT': 'RIGHT'}
        rep.check(got == want, 'C08.R1', TRANS, '_action_orientations', tab.lineno, src(tab),
                  f'turn table is {got}, documented mapping is {want}', 'turn table')
    else:
        rep.note('no literal _action_orientations table: the turn mapping is decided by the '
                 'denotation of turn_agent (C08.R4)')
        rep.holds('C08.R1', f'{TRANS}:turn mapping', 'decided by the denotation of turn_agent')
    for name, want_set in (('_MOVE_ACTIONS', {'MOVE_FORWARD', 'MOVE_BACKWARD', 'MOVE_LEFT',
                                             'MOVE_RIGHT'}),
                           ('_TURN_ACTIONS', {'TURN_LEFT', 'TURN_RIGHT'})):
        t = index.table(ACTION, name)
        g = set(ev.action_tables.get(name, []))
        rep.check(g == want_set, 'C08.R1', ACTION, name, t.lineno, src(t),
                  f'{name} is {sorted(g)}, expected {sorted(want_set)}', name)

    # ---------------------------------------------------------------- R2
    from . import c18
    sub = _SubReport(rep, 'C18.R7', 'C08.R2')
    geo = Geometry(index)
    _next_position(index, sub, geo)

    # ---------------------------------------------------------------- R3
    f = index.func(TRANS, 'move_agent')
    m = FnModel(index, f, ['S', 'A'], ev)
    pos_stores = [e for e in m.effects if effect_class(e) in ('position', 'position+orientation')]
    if not pos_stores:
        rep.violation('C08.R3', TRANS, 'move_agent', f.node.lineno, 'move_agent',
                      'move_agent never stores the agent position')
    for e in pos_stores:
        rep.check(e.value == NEXT and e.kind == 'attrstore', 'C08.R3', TRANS, 'move_agent',
                  e.line, src(e.ev.stmt),
                  f'the position is set to `{e.value}`, not to the tentative next position of '
                  f'the current pose `{NEXT}`', 'stored value')
    guards = [e.guard for e in pos_stores]
    worlds = m.worlds(guards, touch=[_f('A.is_move()'), _f(f'S.grid.area.contains({NEXT})'),
                                     _f(f'{cell(NEXT)}.blocks_movement')])
    bad = None
    n = 0
    for w in worlds:
        n += 1
        try:
            fired = any(ev.holds(g, w) for g in guards)
        except OutOfGrid as oog:
            bad = (w, f'reads the cell `{oog.term}` while the position is outside the grid')
            break
        is_move = w.vals[('action',)] in ev.action_tables['_MOVE_ACTIONS']
        inside = w.vals.get(('inside', NEXT), True)
        if is_move and inside:
            k = w.vals.get(('kind', cell(NEXT)))
            if k is None:
                # the guard never looked at the target cell
                blocks = None
            else:
                blocks = om.flag(k, 'blocks_movement')
        else:
            blocks = None
        want_f = bool(is_move and inside and blocks is False)
        if blocks is None and is_move and inside:
            want_f = None
        if want_f is None:
            bad = (w, 'the move does not depend on whether the target cell blocks movement')
            break
        if fired != want_f:
            bad = (w, f'the agent {"moves" if fired else "stays"} but should '
                      f'{"move" if want_f else "stay"}')
            break
    rep.check(bad is None, 'C08.R3', TRANS, 'move_agent', f.node.lineno,
              ' | '.join(show(g) for g in guards),
              'movement gate differs from `is_move and inside(next) and not '
              'blocks_movement(cell(next))`: ' + (f'{bad[1]} when {describe_world(bad[0])}'
                                                  if bad else ''),
              f'gate equivalent in {n} worlds')

    # ---------------------------------------------------------------- R4
    f = index.func(TRANS, 'turn_agent')
    m = FnModel(index, f, ['S', 'A'], ev)
    ori = [e for e in m.effects if effect_class(e) in ('orientation', 'position+orientation')]
    if not ori:
        rep.violation('C08.R4', TRANS, 'turn_agent', f.node.lineno, 'turn_agent',
                      'turn_agent never stores the heading')
    # denotation: for every heading and action, the heading after turn_agent
    from ..geom import GeoInterp, GeoKeyError
    gi = GeoInterp(index)
    tmod = index.module(TRANS)
    turn_dir = {'TURN_LEFT': 'LEFT', 'TURN_RIGHT': 'RIGHT'}
    HEAD = 'S.agent.orientation'
    for o in geo.orients:
        for a in acts.order:
            env = {'A': ('E', 'Action', a), HEAD: ('O', o)}
            new_h = ('O', o)
            why = ''
            try:
                for e in ori:
                    if not gi.holds(e.guard, env, tmod, m.walk, 4):
                        continue
                    val = e.value_node
                    if e.kind == 'augstore':
                        val = ast.BinOp(ast.parse(HEAD, mode='eval').body, e.ev.node.op, val)
                    new_h = gi.eval(val, dict(env, **{HEAD: new_h}), tmod)
            except GeoKeyError as ex:
                new_h, why = ('X', f'KeyError({ex})'), 'a KeyError escapes'
            except AnalysisError as ex:
                raise AnalysisError(f'turn_agent outside the grammar: {ex}')
            want_h = ('O', geo.rot[(o, turn_dir[a])]) if a in turn_dir else ('O', o)
            rep.check(new_h == want_h, 'C08.R4', TRANS, 'turn_agent', f.node.lineno,
                      f'heading {o}, {a} -> {new_h[1] if len(new_h) > 1 else new_h}',
                      f'heading {o}, action {a}: the heading becomes '
                      f'{new_h[1] if len(new_h) > 1 else new_h}, expected {want_h[1]} '
                      f'({"a quarter turn " + turn_dir[a].lower() if a in turn_dir else "no change"})'
                      f' {why}', f'turn {o},{a}')
    others = [e for e in m.effects if e.kind in ('store', 'attrstore', 'augstore', 'delete')
              and e not in ori]
    rep.check(not others, 'C08.R4', TRANS, 'turn_agent', f.node.lineno,
              '; '.join(src(e.ev.stmt) for e in others) or 'turn_agent',
              f'turn_agent also writes {[e.target for e in others]}', 'turn_agent writes only the heading')

    # ---------------------------------------------------------------- R5
    effect_table(index, rep, 'C08.R5', {'position', 'orientation'})

    # ---------------------------------------------------------------- R6
    door = index.cls(GO, 'Door')
    from ..boolean import Kind
    for st in om.status.order:
        k = Kind('Door', st)
        bm = om.flag(k, 'blocks_movement')
        rep.check(bm == (st != 'OPEN'), 'C08.R6', GO, 'Door.blocks_movement', door.node.lineno,
                  f'Door[{st}].blocks_movement = {bm}',
                  f'a door with status {st} has blocks_movement={bm}; doors block unless open',
                  f'door {st}')

    from .c11 import teleport
    teleport(index, rep, 'C08.R7')


def _f(text: str):
    from ..guards import formula_of
    return formula_of(ast.parse(text, mode='eval').body)


class _SubReport:
    """records instances of another property's rule under this property's rule id"""

    def __init__(self, rep, src_rule, dst_rule):
        self.rep, self.src_rule, self.dst_rule = rep, src_rule, dst_rule

    def check(self, cond, rule, *a, **k):
        return self.rep.check(cond, self.dst_rule, *a, **k)


def _next_position(index, rep, geo) -> None:
    """C18.R7 / C08.R2: the denotation of get_next_position for every heading and action --
    extracted guarded returns evaluated over concrete enum members and a symbolic position --
    equals position + M(heading)·delta(direction of the move), and position for non-moves"""
    from .c18 import mv
    from ..geom import GeoInterp, P
    from ..affine import Aff
    gi = GeoInterp(geo)
    gn = index.func(UTILS, 'get_next_position')
    ps = [a.arg for a in gn.node.args.args]
    if len(ps) != 3:
        raise AnalysisError('get_next_position no longer takes (position, orientation, action)')
    direction = {'MOVE_FORWARD': 'FORWARD', 'MOVE_BACKWARD': 'BACKWARD', 'MOVE_LEFT': 'LEFT',
                 'MOVE_RIGHT': 'RIGHT'}
    acts = index.enum('Action')
    for o in geo.orients:
        for a in acts.order:
            try:
                got = gi.call(gn, {ps[0]: P('py', 'px'), ps[1]: ('O', o),
                                   ps[2]: ('E', 'Action', a)})
            except AnalysisError as e:
                # a guard on the sign / size of a coordinate cannot be read for a symbolic
                # position: folded at constant positions instead.  A position where the result
                # differs from the pose algebra is a counterexample; agreement at every
                # sampled position proves nothing (exit 2)
                wit = None
                dd = mv(geo.mat(o), geo.delta[direction[a]]) if a in direction else (0, 0)
                for py in (0, 1, 4, -1, -3):
                    for px in (0, 1, 4, -1, -3):
                        try:
                            gc = gi.call(gn, {ps[0]: ('P', (Aff.const(py), Aff.const(px))),
                                              ps[1]: ('O', o), ps[2]: ('E', 'Action', a)})
                        except AnalysisError:
                            raise AnalysisError(f'get_next_position outside the grammar: {e}')
                        if gc != ('P', (Aff.const(py + dd[0]), Aff.const(px + dd[1]))) and \
                                wit is None:
                            wit = (py, px, gc)
                if wit is None:
                    raise AnalysisError(f'get_next_position outside the grammar: {e}')
                rep.violation('C18.R7', UTILS, 'get_next_position', gn.node.lineno,
                              f'heading {o}, {a} at ({wit[0]}, {wit[1]}) -> {wit[2]}',
                              f'heading {o}, action {a}, position ({wit[0]}, {wit[1]}): the '
                              f'tentative next position is {wit[2]}, the pose algebra gives '
                              f'({wit[0] + dd[0]}, {wit[1] + dd[1]})')
                continue
            if a in direction:
                d = mv(geo.mat(o), geo.delta[direction[a]])
                want = ('P', (Aff.sym('py') + d[0], Aff.sym('px') + d[1]))
            else:
                want = ('P', (Aff.sym('py'), Aff.sym('px')))
            rep.check(got == want, 'C18.R7', UTILS, 'get_next_position', gn.node.lineno,
                      f'heading {o}, {a} -> {got[1] if got[0] == "P" else got}',
                      f'heading {o}, action {a}: tentative next position is '
                      f'{got[1] if got[0] == "P" else got}, the pose algebra gives {want[1]}'
                      f' (one cell in the commanded direction relative to the heading'
                      f'{"" if a in direction else "; non-moves stay"})', f'next {o},{a}')
