"""C11 -- stochastic dynamics obey their rules for every random outcome."""
from __future__ import annotations

import ast
import itertools
from typing import Dict, List, Optional

from ..boolean import Evaluator
from ..core import AnalysisError, src
from ..dynmodel import POS, TRANS, FnModel, cell, describe_world, equiv
from ..guards import formula_of, show, strip_iter
from ..index import Func, RepoIndex
from ..inteval import CannotEval, ev as int_ev
from .c08 import effect_class

EXPLANATION = (
    'Draw-independent structure of the two stochastic transitions, decided on the source: '
    'in move_obstacles the obstacle list is built once before the loop from all positions '
    'filtered by MovingObstacle and never modified; per obstacle the candidates are '
    'get_manhattan_boundary(position, 1) filtered by `inside and Floor` (truth-table '
    'equivalence, evaluated inside the loop so that it sees earlier moves); the index is '
    'rng.choice(len(C)) and the destination C[i] of that same list (full support); the only '
    'effect is Grid.swap(position, C[i]) (a true exchange), guarded by non-emptiness. The '
    'four generators of get_manhattan_boundary evaluated at distance 1 give the four '
    'neighbours. teleport moves only an agent standing on a Telepod, to C[rng.choice(len(C))] '
    'with C = positions other than its own holding a Telepod of the same colour, and only '
    'if C is non-empty. These facts hold for every random outcome because none depends on '
    'the draw.')
TRUSTED = ['numpy Generator.choice(n) is supported on {0..n-1} and raises ValueError for n=0',
           'uniformity of the distribution is declined']

GEOM = 'gym_gridverse/geometry.py'
GRID = 'gym_gridverse/grid.py'


def _fuse(m: FnModel, lc: ast.ListComp, depth: int = 3) -> ast.ListComp:
    """`[e for t in L if c2]` with `L = [t1 for t1 in IT if c1]` (a filtered copy, never
    updated in place) is `[e for t in IT if c1[t1 := t] and c2]`"""
    import copy
    from ..inline import _Rename
    if depth <= 0 or len(lc.generators) != 1:
        return lc
    g = lc.generators[0]
    if not (isinstance(g.iter, ast.Name) and isinstance(g.target, ast.Name)):
        return lc
    d = m.walk.single_def(g.iter.id)
    if d is None or d[0] != 'value' or not isinstance(d[1], ast.ListComp):
        return lc
    inner = _fuse(m, d[1], depth - 1)
    if len(inner.generators) != 1 or not isinstance(inner.generators[0].target, ast.Name) or \
            src(inner.elt) != inner.generators[0].target.id:
        return lc
    ig = inner.generators[0]
    ren = _Rename({ig.target.id: g.target.id})
    conds = [ren.visit(copy.deepcopy(c)) for c in ig.ifs] + list(g.ifs)
    out = ast.ListComp(lc.elt, [ast.comprehension(g.target, ig.iter, conds, 0)])
    return ast.copy_location(out, lc)


def _listcomp_def(m: FnModel, name: str):
    d = m.walk.single_def(name)
    if d is None or d[0] != 'value' or not isinstance(d[1], ast.ListComp):
        return None
    fused = _fuse(m, d[1])
    if fused is not d[1]:
        d = (d[0], fused) + tuple(d[2:])
    return d


def picked_from(index: RepoIndex, dest: ast.AST) -> Optional[str]:
    """`choice(rng, C)` with rng.py's helper, when that helper is `data[rng.choice(len(data))]`
    (every element possible): the name C"""
    if isinstance(dest, ast.Call) and src(dest.func) == 'choice' and len(dest.args) == 2 and \
            not dest.keywords and isinstance(dest.args[1], ast.Name):
        from ..view import value_text
        try:
            h = index.func('gym_gridverse/rng.py', 'choice')
        except Exception:      # noqa: BLE001
            return None
        ps = [a.arg for a in h.node.args.args]
        if len(ps) == 2 and value_text(index, h) == f'{ps[1]}[{ps[0]}.choice(len({ps[1]}))]':
            return dest.args[1].id
    return None


def not_none_branch(dest: ast.AST, name: Optional[str], guard) -> ast.AST:
    """`x = None if <no candidate> else C[i]` used under `x is not None`: the value there is
    C[i] (the helper-with-None spelling of the try / except ValueError idiom)"""
    from ..guards import parse_guard, prop_implies, strip_iter
    if isinstance(dest, ast.IfExp) and name is not None:
        alts = [b for b in (dest.body, dest.orelse)
                if not (isinstance(b, ast.Constant) and b.value is None)]
        if len(alts) == 1 and \
                prop_implies(strip_iter(guard), parse_guard(f'{name} is not None')) is None:
            return alts[0]
    return dest


def choice_index_of(m: FnModel, idx: ast.AST, cname: str) -> Optional[str]:
    """`idx` is rng.choice(len(L)) (possibly through a local): returns src(L)"""
    e = m.walk.expand(idx, stop=[cname])
    if isinstance(e, ast.Call) and src(e.func).endswith('.choice') and len(e.args) == 1 \
            and not e.keywords and isinstance(e.args[0], ast.Call) \
            and src(e.args[0].func) == 'len' and len(e.args[0].args) == 1:
        return src(e.args[0].args[0])
    return None


def obstacles(index: RepoIndex, rep, rule: str) -> None:
    f = index.func(TRANS, 'move_obstacles')
    fl = f.node.lineno
    w_ = FnModel(index, f, ['S', 'A'])
    w = w_.walk
    swaps = [e for e in w_.effects if effect_class(e) == 'swap']
    others = [e for e in w_.effects if effect_class(e) not in ('', 'swap')]
    rep.check(not others, rule, TRANS, 'move_obstacles', fl,
              '; '.join(src(e.ev.stmt) for e in others) or 'move_obstacles',
              f'move_obstacles writes {[e.target for e in others]} besides swapping cells',
              'only swaps')
    if len(swaps) != 1:
        rep.violation(rule, TRANS, 'move_obstacles', fl, 'move_obstacles',
                      f'expected exactly one Grid.swap call, found {len(swaps)}')
        return
    sw = swaps[0]
    call = sw.ev.node
    rep.check(src(w.expand(call.func.value, w_.ren)) == 'S.grid', rule, TRANS,
              'move_obstacles', sw.line, src(call), 'swap is not applied to the state grid',
              'swap on state grid')
    if not sw.ev.loops or len(call.args) != 2:
        rep.violation(rule, TRANS, 'move_obstacles', sw.line, src(call),
                      'the swap is not inside the per-obstacle loop / not swap(p, q)')
        return
    loop_t, loop_it = sw.ev.loops[0]
    # (a) obstacle list
    if not isinstance(loop_it, ast.Name):
        rep.violation(rule, TRANS, 'move_obstacles', sw.line, src(loop_it),
                      'the obstacle loop does not iterate over a list collected beforehand '
                      '(an obstacle could be moved twice)')
        return
    from ..cellstream import StreamReader
    reader = StreamReader(index, f.module, w, w_.ren)
    d = w.single_def(loop_it.id)
    st = reader.read(loop_it)
    ok = d is not None and d[0] == 'value' and not d[4] and d[3] == ('true',) and \
        st is not None and st.kind == 'cells' and st.grid == 'S.grid' and \
        [src(c) for c in st.filters] == ['isinstance(O, MovingObstacle)']
    lc = d[1] if d and d[0] == 'value' else None
    if d is not None and d[0] == 'value' and st is None:
        raise AnalysisError('move_obstacles: the obstacle list '
                            f'`{src(d[1])[:80]}` is outside the grammar of cell streams')
    rep.check(bool(ok), rule, TRANS, 'move_obstacles', fl, src(lc)[:160] if lc is not None else '',
              'the obstacle positions are not every position of the state grid (row by row) '
              'whose cell is a MovingObstacle, collected once before any movement'
              + (f': {st.kind} of {st.grid} filtered by {[src(c) for c in st.filters]}'
                 if st is not None else ''),
              'obstacle list')
    muts = [e for e in w_.effects if e.kind == 'call' and e.target.split('.')[0] == loop_it.id]
    rep.check(not muts, rule, TRANS, 'move_obstacles', fl,
              '; '.join(src(e.ev.node) for e in muts) or loop_it.id,
              'the obstacle list is modified while iterating', 'list not modified')
    # (e) swap arguments
    a0, a1 = call.args
    rep.check(src(a0) == src(loop_t), rule, TRANS, 'move_obstacles', sw.line, src(call),
              f'the swap moves `{src(a0)}`, not the obstacle of this iteration', 'swap source')
    # destination C[i]
    dest = a1
    cname = None
    if isinstance(a1, ast.Name):
        dd = [x for x in w.defs.get(a1.id, []) if x[0] == 'value']
        if len(dd) == 1:
            dest = not_none_branch(dd[0][1], a1.id, sw.ev.guard)
    okd = isinstance(dest, ast.Subscript) and isinstance(dest.value, ast.Name)
    if okd:
        cname = dest.value.id
        okd = choice_index_of(w_, dest.slice, cname) == cname
    elif picked_from(index, dest) is not None:
        cname = picked_from(index, dest)
        okd = True
    rep.check(bool(okd), rule, TRANS, 'move_obstacles', sw.line, src(dest),
              'the destination is not C[rng.choice(len(C))] of the candidate list itself '
              '(some free neighbour would be impossible, or a non-candidate possible)',
              'full-support index')
    if not okd:
        return
    cd = w.single_def(cname)
    cst = reader.read(ast.Name(cname, ast.Load())) if cd is not None else None
    if cd is None or cd[0] != 'value':
        rep.violation(rule, TRANS, 'move_obstacles', sw.line, cname,
                      'the candidate list is not built by one expression')
        return
    if cst is None:
        raise AnalysisError('move_obstacles: the candidate list '
                            f'`{src(cd[1])[:80]}` is outside the grammar of cell streams')
    clc = cd[1]
    in_loop = bool(cd[4]) and src(cd[4][0][0]) == src(loop_t)
    rep.check(in_loop, rule, TRANS, 'move_obstacles', clc.lineno, src(clc)[:120],
              'the candidate cells are not computed inside the per-obstacle loop (they must '
              'see the moves already made)', 'candidates at its turn')
    okc = cst.kind == 'nbrs' and cst.centre == src(loop_t)
    rep.check(bool(okc), rule, TRANS, 'move_obstacles', clc.lineno, src(clc)[:160],
              'candidates are not drawn from the four neighbours of this obstacle '
              f'(get_manhattan_boundary(position, distance=1)): {cst.kind} around '
              f'`{cst.centre}`', 'candidates from the 4-neighbourhood')
    if not okc:
        return
    nv = 'P'
    evl = Evaluator(index)
    m2 = FnModel(index, f, ['S', 'A'], evl)
    import copy as _copy

    class _O(ast.NodeTransformer):
        def visit_Name(self, n):
            if n.id == 'O':
                return ast.parse(f'{cst.grid or "S.grid"}[P]', mode='eval').body
            return n
    fl_ = [_O().visit(_copy.deepcopy(c)) for c in cst.filters]
    cond_f = formula_of(ast.BoolOp(ast.And(), fl_) if len(fl_) > 1 else fl_[0]) if fl_ \
        else ('true',)

    def spec(wd, e):
        ins = wd.vals.get(('inside', nv))
        if ins is None:
            return None
        if not ins:
            return False
        k = wd.vals.get(('kind', f'S.grid[{nv}]'))
        if k is None:
            return None
        return k.cls == 'Floor'

    bad, n = equiv(m2, [cond_f], spec,
                   touch=[f'S.grid.area.contains({nv}) and isinstance(S.grid[{nv}], Floor)'])
    rep.check(bad is None, rule, TRANS, 'move_obstacles', clc.lineno, show(cond_f),
              'candidate filter differs from `inside(cell) and isinstance(cell, Floor)`: '
              + (f'{bad[1]} when {describe_world(bad[0])}' if bad else ''),
              f'candidate filter equivalent in {n} worlds')
    # guard of the swap: non-emptiness of C only
    def spec2(wd, e):
        ne = wd.vals.get(('nonempty', cname))
        return None if ne is None else bool(ne)
    bad, n = equiv(m2, [m2.formula(sw.ev.guard)], spec2, touch=[f'len({cname}) > 0'])
    rep.check(bad is None, rule, TRANS, 'move_obstacles', sw.line, show(m2.formula(sw.ev.guard)),
              'the swap is not performed exactly when the obstacle has a free neighbour: '
              + (f'{bad[1]} when {describe_world(bad[0])}' if bad else ''),
              f'swap guard equivalent in {n} worlds')
    # Grid.swap is a true exchange
    swap_exchange(index, rep, rule)


def _boundary_args(call: ast.Call, loopvar: str) -> bool:
    args = [src(a) for a in call.args]
    kw = {k.arg: src(k.value) for k in call.keywords}
    pos = args[0] if args else kw.get('position')
    dist = args[1] if len(args) > 1 else kw.get('distance')
    return pos == loopvar and dist == '1'


def swap_exchange(index: RepoIndex, rep, rule: str) -> None:
    """Grid.swap is decided by abstract interpretation of its straight-line body over a
    two-cell store (cells self[p], self[q]; the cases p != q and p == q): at the end the two
    cells hold each other's initial content"""
    f = index.func(GRID, 'Grid.swap')
    p, q = [a.arg for a in f.node.args.args[1:3]]
    body = f.body()
    verdicts = []
    for same in (False, True):
        cells = {p: 'P0', q: 'P0' if same else 'Q0'}
        env: Dict[str, object] = {}

        def coord(e):
            """('y' | 'x', parameter) for a coordinate of p / q"""
            if isinstance(e, ast.Name) and isinstance(env.get(e.id), tuple):
                return env[e.id]
            if isinstance(e, ast.Attribute) and e.attr in ('y', 'x') and \
                    isinstance(e.value, ast.Name) and e.value.id in (p, q):
                return (e.attr, e.value.id)
            return None

        def cell_of(t):
            if isinstance(t, ast.Subscript) and src(t.value) == 'self' and \
                    isinstance(t.slice, ast.Name) and t.slice.id in (p, q):
                return t.slice.id
            # self.objects[py][px] (directly or through a local alias of the rows)
            if isinstance(t, ast.Subscript) and isinstance(t.value, ast.Subscript) and (
                    src(t.value.value) == 'self.objects' or
                    (isinstance(t.value.value, ast.Name) and
                     env.get(t.value.value.id) == 'ROWS')):
                cy, cx_ = coord(t.value.slice), coord(t.slice)
                if cy is None or cx_ is None or cy[0] != 'y' or cx_[0] != 'x' or \
                        cy[1] != cx_[1]:
                    raise AnalysisError(f'Grid.swap: cell `{src(t)}` is not addressed by the '
                                        f'(y, x) of one of its parameters')
                return cy[1]
            return None

        def pair_of(v):
            """the parameter whose (y, x) the expression denotes: p.yx, (p.y, p.x), helper(p)"""
            if isinstance(v, ast.Attribute) and v.attr == 'yx' and \
                    isinstance(v.value, ast.Name) and v.value.id in (p, q):
                return v.value.id
            if isinstance(v, ast.Tuple) and len(v.elts) == 2:
                a, b = coord(v.elts[0]), coord(v.elts[1])
                if a and b and a[0] == 'y' and b[0] == 'x' and a[1] == b[1]:
                    return a[1]
            if isinstance(v, ast.Call) and isinstance(v.func, ast.Name) and len(v.args) == 1 \
                    and not v.keywords and isinstance(v.args[0], ast.Name) and \
                    v.args[0].id in (p, q):
                from ..geom import GeoInterp, P
                h = index.resolve_name(f.module, v.func.id)
                if isinstance(h, Func) and len(h.node.args.args) == 1:
                    r = GeoInterp(index).call(h, {h.node.args.args[0].arg: P('cy', 'cx')})
                    if r[0] == 'U' and len(r[1]) == 2 and all(c[0] == 'N' for c in r[1]) and \
                            str(r[1][0][1]) == 'cy' and str(r[1][1][1]) == 'cx':
                        return v.args[0].id
            return None

        def read(e):
            c = cell_of(e)
            if c is not None:
                return cells[c]
            if isinstance(e, ast.Name) and isinstance(env.get(e.id), str) and \
                    env[e.id] != 'ROWS':
                return env[e.id]
            raise AnalysisError(f'Grid.swap: value `{src(e)}` outside the grammar')

        def write(t, v):
            c = cell_of(t)
            if c is not None:
                cells[c] = v
                if same:
                    cells[p] = cells[q] = v
            elif isinstance(t, ast.Name):
                env[t.id] = v
            else:
                raise AnalysisError(f'Grid.swap: target `{src(t)}` outside the grammar')
        for st in body:
            if isinstance(st, ast.Expr) and isinstance(st.value, ast.Constant):
                continue
            if isinstance(st, ast.AnnAssign) and st.value is not None:
                write(st.target, read(st.value))
                continue
            if not (isinstance(st, ast.Assign) and len(st.targets) == 1):
                raise AnalysisError(f'Grid.swap: statement `{src(st)[:60]}` outside the grammar')
            t, v = st.targets[0], st.value
            if isinstance(t, ast.Name) and src(v) == 'self.objects':
                env[t.id] = 'ROWS'
                continue
            if isinstance(t, ast.Tuple) and len(t.elts) == 2 and \
                    all(isinstance(x, ast.Name) for x in t.elts) and pair_of(v) is not None:
                who = pair_of(v)
                env[t.elts[0].id], env[t.elts[1].id] = ('y', who), ('x', who)
                continue
            if isinstance(t, ast.Tuple) and isinstance(v, ast.Tuple) and \
                    len(t.elts) == len(v.elts):
                vals = [read(x) for x in v.elts]       # right-hand side first
                for tt, vv in zip(t.elts, vals):
                    write(tt, vv)
            else:
                write(t, read(v))
        want = {p: 'P0', q: 'P0'} if same else {p: 'Q0', q: 'P0'}
        verdicts.append((cells == want, same, dict(cells)))
    bad = [v for v in verdicts if not v[0]]
    rep.check(not bad, rule, GRID, 'Grid.swap', f.node.lineno,
              '; '.join(src(st) for st in body if not isinstance(st, ast.Expr))[:200],
              'Grid.swap is not an exchange of the two cells (an object would be duplicated or '
              'lost): ' + '; '.join(
                  f'with p {"==" if sm else "!="} q the cells end as {c}' for _, sm, c in bad),
              'swap is an exchange')


def boundary(index: RepoIndex, rep, rule: str) -> None:
    """the denotation of get_manhattan_boundary(p, d) for d = 1, 2, 3 in the pose algebra
    (positions with affine coordinates over the symbols py, px): exactly the cells at Manhattan
    distance d, each once.  Read through GeoInterp, so the four straight lines may be spelled
    out, rotated copies of one arm, or built by extend / comprehension alike."""
    from ..affine import Aff
    from ..geom import GeoInterp, P
    f = index.func(GEOM, 'get_manhattan_boundary')
    pp, dp = [a.arg for a in f.node.args.args[:2]]
    geo = GeoInterp(index)
    py, px = Aff.sym('py'), Aff.sym('px')
    for d in (1, 2, 3):
        r = geo.call(f, {pp: P('py', 'px'), dp: ('N', Aff.const(d))})
        if r[0] != 'U' or any(c[0] != 'P' for c in r[1]):
            raise AnalysisError(f'get_manhattan_boundary(p, {d}) does not denote a list of '
                                f'positions: {str(r)[:120]}')
        offs = []
        for c in r[1]:
            dy, dx = c[1][0] - py, c[1][1] - px
            if not (dy.is_const() and dx.is_const()):
                raise AnalysisError(f'get_manhattan_boundary: cell {c[1]} is not the centre '
                                    f'plus a constant offset')
            offs.append((int(dy.k), int(dx.k)))
        want = sorted((y, x) for y in range(-d, d + 1) for x in range(-d, d + 1)
                      if abs(y) + abs(x) == d)
        rep.check(sorted(offs) == want, rule, GEOM, 'get_manhattan_boundary', f.node.lineno,
                  f'offsets at distance {d}: {sorted(offs)}',
                  f'get_manhattan_boundary(p, {d}) yields offsets {sorted(offs)}, not '
                  + ('the four neighbours ' if d == 1 else 'the cells at that distance ')
                  + f'{want}' + (' (a cell listed twice is drawn twice as often)'
                                if sorted(set(offs)) == want else ''),
                  f'boundary at distance {d}')
    # a non-positive distance is refused, not answered with an empty or wrong ring
    r0 = geo.call(f, {pp: P('py', 'px'), dp: ('N', Aff.const(0))})
    rep.check(r0[0] == 'X' or (r0[0] == 'U' and not r0[1]), rule, GEOM,
              'get_manhattan_boundary', f.node.lineno, str(r0)[:80],
              'get_manhattan_boundary(p, 0) returns cells', 'distance 0 refused')


def teleport(index: RepoIndex, rep, rule: str) -> None:
    f = index.func(TRANS, 'teleport')
    fl = f.node.lineno
    evl = Evaluator(index)
    m = FnModel(index, f, ['S', 'A'], evl)
    w = m.walk
    st = [e for e in m.effects if effect_class(e)]
    pos = [e for e in st if effect_class(e) == 'position']
    rep.check(len(pos) >= 1 and len(pos) == len(st), rule, TRANS, 'teleport', fl,
              '; '.join(src(e.ev.stmt) for e in st) or 'teleport',
              f'teleport writes {[e.target for e in st]}; it may only set the agent position',
              'only position')
    if not pos:
        return
    for e in pos:
        v = e.ev.value
        dest = v
        if isinstance(v, ast.Name):
            dd = [x for x in w.defs.get(v.id, []) if x[0] == 'value']
            if len(dd) == 1:
                dest = not_none_branch(dd[0][1], v.id, e.ev.guard)
        cname = None
        ok = isinstance(dest, ast.Subscript) and isinstance(dest.value, ast.Name)
        if ok:
            cname = dest.value.id
            ok = choice_index_of(m, dest.slice, cname) == cname
        elif picked_from(index, dest) is not None:
            cname = picked_from(index, dest)
            ok = True
        rep.check(bool(ok), rule, TRANS, 'teleport', e.line, src(e.ev.stmt),
                  'the destination is not C[rng.choice(len(C))] of the candidate list (some '
                  'partner pod would be impossible)', 'full-support index')
        if not ok:
            continue
        from ..cellstream import StreamReader
        cd = w.single_def(cname)
        if cd is None or cd[0] != 'value':
            rep.violation(rule, TRANS, 'teleport', e.line, cname,
                          'the destination list is not built by one expression')
            continue
        clc = cd[1]
        cst = StreamReader(index, f.module, w, m.ren).read(ast.Name(cname, ast.Load()))
        if cst is None:
            raise AnalysisError(f'teleport: the destination list `{src(clc)[:80]}` is outside '
                                f'the grammar of cell streams')
        okc = cst.kind == 'cells' and cst.grid == 'S.grid'
        rep.check(bool(okc), rule, TRANS, 'teleport', clc.lineno, src(clc)[:160],
                  'destinations are not selected among all positions of the grid',
                  'all positions')
        if not okc:
            continue
        pv = 'P'
        ev2 = Evaluator(index, always_inside=('S.agent.position', pv))
        m2 = FnModel(index, f, ['S', 'A'], ev2)
        import copy as _copy

        class _O(ast.NodeTransformer):
            def visit_Name(self, n):
                if n.id == 'O':
                    return ast.parse('S.grid[P]', mode='eval').body
                return n
        fl_ = [_O().visit(_copy.deepcopy(c)) for c in cst.filters]
        cond_f = formula_of(ast.BoolOp(ast.And(), fl_) if len(fl_) > 1 else fl_[0]) if fl_ \
            else ('true',)
        here = cell(POS)

        def spec(wd, ev_):
            same = [k for k in wd.vals if k[0] == 'eq' and set(k[1:]) == {pv, POS}]
            if not same:
                return None
            if wd.vals[same[0]]:
                return False
            k = wd.vals.get(('kind', f'S.grid[{pv}]'))
            if k is None:
                return None
            if k.cls != 'Telepod':
                return False
            col = [kk for kk in wd.vals if kk[0] == 'eq' and 'color(' in kk[1]]
            if not col:
                return None
            return bool(wd.vals[col[0]])

        bad, n = equiv(m2, [cond_f], spec,
                       touch=[f'{pv} != {POS} and isinstance(S.grid[{pv}], Telepod) and '
                              f'S.grid[{pv}].color == {here}.color'])
        rep.check(bad is None, rule, TRANS, 'teleport', clc.lineno, show(cond_f),
                  'destination filter differs from `other cell and Telepod and same colour as '
                  'the current pod`: ' + (f'{bad[1]} when {describe_world(bad[0])}' if bad else ''),
                  f'destination filter equivalent in {n} worlds')

        def spec2(wd, ev_):
            k = wd.vals.get(('kind', here))
            if k is None:
                return None
            if k.cls != 'Telepod':
                return False
            ne = wd.vals.get(('nonempty', cname))
            return None if ne is None else bool(ne)

        bad, n = equiv(m2, [m2.formula(e.ev.guard)], spec2,
                       touch=[f'isinstance({here}, Telepod) and len({cname}) > 0'])
        rep.check(bad is None, rule, TRANS, 'teleport', e.line, show(m2.formula(e.ev.guard)),
                  'teleport gate differs from `standing on a Telepod and a partner exists`: '
                  + (f'{bad[1]} when {describe_world(bad[0])}' if bad else ''),
                  f'teleport gate equivalent in {n} worlds')


AREAS = (((0, 0), (0, 0)), ((0, 0), (0, 3)), ((0, 3), (0, 0)), ((0, 1), (0, 1)),
         ((0, 2), (0, 3)), ((-1, 1), (2, 4)), ((0, 1), (0, 4)), ((0, 4), (0, 1)))


def scan_once(index: RepoIndex, rep, rule: str, declare: bool = True) -> None:
    """`Area.positions('all')` lists every cell of the area exactly once (in any order), and
    `'inside'` every interior cell exactly once -- also for one-row, one-column and one-cell
    areas -- decided on the denotation of the method at eight small concrete areas (the
    generators are affine in the bounds, so small areas exercise every shape class).  A scan
    that lists a cell twice makes `move_obstacles` move an obstacle twice in one step."""
    from ..posenum import area_positions
    if declare:
        rep.rule(rule, "Area.positions('all' / 'inside') enumerates each cell exactly once, in "
                 'some fixed order (degenerate areas included)', floor=16)
    GEOMF = 'gym_gridverse/geometry.py'
    m = index.func(GEOMF, 'Area.positions')
    for ys, xs in AREAS:
        want_all = [(y, x) for y in range(ys[0], ys[1] + 1) for x in range(xs[0], xs[1] + 1)]
        want_in = [(y, x) for y in range(ys[0] + 1, ys[1]) for x in range(xs[0] + 1, xs[1])]
        for sel, want in (('all', want_all), ('inside', want_in)):
            got = area_positions(index, sel, ys, xs)
            rep.check(sorted(got) == sorted(want), rule, GEOMF, 'Area.positions', m.node.lineno,
                      f"Area({ys}, {xs}).positions({sel!r}) = {got[:8]}",
                      f"Area({ys}, {xs}).positions({sel!r}) yields {got[:10]}, expected each of "
                      f'{want[:10]} exactly once',
                      f'positions({sel!r}) on {ys}x{xs}')
        got_b = area_positions(index, 'border', ys, xs)
        want_b = set(want_all) - set(want_in)
        rep.check(set(got_b) == want_b, rule, GEOMF, 'Area.positions', m.node.lineno,
                  f"Area({ys}, {xs}).positions('border') = {sorted(set(got_b))[:8]}",
                  f"Area({ys}, {xs}).positions('border') covers {sorted(set(got_b))[:10]}, not "
                  f'exactly the border cells', f"positions('border') on {ys}x{xs}")


def run(index: RepoIndex, rep) -> None:
    rep.rule('C11.R1', 'move_obstacles: list collected before the loop, candidates = in-grid '
             'Floor neighbours at its turn, full-support index, swap only, stays if none',
             floor=10)
    rep.rule('C11.R4', 'the dynamics reach the environment as configured: chain runs each part '
             'once per step, the factory binds the configured parts as given, and a step works '
             'on a plain deep copy of the caller\'s state (C08.R8)', floor=20)
    from .c09 import deep_copy_rule
    from .wiring import chain_once, transition_factory_passthrough
    deep_copy_rule(index, rep, 'C11.R4')
    chain_once(index, rep, 'C11.R4')
    transition_factory_passthrough(index, rep, 'C11.R4')
    rep.rule('C11.R2', 'get_manhattan_boundary(p, 1) is the four neighbours', floor=2)
    rep.rule('C11.R3', 'teleport: only from a Telepod, to another pod of the same colour, '
             'full support, no partner -> no move', floor=5)
    obstacles(index, rep, 'C11.R1')
    boundary(index, rep, 'C11.R2')
    teleport(index, rep, 'C11.R3')
    scan_once(index, rep, 'C11.R4')
